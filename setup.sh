#!/bin/sh
# Nothing to build ahead of time: every check rebuilds what it needs from /repo's working tree
# into a scratch directory. This only verifies that the required tools are present.
set -e
for t in cbmc goto-cc goto-instrument nasm objdump ld gcc python3-vt; do command -v $t >/dev/null || { echo "missing tool $t"; exit 1; }; done
python3-vt -c "import z3" 
echo setup ok
