"""Helpers shared by the plans of the igzip compression checks (C01, C07, C10, C14)."""
import itertools
import os
import re

R = "vlib.cbmc:cbmc_query"
ONESHOT = "harness/deflate_common/h_oneshot.c"
VUNITS = ["harness/deflate_common/link_stubs.c"]

# portable-C configuration for level 0.  igzip/igzip_base.c is compiled as part of the harness TU
# (see deflate_shim.h), everything else is linked as the repo's own unit.
UNITS = ["igzip/igzip.c", "igzip/igzip_base_aliases.c", "igzip/hufftables_c.c",
         "crc/crc_base.c", "crc/crc64_base.c", "crc/crc_base_aliases.c", "igzip/adler32_base.c"]

WRAPS = {0: "raw", 1: "gzip", 2: "gzip_nohdr", 3: "zlib", 4: "zlib_nohdr"}
HDR = {0: 0, 1: 10, 2: 0, 3: 2, 4: 0}
TRL = {0: 0, 1: 8, 2: 8, 3: 4, 4: 4}

STATIC_LIT_CLASSES = [8, 9]          # RFC 1951 3.2.6: literals 0-143 8 bits, 144-255 9 bits


def bound(n, wrap):
    """one-shot bound of property C10: n + 5 per started 65535-byte block (min 1) + wrapper"""
    blocks = 1 if n == 0 else (n + 65534) // 65535
    return n + 5 * blocks + HDR[wrap] + TRL[wrap]


def default_lit_classes(repo):
    """distinct literal code lengths of hufftables_default in the default (32 KiB window, short table)
    build, read from the repo's hufftables_c.c at plan time (the OTHER queries prove the set complete)."""
    txt = open(os.path.join(repo, "igzip/hufftables_c.c")).read()
    blocks = re.findall(r"\.lit_table_sizes\s*=\s*\{([^}]*)\}", txt)
    # order in the file: default(8K window), default(32K window), static
    if len(blocks) != 3:
        return list(range(1, 16))
    vals = [int(x, 16) for x in re.findall(r"0x[0-9a-fA-F]+", blocks[1])][:256]
    return sorted(set(vals))


def class_vectors(n, classes, with_other=True):
    """-> list of (tag, DFL_CLASSES list, DFL_TOKLENS list, feasible(bool))
    all vectors of literal code lengths for n literals, plus (with_other) one OTHER query per proper
    prefix that proves no other length occurs at that position."""
    out = []
    for v in itertools.product(classes, repeat=n):
        out.append(("c" + "".join("%x" % c for c in v) if n else "c-", list(v), list(v), True))
    if with_other:
        for k in range(n):
            for v in itertools.product(classes, repeat=k):
                out.append(("c" + "".join("%x" % c for c in v) + "X", list(v) + [255], list(v), False))
    return out


def unwindset(n, exact=False, dynamic=False, extra=None, ncalls=1, nblk=2, avail=64):
    """per-loop bounds derived from the concrete sizes of the query"""
    u = {
        "dfl_get_lit_code.0": 17,
        "wmemset.0": 18,
        "reset_match_history.0": 3,
        "reset_match_history.1": 2,
        "isal_deflate.0": 3,
        "isal_deflate_finish_base.0": n + 2,
        "isal_deflate_finish_base.1": n + 2,
        "isal_deflate_finish_base.2": n + 2,
        "isal_deflate_body_base.0": 2,
        "isal_deflate_body_base.1": 2,
        "isal_deflate_hash_base.0": 2,
        "compare258.0": n // 8 + 2,
        "crc32_gzip_refl_base.0": n + 2,
        "adler32_base.0": 2,
        "adler32_base.1": 2,
        "adler32_base.2": n + 2,
        "spec_adler32.0": n + 2,
        "write_stored_block.0": 3,
        "write_deflate_header_unaligned_stateless.0": 16,
        "detect_repeated_char_length.0": 2,
        "detect_repeated_char_length.1": 2,
        "write_constant_compressed_stateless.0": 2,
        "write_constant_compressed_stateless.1": 2,
        "write_constant_compressed_stateless.2": 2,
        "rfc1952_header_len.0": avail + 2,
        "rfc1952_header_len.1": avail + 2,
        "rfc_bits.0": 17,
        "rfc_code_bits.0": 10,
        # nested loops: CBMC numbers loops by the position of their back edge, inner loops first
        "dfl_guided_decode.0": n + 2,
        "dfl_guided_decode.1": n + 2,
        "dfl_guided_decode.2": nblk + 1,
        "dfl_check_stream.0": n + 2,
    }
    for i in range(8):
        u["harness.%d" % i] = max(n + 2, ncalls + 2)
    for i in range(3):   # one_call(): history loop (n) and the hash-head invariant loop (<= 8192 heads)
        u["one_call.%d" % i] = 20
    if exact:
        u.update({"rfc_codes.0": n + 3, "rfc_codes.1": n + 3, "rfc1951_inflate.0": n + 2,
                  "rfc1951_inflate.1": nblk + 1})
    if dynamic:
        u.update({"rfc_dynamic.0": 20, "rfc_dynamic.1": 20, "rfc_dynamic.2": 140, "rfc_dynamic.3": 330,
                  "rfc_construct.0": 17, "rfc_construct.1": 330, "rfc_construct.2": 16, "rfc_construct.3": 16,
                  "rfc_construct.4": 330, "rfc_decode.0": 16})
    if extra:
        u.update(extra)
    return ["%s:%d" % kv for kv in sorted(u.items())]


def cdef(name, vals):
    return "%s=%s" % (name, ",".join(str(v) for v in vals) if vals else "0")


def fs_flags(avail):
    """keep the output object cell-split in symex (default limit is 64 elements; deflate_hdr[328] of the Huffman tables too): header bytes copied from
    the constant tables then stay constants, which keeps the reference decoder's header parse concrete"""
    return ["--max-field-sensitivity-array-size", str(max(400, avail + 8))]
