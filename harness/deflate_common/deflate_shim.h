/* Code-length class split for the level-0 C kernels (igzip_base.c), included by the compression harnesses
 * INSTEAD of linking igzip/igzip_base.c as a unit.  The repo's source text is compiled unchanged
 * (`#include "igzip_base.c"`); only the name `write_bits` is interposed for that translation unit.
 *
 * Why: the number of bits of every emitted code depends on the (symbolic) data byte through a table
 * lookup.  CBMC's symbolic execution then carries symbolic output pointers, avail_out, state..., and one
 * isal_deflate call does not finish (measured: > 25 min / > 6 GB even for one input byte).  The total bit
 * count of each emitted token is a *size*; like every other size it is made concrete per query and swept by
 * plan.py.  DFL_CLASSES lists, for the k-th write_bits call made by isal_deflate_body_base /
 * isal_deflate_finish_base (in call order), the bit count c_k:
 *      c_k == 0     no constraint (used for end-of-block codes, whose length is concrete anyway)
 *      c_k in 1..63 assume(count == c_k) and continue with the constant
 *      c_k == 255   assert(count is one of DFL_CLASS_SET) and stop the path ("OTHER": for every input with
 *                   the given prefix of classes the k-th code length lies in the swept set, i.e. the case
 *                   split is complete)
 * The assumption restricts the *input bytes* to those whose code has that length; sweeping all vectors
 * over DFL_CLASS_SET at each position plus one OTHER query per prefix covers every input.  A vector whose
 * shape does not match the execution (e.g. constrains an end-of-block write) makes the query vacuous,
 * which the witness twin of the query turns into an error.
 *
 * The native replay build compiles the same text with a pass-through write_bits.
 */
#ifndef DEFLATE_SHIM_H
#define DEFLATE_SHIM_H
/* speed: the x86 intrinsic headers pulled in by huffman.h/huff_codes.h cost 13 s per goto-cc run and
 * nothing in igzip_base.c uses an intrinsic (a use would fail to compile here) */
#ifndef REPLAY
#define _X86INTRIN_H_INCLUDED 1
#define _IMMINTRIN_H_INCLUDED 1
#endif
#define write_bits repo_write_bits
#include "bitbuf2.h"
#undef write_bits

#ifndef DFL_CLASSES
#define DFL_CLASSES 0
#endif
#ifndef DFL_CLASS_SET
#define DFL_CLASS_SET 0
#endif
static const uint8_t dfl_class[] = { DFL_CLASSES, 0 };
static const uint8_t dfl_class_set[] = { DFL_CLASS_SET, 0 };
static unsigned dfl_k; /* ordinal of the write_bits call inside igzip_base.c */

static inline void
write_bits(struct BitBuf2 *me, uint64_t code, uint32_t count)
{
#ifndef REPLAY
        if (dfl_k < sizeof(dfl_class) - 1) {
                uint8_t c = dfl_class[dfl_k];
                if (c == 255) {
                        int in_set = 0;
                        for (unsigned j = 0; j < sizeof(dfl_class_set) - 1; j++)
                                if (count == dfl_class_set[j])
                                        in_set = 1;
                        __CPROVER_assert(in_set, "code length class set of the sweep is complete at this position");
                        __CPROVER_assume(0);
                } else if (c != 0) {
                        __CPROVER_assume(count == c);
                        count = c;
                }
        }
#endif
        dfl_k++;
        repo_write_bits(me, code, count);
}

#include "igzip_base.c"
#endif
