/* Code-length class split for the level-0 C kernels (igzip_base.c), included by the compression harnesses
 * INSTEAD of linking igzip/igzip_base.c as a unit.  Must be included directly from the harness .c file.
 * The repo's source text is compiled unchanged (`#include "igzip_base.c"`); only the calls
 * `get_lit_code(tables, literal & 0xFF, ...)` made by isal_deflate_body_base / isal_deflate_finish_base for
 * DATA literals are routed through dfl_get_lit_code() below (which calls the repo's get_lit_code first).
 *
 * Why: the number of bits of every emitted literal code depends on the (symbolic) data byte through a table
 * lookup.  CBMC's symbolic execution then carries symbolic output pointers, avail_out, state..., and one
 * isal_deflate call does not finish (measured: no verdict after 1059 s / 20 GB for ONE input byte).  The code
 * length of each literal is a *size*; like every other size it is made concrete per query and swept by
 * plan.py.  DFL_CLASSES lists, for the k-th data literal (= k-th input byte, literals are emitted in input
 * order and never twice), the code length c_k:
 *      c_k == 0     no constraint
 *      c_k in 1..15 assume(len == c_k) and continue with the constant
 *      c_k == 255   assert(len is one of DFL_CLASS_SET) and stop the path ("OTHER": for every input with
 *                   the given prefix of classes the k-th code length lies in the swept set, i.e. the case
 *                   split is complete)
 * The assumption restricts the *input bytes* to those whose code has that length; sweeping all vectors
 * over DFL_CLASS_SET plus one OTHER query per prefix covers every input.  End-of-block codes
 * (`get_lit_code(tables, 256, ...)`) are not touched: their length is a constant of the table.
 *
 * Mechanics (preprocessor only, no source change): huffman.h has no include guard, so the definition cannot
 * be renamed by pre-including it.  A function-like macro get_lit_code() dispatches on __INCLUDE_LEVEL__:
 * inside huffman.h (level 3) it renames the definition to repo_get_lit_code; inside igzip_base.c (level 2) it
 * expands a call to dfl_get_lit_code(..., is_eob) where is_eob is derived from the first token of the literal
 * argument (`256` -> 1, `literal & 0xFF` -> 0 & 0xFF).  Any change of those call sites fails to compile.
 *
 * The native replay build compiles the same text with a pass-through dfl_get_lit_code.
 */
#ifndef DEFLATE_SHIM_H
#define DEFLATE_SHIM_H
#if __INCLUDE_LEVEL__ != 1
#error deflate_shim.h must be included directly from the harness source file
#endif
/* speed: the x86 intrinsic headers pulled in by huffman.h/huff_codes.h cost 13 s per goto-cc run and
 * nothing in igzip_base.c uses an intrinsic (a use would fail to compile here) */
#ifndef REPLAY
#define _X86INTRIN_H_INCLUDED 1
#define _IMMINTRIN_H_INCLUDED 1
#endif
#include "igzip_lib.h"

#ifndef DFL_CLASSES
#define DFL_CLASSES 0
#endif
#ifndef DFL_CLASS_SET
#define DFL_CLASS_SET 0
#endif
static const uint8_t dfl_class[] = { DFL_CLASSES, 0 };
static const uint8_t dfl_class_set[] = { DFL_CLASS_SET, 0 };
static unsigned dfl_k; /* ordinal of the data literal */

#define DFL_CAT_(a, b) a##b
#define DFL_CAT(a, b)  DFL_CAT_(a, b)
#define get_lit_code(a, b, c, d) DFL_CAT(DFL_GLC_L, __INCLUDE_LEVEL__)(a, b, c, d)
#define DFL_GLC_L3(a, b, c, d)   repo_get_lit_code(a, b, c, d)
#define DFL_GLC_L2(a, b, c, d)   dfl_get_lit_code(a, b, c, d, DFL_CAT(DFL_ISEOB_, b))
#define DFL_ISEOB_256     1
#define DFL_ISEOB_literal 0

static inline void
dfl_get_lit_code(struct isal_hufftables *hufftables, uint32_t lit, uint64_t *code, uint64_t *len, int is_eob);

#include "igzip_base.c"
#undef get_lit_code

static inline void
dfl_get_lit_code(struct isal_hufftables *hufftables, uint32_t lit, uint64_t *code, uint64_t *len, int is_eob)
{
        repo_get_lit_code(hufftables, lit, code, len);
        if (is_eob)
                return;
#ifndef REPLAY
        if (dfl_k < sizeof(dfl_class) - 1) {
                uint8_t c = dfl_class[dfl_k];
                if (c == 255) {
                        int in_set = 0;
                        for (unsigned j = 0; j < sizeof(dfl_class_set) - 1; j++)
                                if (*len == dfl_class_set[j])
                                        in_set = 1;
                        __CPROVER_assert(in_set, "code length class set of the sweep is complete at this position");
                        __CPROVER_assume(0);
                } else if (c != 0) {
                        __CPROVER_assume(*len == c);
                        *len = c;
                }
        }
#endif
        dfl_k++;
}
#endif
