/* Shared pieces of the igzip compression harnesses (C01, C07, C10, C14).
 *
 *  - libc stub CBMC lacks: wmemset (3-line loop, same semantics as the libc one)
 *  - RFC 1952 / RFC 1950 header parsers and trailer predicates written from the RFCs
 *    (independent of ISA-L's header writers/readers)
 *  - Adler-32 per RFC 1950 (2 sums mod 65521), written for the harness
 *  - dfl_check_stream(): header + rfc1951 reference decoder + "consumed to the last byte" + trailer
 *
 * The portable-C library configuration links igzip.c, igzip_base.c, igzip_base_aliases.c,
 * hufftables_c.c, crc_base.c, crc_base_aliases.c, adler32_base.c.  Level 0 never reaches the
 * level 1-3 (icf) or inflate entry points that igzip_base_aliases.c forwards to; under CBMC they
 * are defined by link_stubs.c (vunit) as "must not be reached" so that the native replay links without
 * the level 1-3 / inflate units and reaching one would be loud in both worlds.
 */
#ifndef DEFLATE_COMMON_H
#define DEFLATE_COMMON_H
#include "verif.h"
#include <stdlib.h>
#include <wchar.h>
#include "igzip_lib.h"
#include "crc.h"
#ifndef RFC_MAXBLOCKS
#define RFC_MAXBLOCKS 4
#endif
#include "rfc1951.h"

uint32_t
crc32_gzip_refl_base(uint32_t seed, uint8_t *buf, uint64_t len);

#ifndef REPLAY
/* CBMC has no model of wmemset: libc semantics as a loop.  The one big call (isal_deflate initialising all
 * IGZIP_LVL0_HASH_SIZE 16-bit hash heads = 4096 wide characters whose two halves are equal) is done as one
 * array assignment (array_set on a local + struct copy) instead of 4096 single stores, which CBMC cannot
 * digest (measured: 12 GB).  Same values; needs the stream object to be a static (not malloc'd) object to
 * keep its other fields untouched in CBMC's memory model. */
struct dfl_hw {
        uint16_t h[IGZIP_LVL0_HASH_SIZE];
};
wchar_t *
wmemset(wchar_t *s, wchar_t c, size_t n)
{
        if (n == sizeof(struct dfl_hw) / sizeof(wchar_t) && sizeof(wchar_t) == 4 && (((uint32_t) c) >> 16) == (((uint32_t) c) & 0xffff)) {
                uint16_t tmp[IGZIP_LVL0_HASH_SIZE];
                __CPROVER_array_set(tmp, (uint16_t) c);
                *(struct dfl_hw *) s = *(struct dfl_hw *) tmp;
        } else {
                for (size_t i = 0; i < n; i++)
                        s[i] = c;
        }
        return s;
}
#endif

/* ---------------------------------------------------------------- wrapper layouts (from the RFCs) */

static inline uint32_t
dfl_wrap_hdr_len(int gzip_flag)
{
        return gzip_flag == IGZIP_GZIP ? 10 : gzip_flag == IGZIP_ZLIB ? 2 : 0;
}

static inline uint32_t
dfl_wrap_trl_len(int gzip_flag)
{
        return (gzip_flag == IGZIP_GZIP || gzip_flag == IGZIP_GZIP_NO_HDR)   ? 8
               : (gzip_flag == IGZIP_ZLIB || gzip_flag == IGZIP_ZLIB_NO_HDR) ? 4
                                                                             : 0;
}

/* RFC 1952 2.3 member header: returns its length, or -1 if malformed / not complete in len bytes */
static inline int
rfc1952_header_len(const uint8_t *b, size_t len)
{
        size_t p = 10;
        if (len < 10)
                return -1;
        if (b[0] != 0x1f || b[1] != 0x8b) /* ID1 ID2 */
                return -1;
        if (b[2] != 8) /* CM = deflate */
                return -1;
        uint8_t flg = b[3];
        if (flg & 0xE0) /* reserved bits must be zero */
                return -1;
        if (flg & 4) { /* FEXTRA */
                if (p + 2 > len)
                        return -1;
                p += 2 + (size_t) (b[p] | (b[p + 1] << 8));
                if (p > len)
                        return -1;
        }
        for (int k = 0; k < 2; k++) /* FNAME, FCOMMENT: NUL terminated */
                if (flg & (k == 0 ? 8 : 16)) {
                        for (;;) {
                                if (p >= len)
                                        return -1;
                                if (b[p++] == 0)
                                        break;
                        }
                }
        if (flg & 2) { /* FHCRC */
                p += 2;
                if (p > len)
                        return -1;
        }
        return (int) p;
}

/* RFC 1950 2.2: CMF FLG [DICTID]; returns header length or -1; *cinfo, *fdict reported */
static inline int
rfc1950_header_len(const uint8_t *b, size_t len, int *cinfo, int *fdict)
{
        if (len < 2)
                return -1;
        if ((b[0] & 0x0f) != 8) /* CM */
                return -1;
        *cinfo = b[0] >> 4;
        if (*cinfo > 7)
                return -1;
        if ((((unsigned) b[0] << 8) | b[1]) % 31 != 0) /* FCHECK */
                return -1;
        *fdict = (b[1] >> 5) & 1;
        if (*fdict)
                return len >= 6 ? 6 : -1;
        return 2;
}

/* RFC 1950 8.2 */
static inline uint32_t
spec_adler32(const uint8_t *d, size_t n)
{
        uint32_t s1 = 1, s2 = 0;
        for (size_t i = 0; i < n; i++) {
                s1 = (s1 + d[i]) % 65521u;
                s2 = (s2 + s1) % 65521u;
        }
        return (s2 << 16) | s1;
}

/* ---------------------------------------------------------------- stream oracle
 * out[0..total) is claimed to be a complete stream of wrapper `gzip_flag` for in[0..n).
 * `dec` has capacity n (a decoder producing more reports RFC_OUTFULL). `effective_hist_bits`
 * is the window the encoder was allowed (for the zlib CINFO check). */
static inline int
dfl_check_wrap_header(const uint8_t *out, size_t total, int gzip_flag, int effective_hist_bits);
static inline void
dfl_check_trailer(const uint8_t *out, size_t total, int gzip_flag, uint8_t *in, size_t n);

static inline void
dfl_check_stream(const uint8_t *out, size_t total, int gzip_flag, uint8_t *in, size_t n, uint8_t *dec,
                 int effective_hist_bits)
{
        int hl = dfl_check_wrap_header(out, total, gzip_flag, effective_hist_bits);
        size_t tl = dfl_wrap_trl_len(gzip_flag);
        VASSERT((size_t) hl + tl <= total, "room for header and trailer");
        struct rfc_res r;
        rfc1951_inflate(out + hl, total - (size_t) hl, 0, dec, n, (const uint8_t *) 0, 0, &r);
        VASSERT(r.status == RFC_OK, "reference RFC 1951 decoder accepts the deflate data up to a BFINAL block");
        VASSERT(r.out_len == n, "decoded length equals input length");
        for (size_t i = 0; i < n; i++)
                VASSERT(dec[i] == in[i], "decoded bytes equal input bytes");
        size_t dend = (size_t) hl + ((r.bit_pos + 7) >> 3);
        VASSERT(dend + tl == total, "stream consumed to its last byte (deflate end rounded up + trailer == total_out)");
        /* the trailer is addressed from the end of the stream: the same bytes when the assertion above
         * holds (a violation is already reported when it does not) */
        dfl_check_trailer(out, total, gzip_flag, in, n);
}

/* ---------------------------------------------------------------- guided (script-driven) decoding
 * The exact oracle above runs the whole reference decoder over bytes whose code lengths depend on the
 * data: every bit position becomes a symbolic expression and one query costs 10-60 s.  The guided form
 * checks the same facts block by block and token by token with the primitives of rfc1951.h (rfc_bits,
 * rfc_fixed_litlen = the RFC 3.2.6 code), but after each token it asserts the bit position the class
 * vector of the query predicts (see deflate_shim.h) and then continues from that *concrete* position
 * (assert-then-assign: nothing is assumed, a wrong position is reported as a violation).
 *
 * What it asserts beyond the property text (structure expectations, messages prefixed STRUCT): the block
 * type sequence and the number of literals per block that the configuration (table choice, flush schedule)
 * implies, and literal-only tokens.  A different but valid encoding would be flagged; the exact oracle is
 * run on a subset of the same configurations to cross-check the guided one on the unchanged tree.
 */
struct dfl_blk {
        uint8_t btype; /* 0 stored, 1 fixed */
        uint8_t nlit;  /* literals (fixed) or LEN (stored) */
};

struct dfl_guided {
        size_t bit_pos; /* after the last block of the script */
        size_t out_len;
        int saw_final;
};

/* Decode `nblk` blocks starting at bit `start_bit` of in[0..in_len) and compare with exp[0..) (the
 * original input bytes that these blocks must reproduce).  toklen[] = expected bit length per literal
 * token in input order (0 = not predicted: position stays symbolic).  want_final: the stream must be
 * finished: BFINAL on the last block of the script or on one extra empty fixed block after it (and on no
 * other block). */
static inline void
dfl_guided_decode(const uint8_t *in, size_t in_len, size_t start_bit, const struct dfl_blk *blk, int nblk,
                  const uint8_t *exp, const uint8_t *toklen, int ntoklen, int want_final, struct dfl_guided *g)
{
        struct rfc_st s;
        s.in = in;
        s.in_bits = in_len * 8;
        s.pos = start_bit;
        s.out = 0;
        s.out_cap = 0;
        s.out_len = 0;
        s.dict = 0;
        s.dict_len = 0;
        s.eof = 0;
        s.max_dist = 0;
        s.nmatches = 0;
        size_t idx = 0;
        int tok = 0;
        int final_seen = 0;
        for (int b = 0; b < nblk; b++) {
                int last = (int) rfc_bits(&s, 1);
                int type = (int) rfc_bits(&s, 2);
                VASSERT(!s.eof, "block header inside the output");
                VASSERT(!final_seen, "no block follows a BFINAL block");
                VASSERT(type == blk[b].btype, "STRUCT: block type as implied by the table choice / fallback");
                type = blk[b].btype;
                if (b < nblk - 1 || !want_final)
                        VASSERT(last == 0, "BFINAL clear on a block that is not the last of the stream");
                /* the last data block may carry BFINAL itself or (when its header was written before
                 * end_of_stream was announced) be followed by one empty final block, see below */
                final_seen = last;
                if (type == 0) {
                        s.pos = (s.pos + 7) & ~(size_t) 7;
                        VASSERT(s.pos + 32 <= s.in_bits, "stored block LEN/NLEN inside the output");
                        uint32_t len = rfc_bits(&s, 16);
                        uint32_t nlen = rfc_bits(&s, 16);
                        VASSERT(len == (~nlen & 0xffff), "stored block NLEN == ~LEN");
                        VASSERT(len == blk[b].nlit, "STRUCT: stored block length as expected");
                        len = blk[b].nlit;
                        VASSERT(s.pos + 8 * (size_t) len <= s.in_bits, "stored payload inside the output");
                        for (uint32_t i = 0; i < len; i++)
                                VASSERT(in[(s.pos >> 3) + i] == exp[idx + i], "stored payload byte equals input byte");
                        idx += len;
                        s.pos += 8 * (size_t) len;
                } else {
                        for (int i = 0; i < blk[b].nlit; i++) {
                                size_t p0 = s.pos;
                                int sym = rfc_fixed_litlen(&s);
                                VASSERT(!s.eof && sym >= 0, "fixed-Huffman symbol inside the output");
                                VASSERT(sym < 256, "STRUCT: literal token expected");
                                VASSERT(sym == exp[idx], "decoded literal equals input byte");
                                if (tok < ntoklen && toklen[tok]) {
                                        VASSERT(s.pos == p0 + toklen[tok], "literal code length as in the class vector");
                                        s.pos = p0 + toklen[tok];
                                }
                                tok++;
                                idx++;
                        }
                        size_t p0 = s.pos;
                        int sym = rfc_fixed_litlen(&s);
                        VASSERT(!s.eof && sym == 256, "end-of-block symbol after the block's literals");
                        s.pos = p0 + 7; /* 256 is 0000000 (7 bits) in the fixed code; same value when the assertion holds */
                }
        }
        if (want_final && !final_seen) {
                /* igzip.c write_trailer: "If the final header has not been written, write a final block. This
                 * block is a static huffman block which only contains the end of block symbol" */
                int last = (int) rfc_bits(&s, 1);
                int type = (int) rfc_bits(&s, 2);
                VASSERT(!s.eof && last == 1, "a finished stream ends with a BFINAL block");
                VASSERT(type == 1, "STRUCT: the extra final block is an empty fixed-Huffman block");
                size_t p0 = s.pos;
                int sym = rfc_fixed_litlen(&s);
                VASSERT(!s.eof && sym == 256, "the extra final block contains only the end-of-block symbol");
                s.pos = p0 + 7;
                final_seen = 1;
        }
        g->bit_pos = s.pos;
        g->out_len = idx;
        g->saw_final = final_seen;
}

/* wrapper header checks shared by exact and guided stream checks; returns header length */
static inline int
dfl_check_wrap_header(const uint8_t *out, size_t total, int gzip_flag, int effective_hist_bits)
{
        int hl = 0;
        if (gzip_flag == IGZIP_GZIP) {
                hl = rfc1952_header_len(out, total);
                VASSERT(hl >= 10, "gzip member header well-formed per RFC 1952");
        } else if (gzip_flag == IGZIP_ZLIB) {
                int cinfo = 0, fdict = 0;
                hl = rfc1950_header_len(out, total, &cinfo, &fdict);
                VASSERT(hl >= 2, "zlib header well-formed per RFC 1950 (CM, CINFO, FCHECK)");
                VASSERT(fdict == 0, "zlib FDICT clear (no dictionary was set)");
                VASSERT(cinfo + 8 >= effective_hist_bits, "zlib CINFO window covers the window the encoder may use");
        }
        return hl;
}

static inline void
dfl_check_trailer(const uint8_t *out, size_t total, int gzip_flag, uint8_t *in, size_t n)
{
        size_t tl = dfl_wrap_trl_len(gzip_flag);
        size_t dend = total - tl;
        if (tl == 8) {
                uint32_t crc = crc32_gzip_refl_base(0, in, n);
                uint32_t got_crc = (uint32_t) out[dend] | ((uint32_t) out[dend + 1] << 8) |
                                   ((uint32_t) out[dend + 2] << 16) | ((uint32_t) out[dend + 3] << 24);
                uint32_t got_isz = (uint32_t) out[dend + 4] | ((uint32_t) out[dend + 5] << 8) |
                                   ((uint32_t) out[dend + 6] << 16) | ((uint32_t) out[dend + 7] << 24);
                VASSERT(got_crc == crc, "gzip trailer CRC-32 (little endian) of the input");
                VASSERT(got_isz == (uint32_t) n, "gzip trailer ISIZE (little endian) == n mod 2^32");
        } else if (tl == 4) {
                uint32_t ad = spec_adler32(in, n);
                uint32_t got = ((uint32_t) out[dend] << 24) | ((uint32_t) out[dend + 1] << 16) |
                               ((uint32_t) out[dend + 2] << 8) | (uint32_t) out[dend + 3];
                VASSERT(got == ad, "zlib trailer Adler-32 (big endian) of the input");
        }
}

/* complete stream, guided form of dfl_check_stream */
static inline void
dfl_check_stream_guided(const uint8_t *out, size_t total, int gzip_flag, uint8_t *in, size_t n,
                        const struct dfl_blk *blk, int nblk, const uint8_t *toklen, int ntoklen,
                        int effective_hist_bits)
{
        int hl = dfl_check_wrap_header(out, total, gzip_flag, effective_hist_bits);
        size_t tl = dfl_wrap_trl_len(gzip_flag);
        VASSERT((size_t) hl + tl <= total, "room for header and trailer");
        struct dfl_guided g;
        dfl_guided_decode(out + hl, total - (size_t) hl, 0, blk, nblk, in, toklen, ntoklen, 1, &g);
        VASSERT(g.out_len == n, "decoded length equals input length");
        VASSERT((size_t) hl + ((g.bit_pos + 7) >> 3) + tl == total,
                "stream consumed to its last byte (deflate end rounded up + trailer == total_out)");
        dfl_check_trailer(out, total, gzip_flag, in, n);
}

/* one-shot bound of the property text: n + 5 per started 65535-byte block (min one) + wrapper */
static inline uint64_t
dfl_stateless_bound(uint64_t n, int gzip_flag)
{
        uint64_t blocks = n == 0 ? 1 : (n + 65534) / 65535;
        return n + 5 * blocks + dfl_wrap_hdr_len(gzip_flag) + dfl_wrap_trl_len(gzip_flag);
}

#endif
