/* Shared pieces of the igzip compression harnesses (C01, C07, C10, C14).
 *
 *  - libc stub CBMC lacks: wmemset (3-line loop, same semantics as the libc one)
 *  - RFC 1952 / RFC 1950 header parsers and trailer predicates written from the RFCs
 *    (independent of ISA-L's header writers/readers)
 *  - Adler-32 per RFC 1950 (2 sums mod 65521), written for the harness
 *  - dfl_check_stream(): header + rfc1951 reference decoder + "consumed to the last byte" + trailer
 *
 * The portable-C library configuration links igzip.c, igzip_base.c, igzip_base_aliases.c,
 * hufftables_c.c, crc_base.c, crc_base_aliases.c, adler32_base.c.  Level 0 never reaches the
 * level 1-3 (icf) or inflate entry points that igzip_base_aliases.c forwards to; under CBMC they
 * stay body-less (unreachable, level is concrete 0 or assumed invalid), for the native replay
 * build they are defined as abort() below so that reaching one would be loud.
 */
#ifndef DEFLATE_COMMON_H
#define DEFLATE_COMMON_H
#include "verif.h"
#include <stdlib.h>
#include <wchar.h>
#include "igzip_lib.h"
#include "crc.h"
#ifndef RFC_MAXBLOCKS
#define RFC_MAXBLOCKS 4
#endif
#include "rfc1951.h"

uint32_t
crc32_gzip_refl_base(uint32_t seed, uint8_t *buf, uint64_t len);

#ifndef REPLAY
/* CBMC has no model of wmemset; libc semantics */
wchar_t *
wmemset(wchar_t *s, wchar_t c, size_t n)
{
        for (size_t i = 0; i < n; i++)
                s[i] = c;
        return s;
}
#endif

#if defined(REPLAY) && !defined(DFL_NO_LINK_STUBS)
/* Never reached at level 0 (see header comment).  Only needed to link natively without the
 * level 1-3 / inflate units. */
#define DFL_UNREACHED(name)                                                                                            \
        void name(void)                                                                                                \
        {                                                                                                              \
                printf("REPLAY: reached level>0 function %s\n", #name);                                                \
                abort();                                                                                               \
        }
DFL_UNREACHED(isal_deflate_icf_body_hash_hist_base)
DFL_UNREACHED(icf_body_hash1_fillgreedy_lazy)
DFL_UNREACHED(isal_deflate_icf_finish_hash_hist_base)
DFL_UNREACHED(isal_deflate_icf_finish_hash_map_base)
DFL_UNREACHED(isal_update_histogram_base)
DFL_UNREACHED(encode_deflate_icf_base)
DFL_UNREACHED(decode_huffman_code_block_stateless_base)
DFL_UNREACHED(set_long_icf_fg_base)
DFL_UNREACHED(gen_icf_map_h1_base)
DFL_UNREACHED(isal_create_hufftables)
DFL_UNREACHED(isal_create_hufftables_subset)
DFL_UNREACHED(create_hufftables_icf)
DFL_UNREACHED(isal_deflate_icf_body)
#endif

/* ---------------------------------------------------------------- wrapper layouts (from the RFCs) */

static inline uint32_t
dfl_wrap_hdr_len(int gzip_flag)
{
        return gzip_flag == IGZIP_GZIP ? 10 : gzip_flag == IGZIP_ZLIB ? 2 : 0;
}

static inline uint32_t
dfl_wrap_trl_len(int gzip_flag)
{
        return (gzip_flag == IGZIP_GZIP || gzip_flag == IGZIP_GZIP_NO_HDR)   ? 8
               : (gzip_flag == IGZIP_ZLIB || gzip_flag == IGZIP_ZLIB_NO_HDR) ? 4
                                                                             : 0;
}

/* RFC 1952 2.3 member header: returns its length, or -1 if malformed / not complete in len bytes */
static inline int
rfc1952_header_len(const uint8_t *b, size_t len)
{
        size_t p = 10;
        if (len < 10)
                return -1;
        if (b[0] != 0x1f || b[1] != 0x8b) /* ID1 ID2 */
                return -1;
        if (b[2] != 8) /* CM = deflate */
                return -1;
        uint8_t flg = b[3];
        if (flg & 0xE0) /* reserved bits must be zero */
                return -1;
        if (flg & 4) { /* FEXTRA */
                if (p + 2 > len)
                        return -1;
                p += 2 + (size_t) (b[p] | (b[p + 1] << 8));
                if (p > len)
                        return -1;
        }
        for (int k = 0; k < 2; k++) /* FNAME, FCOMMENT: NUL terminated */
                if (flg & (k == 0 ? 8 : 16)) {
                        for (;;) {
                                if (p >= len)
                                        return -1;
                                if (b[p++] == 0)
                                        break;
                        }
                }
        if (flg & 2) { /* FHCRC */
                p += 2;
                if (p > len)
                        return -1;
        }
        return (int) p;
}

/* RFC 1950 2.2: CMF FLG [DICTID]; returns header length or -1; *cinfo, *fdict reported */
static inline int
rfc1950_header_len(const uint8_t *b, size_t len, int *cinfo, int *fdict)
{
        if (len < 2)
                return -1;
        if ((b[0] & 0x0f) != 8) /* CM */
                return -1;
        *cinfo = b[0] >> 4;
        if (*cinfo > 7)
                return -1;
        if ((((unsigned) b[0] << 8) | b[1]) % 31 != 0) /* FCHECK */
                return -1;
        *fdict = (b[1] >> 5) & 1;
        if (*fdict)
                return len >= 6 ? 6 : -1;
        return 2;
}

/* RFC 1950 8.2 */
static inline uint32_t
spec_adler32(const uint8_t *d, size_t n)
{
        uint32_t s1 = 1, s2 = 0;
        for (size_t i = 0; i < n; i++) {
                s1 = (s1 + d[i]) % 65521u;
                s2 = (s2 + s1) % 65521u;
        }
        return (s2 << 16) | s1;
}

/* ---------------------------------------------------------------- stream oracle
 * out[0..total) is claimed to be a complete stream of wrapper `gzip_flag` for in[0..n).
 * `dec` has capacity n (a decoder producing more reports RFC_OUTFULL). `effective_hist_bits`
 * is the window the encoder was allowed (for the zlib CINFO check). */
#define DFL_MSG(m) m
static inline void
dfl_check_stream(const uint8_t *out, size_t total, int gzip_flag, uint8_t *in, size_t n, uint8_t *dec,
                 int effective_hist_bits)
{
        int hl = 0;
        if (gzip_flag == IGZIP_GZIP) {
                hl = rfc1952_header_len(out, total);
                VASSERT(hl >= 10, "gzip member header well-formed per RFC 1952");
        } else if (gzip_flag == IGZIP_ZLIB) {
                int cinfo = 0, fdict = 0;
                hl = rfc1950_header_len(out, total, &cinfo, &fdict);
                VASSERT(hl >= 2, "zlib header well-formed per RFC 1950 (CM, CINFO, FCHECK)");
                VASSERT(fdict == 0, "zlib FDICT clear (no dictionary was set)");
                VASSERT(cinfo + 8 >= effective_hist_bits, "zlib CINFO window covers the window the encoder may use");
        }
        size_t tl = dfl_wrap_trl_len(gzip_flag);
        VASSERT((size_t) hl + tl <= total, "room for header and trailer");
        struct rfc_res r;
        rfc1951_inflate(out + hl, total - (size_t) hl, 0, dec, n, (const uint8_t *) 0, 0, &r);
        VASSERT(r.status == RFC_OK, "reference RFC 1951 decoder accepts the deflate data up to a BFINAL block");
        VASSERT(r.out_len == n, "decoded length equals input length");
        for (size_t i = 0; i < n; i++)
                VASSERT(dec[i] == in[i], "decoded bytes equal input bytes");
        size_t dend = (size_t) hl + ((r.bit_pos + 7) >> 3);
        VASSERT(dend + tl == total, "stream consumed to its last byte (deflate end rounded up + trailer == total_out)");
        if (tl == 8) {
                uint32_t crc = crc32_gzip_refl_base(0, in, n);
                uint32_t got_crc = (uint32_t) out[dend] | ((uint32_t) out[dend + 1] << 8) |
                                   ((uint32_t) out[dend + 2] << 16) | ((uint32_t) out[dend + 3] << 24);
                uint32_t got_isz = (uint32_t) out[dend + 4] | ((uint32_t) out[dend + 5] << 8) |
                                   ((uint32_t) out[dend + 6] << 16) | ((uint32_t) out[dend + 7] << 24);
                VASSERT(got_crc == crc, "gzip trailer CRC-32 (little endian) of the input");
                VASSERT(got_isz == (uint32_t) n, "gzip trailer ISIZE (little endian) == n mod 2^32");
        } else if (tl == 4) {
                uint32_t ad = spec_adler32(in, n);
                uint32_t got = ((uint32_t) out[dend] << 24) | ((uint32_t) out[dend + 1] << 16) |
                               ((uint32_t) out[dend + 2] << 8) | (uint32_t) out[dend + 3];
                VASSERT(got == ad, "zlib trailer Adler-32 (big endian) of the input");
        }
}

/* one-shot bound of the property text: n + 5 per started 65535-byte block (min one) + wrapper */
static inline uint64_t
dfl_stateless_bound(uint64_t n, int gzip_flag)
{
        uint64_t blocks = n == 0 ? 1 : (n + 65534) / 65535;
        return n + 5 * blocks + dfl_wrap_hdr_len(gzip_flag) + dfl_wrap_trl_len(gzip_flag);
}

#endif
