/* Level 1-3 / inflate entry points that igzip_base_aliases.c and igzip.c reference but level 0 never
 * reaches.  Linked instead of igzip_icf_base.c, igzip_icf_body.c, encode_df.c, huff_codes.c,
 * igzip_inflate.c (each costs ~15 s of goto-cc per run and pulls further units).  Reaching one in the native
 * replay prints ASSERT-FAIL and exits 1. */
#ifdef REPLAY
#include <stdio.h>
#include <stdlib.h>
#define DFL_UNREACHED(name)                                                                                            \
        void name(void)                                                                                                \
        {                                                                                                              \
                printf("ASSERT-FAIL: reached level>0 function %s\n", #name);                                           \
                exit(1);                                                                                               \
        }
DFL_UNREACHED(isal_deflate_icf_body_hash_hist_base)
DFL_UNREACHED(icf_body_hash1_fillgreedy_lazy)
DFL_UNREACHED(isal_deflate_icf_finish_hash_hist_base)
DFL_UNREACHED(isal_deflate_icf_finish_hash_map_base)
DFL_UNREACHED(isal_update_histogram_base)
DFL_UNREACHED(encode_deflate_icf_base)
DFL_UNREACHED(decode_huffman_code_block_stateless_base)
DFL_UNREACHED(set_long_icf_fg_base)
DFL_UNREACHED(gen_icf_map_h1_base)
DFL_UNREACHED(create_hufftables_icf)
DFL_UNREACHED(isal_deflate_icf_body)
#else
/* CBMC: the functions stay body-less; they are unreachable because level is concrete 0 (or assumed
 * invalid) in every harness; goto-cc rejects definitions whose type differs from the declarations */
int dfl_link_stubs_unused;
#endif
