/* One-call compression harness shared by C01 (lossless + RFC conformant) and C10(a) (output-space
 * contract), level 0, portable-C kernels.
 *
 * Concrete per query (-D):
 *   N          input length (all N bytes symbolic)
 *   API        0 = isal_deflate_stateless, 1 = one isal_deflate call with end_of_stream = 1
 *   WRAP       gzip_flag 0..4            FLUSH  0..2          TABLE 0 default / 1 static
 *   AVAIL_OUT  size of the (exact-size) output object          HIST_BITS   EOS (stateless+FULL_FLUSH)
 *   EXPECT_OK  1: the call must succeed (avail_out >= documented bound); 0: overflow allowed
 *   ORACLE     0 exact (whole rfc1951.h decoder), 1 guided (see deflate_common.h)
 *   DFL_CLASSES / DFL_CLASS_SET / DFL_TOKLENS   code-length class vector (see deflate_shim.h)
 */
#include "harness/deflate_common/deflate_common.h"
#include "harness/deflate_common/deflate_shim.h"

#ifndef N
#error N
#endif
#ifndef HIST_BITS
#define HIST_BITS 0
#endif
#ifndef EOS
#define EOS 0
#endif
#ifndef EXPECT_OK
#define EXPECT_OK 1
#endif
#ifndef ORACLE
#define ORACLE 1
#endif
#ifndef DFL_TOKLENS
#define DFL_TOKLENS 0
#endif

struct inputs {
        uint8_t data[N ? N : 1];
};
DECLARE_INPUTS

static const uint8_t toklens[] = { DFL_TOKLENS, 0 };

void
harness(void)
{
        VERIF_INPUTS();
        /* exact-size heap objects: any access outside [0,N) / [0,AVAIL_OUT) is a CBMC bounds failure
         * (ASan failure in the native replay) */
        uint8_t *in = malloc(N ? N : 1);
        uint8_t *out = malloc(AVAIL_OUT ? AVAIL_OUT : 1);
        uint8_t *dec = malloc(N ? N : 1);
        struct isal_zstream *s = malloc(sizeof(*s));
        if (!in || !out || !dec || !s)
                return;
        for (int i = 0; i < N; i++)
                in[i] = I.data[i];

        int ret;
#if API == 0
        isal_deflate_stateless_init(s);
#else
        isal_deflate_init(s);
#endif
#if TABLE == 1
        ret = isal_deflate_set_hufftables(s, (struct isal_hufftables *) 0, IGZIP_HUFFTABLE_STATIC);
        VASSERT(ret == COMP_OK, "set_hufftables(STATIC) accepted on a fresh stream");
#endif
        s->level = 0;
        s->gzip_flag = WRAP;
        s->flush = FLUSH;
        s->hist_bits = HIST_BITS;
        s->next_in = in;
        s->avail_in = N;
        s->next_out = out;
        s->avail_out = AVAIL_OUT;

#if API == 0
        s->end_of_stream = EOS;
        ret = isal_deflate_stateless(s);
        int complete = (FLUSH == NO_FLUSH) || EOS;
        VASSERT(ret == COMP_OK || ret == STATELESS_OVERFLOW, "return value is COMP_OK or STATELESS_OVERFLOW for valid parameters");
#if EXPECT_OK
        VASSERT(ret == COMP_OK, "isal_deflate_stateless returns COMP_OK when avail_out >= n + 5*blocks + wrapper");
#endif
#else
        s->end_of_stream = 1;
        ret = isal_deflate(s);
        int complete = 1;
        VASSERT(ret == COMP_OK, "isal_deflate returns COMP_OK");
#if EXPECT_OK
        /* usage contract of the documented call loop (do { isal_deflate } while (avail_out == 0)): a call
         * that returns with output space left has nothing pending */
        VASSERT(s->avail_out == 0 || s->internal_state.state == ZSTATE_END,
                "end_of_stream call that leaves output space has finished the stream");
        VASSERT(s->internal_state.state == ZSTATE_END, "ample output space: one call finishes the stream");
#endif
#endif
        /* counters: C10 "total_in/total_out and the advance of next_in/next_out equal the bytes consumed/produced" */
        VASSERT(s->total_out <= AVAIL_OUT, "total_out never exceeds avail_out");
        VASSERT(s->avail_out == AVAIL_OUT - s->total_out && s->next_out == out + s->total_out, "output counters consistent");
        VASSERT(s->total_in <= N && s->avail_in == N - s->total_in && s->next_in == in + s->total_in, "input counters consistent");

        int eff_hist = (HIST_BITS == 0 || HIST_BITS > 15) ? 15 : HIST_BITS;
        if (ret == COMP_OK && (API == 0 || s->internal_state.state == ZSTATE_END)) {
                size_t total = s->total_out;
                VASSERT(s->avail_in == 0 && s->total_in == N, "success: all input consumed");
#if API == 0
                VASSERT(total <= dfl_stateless_bound(N, WRAP), "one-shot output never larger than n + 5*blocks + wrapper");
#endif
                size_t hl = dfl_wrap_hdr_len(WRAP);
                VASSERT(total > hl, "room for header and at least one block");
                if (complete)
                        VASSERT(s->internal_state.state == ZSTATE_END, "final state ZSTATE_END");
                else
                        VASSERT(s->internal_state.state == ZSTATE_NEW_HDR, "state ZSTATE_NEW_HDR after stateless full flush");
                /* BTYPE of the first block selects the script; for a stored / dynamic first block this byte is
                 * concrete in the symbolic execution, for a fixed-Huffman block both scripts are explored */
                int first_type = (out[hl] >> 1) & 3;
                struct dfl_blk script[2];
                int nblk = 1;
                int use_exact = (ORACLE == 0);
                if (first_type == 0) {
                        script[0].btype = 0;
                        script[0].nlit = N;
                } else if (TABLE == 1) { /* static table: fixed-Huffman block (asserted by the guided decoder) */
                        script[0].btype = 1;
                        script[0].nlit = N;
                        if (!complete) { /* full flush: empty stored block follows */
                                script[1].btype = 0;
                                script[1].nlit = 0;
                                nblk = 2;
                        }
                } else /* default table: dynamic block, only the exact oracle can parse its header */
                        use_exact = 1;
                if (complete && !use_exact) {
                        dfl_check_stream_guided(out, total, WRAP, in, N, script, nblk, toklens, sizeof(toklens) - 1, eff_hist);
                } else if (complete) {
                        dfl_check_stream(out, total, WRAP, in, N, dec, eff_hist);
                } else {
                        /* stateless FULL_FLUSH without end_of_stream: wrapper header (if any) + unterminated,
                         * byte-aligned deflate data, no trailer (C14 checks appendability) */
                        int h2 = dfl_check_wrap_header(out, total, WRAP, eff_hist);
                        VASSERT(h2 == (int) hl, "header length");
                        if (!use_exact) {
                                struct dfl_guided g;
                                dfl_guided_decode(out + hl, total - hl, 0, script, nblk, in, toklens, sizeof(toklens) - 1, 0, &g);
                                VASSERT(g.out_len == N, "decoded length equals input length");
                                VASSERT(g.bit_pos == 8 * (total - hl), "output ends byte aligned exactly at the block boundary");
                        } else {
                                struct rfc_res r;
                                rfc1951_inflate(out + hl, total - hl, 0, dec, N, (const uint8_t *) 0, 0, &r);
                                VASSERT(r.status == RFC_BOUNDARY && !r.saw_final, "decoder: block boundary, no BFINAL");
                                VASSERT(r.out_len == N, "decoded length equals input length");
                                for (int i = 0; i < N; i++)
                                        VASSERT(dec[i] == in[i], "decoded bytes equal input bytes");
                                VASSERT(r.bit_pos == 8 * (total - hl), "output ends byte aligned exactly at the block boundary");
                        }
                }
        }
        VREACHED();
}
VERIF_MAIN
