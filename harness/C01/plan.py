"""C01 — level-0 compression (portable-C kernels) is lossless and RFC 1951/1950/1952 conformant.

Families
  SL   isal_deflate_stateless, one call
  ST   isal_deflate, one call with end_of_stream=1 and ample output space
  (the table lemma of DESIGN C01 is not built: literal codes of the static table are exercised through the
   guided decoder for all 256 values per position; length/distance tables and the default table's literal
   codes are not decided)
Query id: <fam>/<table>/n<N>/<wrap>/f<flush>[e<eos>]/a<avail_out>[/h<hist_bits>]/<class vector>[/exact]
"""
from vlib.core import Query, Plan
from harness.deflate_common import dflplan as D

H = D.ONESHOT


def _q(fam, api, table, n, wrap, flush, eos, avail, cls, tier, exact=False, hist=0, core=False, witness=False,
       expect_ok=1, weight=None, timeout=None):
    tag, classes, toklens, feasible = cls
    dynamic = (table == 0 and api == 1)
    if dynamic:
        exact = True
    hdef = ["N=%d" % n, "API=%d" % api, "WRAP=%d" % wrap, "FLUSH=%d" % flush, "EOS=%d" % eos, "TABLE=%d" % table,
            "AVAIL_OUT=%d" % avail, "HIST_BITS=%d" % hist, "EXPECT_OK=%d" % expect_ok, "ORACLE=%d" % (0 if exact else 1),
            "RFC_MAXBLOCKS=%d" % (3 if (flush and not eos and api == 0) else 1),
            D.cdef("DFL_CLASSES", classes), D.cdef("DFL_TOKLENS", toklens),
            D.cdef("DFL_CLASS_SET", D.STATIC_LIT_CLASSES if table == 1 else DEFAULT_CLASSES)]
    qid = "%s/%s/n%d/%s/f%d%s/a%d%s/%s%s" % (fam, "static" if table else "default", n, D.WRAPS[wrap], flush,
                                             ("e%d" % eos) if api == 0 and flush else "", avail,
                                             ("/h%d" % hist) if hist else "", tag, "/exact" if exact and not dynamic else "")
    params = dict(harness=H, units=D.UNITS, vunits=D.VUNITS, hdefines=hdef, unwind=3,
                  unwindset=D.unwindset(n, exact=exact, dynamic=dynamic, avail=avail, nblk=(3 if (flush and not eos and api == 0) else 2)), witness=bool(witness and feasible),
                  flags=D.fs_flags(avail))
    # n = 4: compute_hash stays the real function (CBMC 6.11 reports "no body for callee" as a failed property, so
    # goto-instrument --remove-function-body cannot be used); the first position can never match (hash heads are
    # initialised to the current position => distance 0), so the match path is pruned concretely
    if timeout:
        params["timeout"] = timeout
    w = weight if weight is not None else (10.0 if (table == 1 or api == 1) else 1.0) * (4.0 if exact else 1.0)
    return Query(qid, D.R, params, core=core, family=fam + ("/static" if table else "/default"), weight=w,
                 nontrivial=feasible)


DEFAULT_CLASSES = list(range(1, 16))


CR_UNITS = ["igzip/igzip.c", "igzip/igzip_base.c", "igzip/igzip_base_aliases.c", "igzip/hufftables_c.c",
            "crc/crc_base.c", "crc/crc64_base.c", "crc/crc_base_aliases.c", "igzip/adler32_base.c"]


def construn(n, wrap, av, rep, flushmode=0, core=False, witness=False):
    b = D.bound(n, wrap)
    hd = ["N=%d" % n, "WRAP=%d" % wrap, "AVAIL_OUT=%d" % av, "REP=%d" % rep] + (["FLUSHMODE=1"] if flushmode else [])
    return Query("CONSTRUN%s/n%d/%s/av%d/rep%02x" % ("-FF" if flushmode else "", n, D.WRAPS[wrap], av, rep), D.R,
                 dict(harness="harness/C01/h_construn.c", units=CR_UNITS, vunits=D.VUNITS,
                      defines=["_X86INTRIN_H_INCLUDED=1", "_IMMINTRIN_H_INCLUDED=1"], hdefines=hd,
                      unwindset=D.unwindset(n, exact=True, dynamic=True, nblk=(4 if flushmode else 2), avail=av,
                                            extra={"harness.0": n + 2, "harness.1": n + 2, "rfc_codes.0": n + 6, "rfc_codes.1": 260,
                                                   "rfc_dynamic.0": 340, "rfc_dynamic.1": 340, "rfc_dynamic.2": 340, "rfc_dynamic.3": 340,
                                                   "write_constant_compressed_stateless.0": 30, "write_constant_compressed_stateless.1": 30,
                                                   "write_constant_compressed_stateless.2": 12, "detect_repeated_char_length.0": n // 8 + 3,
                                                   "detect_repeated_char_length.1": 10, "adler32_base.2": n + 2, "crc32_gzip_refl_base.0": n + 2,
                                                   "wmemset.0": 2100}),
                      unwind=n + 8, flags=D.fs_flags(max(av, 400)), witness=witness, timeout=300),
                 core=core, family="CONSTRUN", weight=n / 10.0)


def plan(tier, ctx):
    global DEFAULT_CLASSES
    DEFAULT_CLASSES = D.default_lit_classes(ctx.repo)
    quick = tier == "quick"
    qs = []
    ns = [0, 1, 2, 3]
    allw = [0, 1, 2, 3, 4]

    def vecs(n, classes, other):
        return D.class_vectors(n, classes, with_other=other)

    # ---------------------------------------------------------------- stateless, static table (fixed Huffman or stored fallback)
    for n in ns + ([] if quick else [4]):
        for wrap in allw:
            b = D.bound(n, wrap)
            for (flush, eos) in [(0, 0), (2, 0)] + ([] if quick else [(2, 1)]):
                if quick and flush == 2 and wrap in (2, 4):
                    continue
                avs = [64]
                if not quick or (wrap in (0, 1) and flush == 0):
                    avs = [b, b + 8, 64]
                for av in avs:
                    base = (wrap == 0 and flush == 0 and av == 64)
                    for cls in vecs(n, D.STATIC_LIT_CLASSES, other=base):
                        if n == 4 and not (flush == 0 and av == 64 and wrap in (0, 1)):
                            continue
                        if quick and n == 3 and not (flush == 0 and av == 64 and wrap in (0, 1)):
                            continue
                        core = (n == 2 and wrap == 1 and flush == 0 and av == 64 and cls[1] == [8, 9])
                        qs.append(_q("SL", 0, 1, n, wrap, flush, eos, av, cls, tier, core=core, witness=core or (n == 3 and cls[1] == [9, 8, 9])))
    # exact-oracle cross-check of the guided decoder (same configurations, whole rfc1951.h decoder)
    for (n, wrap, flush, cl) in [(1, 0, 0, [9]), (1, 1, 0, [8]), (1, 3, 2, [9])] + ([] if quick else [(2, 1, 0, [8, 9]), (2, 3, 2, [9, 9]), (3, 1, 0, [8, 9, 8]), (3, 4, 0, [9, 9, 9]), (3, 0, 2, [8, 8, 9])]):
        cls = ("c" + "".join("%x" % c for c in cl), cl, cl, True)
        qs.append(_q("SL", 0, 1, n, wrap, flush, 0, 64, cls, tier, exact=True, witness=True, timeout=(None if quick else 1200)))

    # ---------------------------------------------------------------- stateless, default table (stored fallback for these sizes)
    nocls = ("c-", [], [], True)
    for n in ns + ([] if quick else [4, 5, 6]):
        for wrap in allw:
            b = D.bound(n, wrap)
            for (flush, eos) in [(0, 0), (2, 0)] + ([] if quick else [(2, 1)]):
                for av in [b, b + 8, 64]:
                    core = (n == 3 and wrap == 1 and flush == 0 and av == b)
                    qs.append(_q("SL", 0, 0, n, wrap, flush, eos, av, nocls, tier, core=core, witness=core or (n == 2 and wrap == 3)))
    # hist_bits (zlib CINFO): 9 and 15
    for hb in ([9] if quick else [9, 15]):
        for n in (0, 2):
            qs.append(_q("SL", 0, 0, n, 3, 0, 0, 64, nocls, tier, hist=hb))
            for cls in vecs(n, D.STATIC_LIT_CLASSES, other=False):
                qs.append(_q("SL", 0, 1, n, 3, 0, 0, 64, cls, tier, hist=hb))

    # ---------------------------------------------------------------- streaming API, one call, static table
    for n in ns + ([] if quick else [4]):
        for wrap in allw:
            for flush in (0, 1, 2):
                if quick and flush and wrap not in (0, 1):
                    continue
                if n == 4 and not (flush == 0 and wrap in (0, 1)):
                    continue
                base = (wrap == 0 and flush == 0)
                if quick and n == 3 and not (flush == 0 and wrap in (0, 1)):
                    continue
                for cls in vecs(n, D.STATIC_LIT_CLASSES, other=base):
                    core = (n == 2 and wrap == 1 and flush == 0 and cls[1] == [9, 8])
                    qs.append(_q("ST", 1, 1, n, wrap, flush, 0, 64, cls, tier, core=core, witness=core or (n == 3 and cls[1] == [8, 8, 9])))
    for (n, wrap, flush, cl) in [(1, 1, 0, [9])] + ([] if quick else [(2, 1, 0, [8, 9]), (3, 3, 1, [9, 8, 8])]):
        cls = ("c" + "".join("%x" % c for c in cl), cl, cl, True)
        qs.append(_q("ST", 1, 1, n, wrap, flush, 0, 64, cls, tier, exact=True, witness=True, timeout=(None if quick else 1200)))

    # ---------------------------------------------------------------- streaming API, one call, default table (dynamic block, exact oracle)
    # n >= 1 is not decided with the exact oracle: the last 6 header bits share a byte with the first
    # (symbolic) literal code, the header parse of rfc_dynamic becomes symbolic and explodes (measured: no
    # verdict in 1200 s at n = 1).  n = 0: the whole dynamic header + EOB + trailer, all wrappers.
    for wrap in allw:
        for flush in ((0,) if quick else (0, 1, 2)):
            qs.append(_q("ST", 1, 0, 0, wrap, flush, 0, 256, nocls, tier, core=(wrap == 1 and flush == 0), witness=(wrap in (1, 3)), weight=60, timeout=(450 if quick else None)))

    # ---------------------------------------------------------------- constant-run shortcut of the stateless API (lead)
    # write_constant_compressed_stateless: whole input = N >= 8 bytes of 0x00 / 0xFF (run value symbolic)
    # N-1 mod 258 selects the shape of the tail: <= 115 (code10s + literals), 116..130 (one code280), 131..229 (code10s then one
    # code280), >= 230 (two code280s): every boundary on both sides
    edge = [117, 131, 132, 230, 231, 232, 258]
    for n in ([8, 9, 20, 300] if quick else [8, 9, 10, 19, 20, 125, 259, 300]):   # n = 600: no verdict within 300 s under load (50 of 56 queries)
        for wrap in ([0, 1, 3] if quick else allw):
            b = D.bound(n, wrap)
            avs = sorted(set([0, 8, 16, 24] + list(range(max(0, b - 34), b + 10))) if n <= 20 else [b - 200, 30, 40, 50, 60, b, b + 9])
            if quick and n > 9:
                avs = avs[::3] + [b]
            for av, rep in [(a, r) for a in sorted(set(a for a in avs if a >= 0)) for r in (0, 255)]:
                qs.append(construn(n, wrap, av, rep, core=(n == 8 and av == b and rep == 255), witness=(n == 8 and av == b and rep == 255)))
    for n in edge:
        for wrap in ([0, 3] if quick else allw):
            b = D.bound(n, wrap)
            for av in ([b] if quick else [40, b - 1, b, b + 9]):
                for rep in (0, 255):
                    qs.append(construn(n, wrap, av, rep))
    # FULL_FLUSH with end_of_stream = 0 (C14 one-shot clause) through the same shortcut
    for n in ([8, 40, 231] if quick else [8, 9, 40, 117, 131, 231, 258, 300]):
        for wrap in ([0, 1] if quick else [0, 1, 3]):
            b = D.bound(n, wrap)
            for rep in (0, 255):
                qs.append(construn(n, wrap, b + 16, rep, flushmode=1, witness=(n == 40 and wrap == 0 and rep == 0)))
    return Plan("C01", "model_checking", qs,
                functions_encoded=["isal_deflate_stateless", "isal_deflate (single call, end_of_stream=1)", "isal_deflate_init",
                                   "isal_deflate_stateless_init", "isal_deflate_set_hufftables", "isal_deflate_int_stateless",
                                   "isal_deflate_int", "isal_deflate_pass", "write_header", "write_stream_header(_stateless)",
                                   "write_deflate_header_stateless", "write_stored_block", "write_type0_header", "sync_flush",
                                   "write_trailer", "update_checksum", "isal_adler32_bam1", "reset_match_history",
                                   "isal_deflate_body_base", "isal_deflate_finish_base", "bitbuf2.h", "huffman.h get_lit_code",
                                   "hufftables_default/hufftables_static (lit tables, deflate_hdr)", "crc32_gzip_refl_base", "adler32_base"],
                bounds={"n": "0..3 quick, 0..4 thorough (static table) / 0..6 thorough (default table, stored path); all 2^(8n) contents symbolic",
                        "level": 0, "wrappers": list(D.WRAPS.values()),
                        "flush": "stateless NO_FLUSH, FULL_FLUSH(end_of_stream 0 [1 thorough]); streaming NO/SYNC/FULL with end_of_stream=1",
                        "tables": ["default", "static"], "avail_out": "bound, bound+8, 64 (stateless); 64 / 256 (streaming)",
                        "hist_bits": "0, 9 (15 thorough) on zlib",
                        "code_length_classes": "static {8,9}; default %s; all vectors swept + OTHER queries proving the set complete" % DEFAULT_CLASSES,
                        "calls": "exactly one API call per query"},
                stubs=["wmemset: 3-line loop (CBMC has no model)",
                       "get_lit_code calls for data literals in the igzip_base.c translation unit routed (preprocessor only) through a wrapper that calls the "
                       "repo's get_lit_code and then assumes len == class (deflate_shim.h): a case split over code lengths, proved complete by the OTHER queries",
                       
                       "x86 intrinsic headers skipped when compiling igzip_base.c for CBMC (no intrinsic is used)"],
                assumptions=["guided oracle: block types / literal-only tokens implied by the table choice are asserted (STRUCT messages); "
                             "cross-checked against the whole rfc1951.h decoder on the /exact queries",
                             "gzip CRC-32 is compared with crc32_gzip_refl_base on the input (its meaning is C04); Adler-32 with an RFC 1950 loop",
                             "streaming: a call that returns with avail_out > 0 has finished the stream (documented call loop)",
                             "spec/rfc1951.h is the definition of RFC 1951 decoding (self-tested against zlib)"],
                outside=["levels 1-3 (heap-based Huffman construction over a symbolic histogram explodes; CBMC union unsoundness)",
                         "every assembly body (igzip_body/finish/icf/encode_df/proc_heap .asm): only the _base variant is decided",
                         "inputs > 4 bytes on the Huffman path, > 6 bytes on the stored path: no window wrap, no >64 KiB stored splitting (C10b covers the arithmetic)",
                         "custom Huffman tables (C18), dictionaries, IGZIP_HIST_SIZE=8K / LONGER_HUFFTABLE builds",
                         "multi-call streaming (C07)", "default (dynamic) table with n >= 1 in streaming mode (only the empty stream is decided)",
                         "table lemma for len_table/dist_table/dcodes and hufftables_default.lit_table"],
                trusted_base=["cbmc 6.11 C front end + SAT back end", "spec/rfc1951.h", "harness/deflate_common/deflate_common.h (RFC 1950/1952 layouts)"])
