/* C01: level-0 compression (portable-C kernels) is lossless and RFC 1951/1950/1952 conformant.
 *
 * Concrete per query (-D): N (input length), API (0 = isal_deflate_stateless, 1 = isal_deflate called
 * with end_of_stream=1 until ZSTATE_END, at most MAXCALLS calls on the same buffers), WRAP (gzip_flag
 * 0..4), FLUSH (0..2), TABLE (0 default, 1 static via isal_deflate_set_hufftables), AVAIL_OUT, HIST_BITS,
 * EOS (stateless + FULL_FLUSH only: caller's end_of_stream).
 * Symbolic: all N input bytes.
 */
#include "harness/deflate_common/deflate_common.h"

#ifndef N
#error N
#endif
#ifndef HIST_BITS
#define HIST_BITS 0
#endif
#ifndef EOS
#define EOS 1
#endif
#ifndef MAXCALLS
#define MAXCALLS 2
#endif

struct inputs {
        uint8_t data[N ? N : 1];
};
DECLARE_INPUTS

void
harness(void)
{
        VERIF_INPUTS();
        /* exact-size heap objects: any access outside [0,N) / [0,AVAIL_OUT) is a CBMC bounds failure
         * (ASan failure in the native replay) */
        uint8_t *in = malloc(N ? N : 1);
        uint8_t *out = malloc(AVAIL_OUT ? AVAIL_OUT : 1);
        uint8_t *dec = malloc(N ? N : 1);
        struct isal_zstream *s = malloc(sizeof(*s));
        if (!in || !out || !dec || !s)
                return;
        for (int i = 0; i < N; i++)
                in[i] = I.data[i];

        int ret;
#if API == 0
        isal_deflate_stateless_init(s);
#else
        isal_deflate_init(s);
#endif
#if TABLE == 1
        ret = isal_deflate_set_hufftables(s, (struct isal_hufftables *) 0, IGZIP_HUFFTABLE_STATIC);
        VASSERT(ret == COMP_OK, "set_hufftables(STATIC) accepted on a fresh stream");
#endif
        s->level = 0;
        s->gzip_flag = WRAP;
        s->flush = FLUSH;
        s->hist_bits = HIST_BITS;
        s->next_in = in;
        s->avail_in = N;
        s->next_out = out;
        s->avail_out = AVAIL_OUT;

#if API == 0
        s->end_of_stream = EOS;
        ret = isal_deflate_stateless(s);
        VASSERT(ret == COMP_OK, "isal_deflate_stateless returns COMP_OK when avail_out >= documented bound");
        int complete = (FLUSH == NO_FLUSH) || EOS;
#else
        s->end_of_stream = 1;
        int calls = 0;
        do {
                ret = isal_deflate(s);
                calls++;
                VASSERT(ret == COMP_OK, "isal_deflate returns COMP_OK");
        } while (s->internal_state.state != ZSTATE_END && calls < MAXCALLS);
        int complete = 1;
#endif
        VASSERT(s->avail_in == 0 && s->total_in == N && s->next_in == in + N, "all input consumed, counters consistent");
        VASSERT(s->total_out <= AVAIL_OUT && s->avail_out == AVAIL_OUT - s->total_out && s->next_out == out + s->total_out,
                "output counters consistent");
        int eff_hist = (HIST_BITS == 0 || HIST_BITS > 15) ? 15 : HIST_BITS;
        if (complete) {
                VASSERT(s->internal_state.state == ZSTATE_END, "final state ZSTATE_END");
                dfl_check_stream(out, s->total_out, WRAP, in, N, dec, eff_hist);
        } else {
                /* stateless FULL_FLUSH without end_of_stream: wrapper header (if any) + unterminated,
                 * byte-aligned deflate data, no trailer (C14 checks appendability) */
                size_t hl = dfl_wrap_hdr_len(WRAP);
                VASSERT(s->total_out >= hl, "room for header");
                if (WRAP == IGZIP_GZIP)
                        VASSERT(rfc1952_header_len(out, s->total_out) == (int) hl, "gzip header well-formed");
                struct rfc_res r;
                rfc1951_inflate(out + hl, s->total_out - hl, 0, dec, N, (const uint8_t *) 0, 0, &r);
                VASSERT(r.status == RFC_BOUNDARY && !r.saw_final, "decoder: block boundary, no BFINAL");
                VASSERT(r.out_len == N, "decoded length equals input length");
                for (int i = 0; i < N; i++)
                        VASSERT(dec[i] == in[i], "decoded bytes equal input bytes");
                VASSERT(r.bit_pos == 8 * (s->total_out - hl), "output ends byte aligned exactly at the block boundary");
                VASSERT(s->internal_state.state == ZSTATE_NEW_HDR, "state ZSTATE_NEW_HDR after stateless full flush");
        }
        VREACHED();
}
VERIF_MAIN
