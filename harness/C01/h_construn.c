/* C01 / C10 / C11: the constant-run shortcut of isal_deflate_stateless (write_constant_compressed_stateless):
 * an input consisting entirely of N >= 8 bytes 0x00 or 0xFF is emitted as one fixed-Huffman block of
 * repeat codes.  The run value is symbolic (0x00 or 0xFF), N / wrapper / avail_out are concrete and swept.
 * Oracle: the whole independent RFC 1951 decoder (spec/rfc1951.h) on out[0..total_out) + trailer checks. */
#include "verif.h"
#include "rfc1951.h"
#include <stdlib.h>
#include "igzip_lib.h"
#include "crc.h"
uint32_t adler32_base(uint32_t init, const unsigned char *buf, uint64_t len);

#ifndef N
#error N
#endif
#if defined(FLUSHMODE) && !defined(REPLAY)
#include <wchar.h>
/* wmemset for CBMC, as in harness/deflate_common/deflate_common.h (reset_match_history is reached in this mode) */
struct dfl_hw {
        uint16_t h[IGZIP_LVL0_HASH_SIZE];
};
wchar_t *
wmemset(wchar_t *s, wchar_t c, size_t n)
{
        if (n == sizeof(struct dfl_hw) / sizeof(wchar_t) && sizeof(wchar_t) == 4 && (((uint32_t) c) >> 16) == (((uint32_t) c) & 0xffff)) {
                uint16_t tmp[IGZIP_LVL0_HASH_SIZE];
                __CPROVER_array_set(tmp, (uint16_t) c);
                *(struct dfl_hw *) s = *(struct dfl_hw *) tmp;
        } else {
                for (size_t i = 0; i < n; i++)
                        s[i] = c;
        }
        return s;
}
#endif
struct inputs {
        uint8_t rep; /* bit 0 selects 0x00 / 0xFF */
};
DECLARE_INPUTS

static const int hdr_len[5] = { 0, 10, 0, 2, 0 };
#ifdef FLUSHMODE
/* C14 one-shot clause: FULL_FLUSH with end_of_stream = 0 leaves the output byte aligned and UNterminated (no BFINAL
 * block, no trailer), so that a following call's output can be appended (short runs leave as a plain stored block, so
 * no 00 00 FF FF marker is required here) */
static const int trl_len[5] = { 0, 0, 0, 0, 0 };
#else
static const int trl_len[5] = { 0, 8, 8, 4, 4 };
#endif

void
harness(void)
{
        VERIF_INPUTS();
#ifdef REP
        uint8_t v = REP; /* run value concrete per query (both values are swept) */
#else
        uint8_t v = (I.rep & 1) ? 0xFF : 0x00;
#endif
        uint8_t *in = malloc(N);
        uint8_t *out = malloc(AVAIL_OUT ? AVAIL_OUT : 1);
        uint8_t *dec = malloc(N);
#ifdef FLUSHMODE
        static struct isal_zstream S; /* static object: see wmemset */
        struct isal_zstream *s = &S;
#else
        struct isal_zstream *s = malloc(sizeof(*s));
#endif
        if (!in || !out || !dec || !s)
                return;
        for (int i = 0; i < N; i++)
                in[i] = v;
        isal_deflate_stateless_init(s);
        s->level = 0;
        s->gzip_flag = WRAP;
#ifdef FLUSHMODE
        s->flush = FULL_FLUSH;
        s->end_of_stream = 0;
#else
        s->flush = NO_FLUSH;
        s->end_of_stream = 1;
#endif
        s->next_in = in;
        s->avail_in = N;
        s->next_out = out;
        s->avail_out = AVAIL_OUT;
        int ret = isal_deflate_stateless(s);
        VASSERT(ret == COMP_OK || ret == STATELESS_OVERFLOW, "COMP_OK or STATELESS_OVERFLOW");
        VASSERT(s->total_out <= AVAIL_OUT, "total_out <= avail_out");
        VASSERT(s->next_out == out + s->total_out && s->avail_out == AVAIL_OUT - s->total_out, "output counters consistent");
#ifdef FLUSHMODE
        uint32_t bound = N + 5 * (1 + (N - 1) / 65535) + hdr_len[WRAP] + 8 + 5; /* + marker block; generous */
#else
        uint32_t bound = N + 5 * (1 + (N - 1) / 65535) + hdr_len[WRAP] + trl_len[WRAP];
#endif
        if (AVAIL_OUT >= bound)
                VASSERT(ret == COMP_OK, "succeeds whenever avail_out >= documented bound");
        if (ret == COMP_OK) {
                VASSERT(s->avail_in == 0 && s->total_in == N && s->next_in == in + N, "all input consumed");
#ifndef FLUSHMODE
                VASSERT(s->total_out <= bound, "never more than the documented bound");
#endif
                struct rfc_res r;
                uint32_t body = s->total_out - hdr_len[WRAP] - trl_len[WRAP];
                rfc1951_inflate(out + hdr_len[WRAP], body, 0, dec, N, 0, 0, &r);
#ifdef FLUSHMODE
                VASSERT(r.status == RFC_BOUNDARY && !r.saw_final, "FULL_FLUSH, end_of_stream=0: whole blocks, none of them final");
                VASSERT(r.bit_pos == 8 * (size_t) body, "output ends on a byte boundary at the end of the last block");
#else
                VASSERT(r.status == RFC_OK, "reference decoder accepts the stream");
#endif
                VASSERT(r.out_len == N, "decoded length == N");
                for (int i = 0; i < N; i++)
                        VASSERT(dec[i] == v, "decoded bytes == input");
                VASSERT((r.bit_pos + 7) / 8 == body, "deflate data consumed to its last byte");
                const uint8_t *t = out + s->total_out - trl_len[WRAP];
#ifdef FLUSHMODE
                if (0) {
#else
                if (WRAP == 1 || WRAP == 2) {
#endif
                        uint32_t c = crc32_gzip_refl_base(0, in, N);
                        uint32_t got = t[0] | (t[1] << 8) | (t[2] << 16) | ((uint32_t) t[3] << 24);
                        uint32_t len = t[4] | (t[5] << 8) | (t[6] << 16) | ((uint32_t) t[7] << 24);
                        VASSERT(got == c, "gzip trailer CRC-32 (LE) of the input");
                        VASSERT(len == N, "gzip trailer ISIZE");
#ifndef FLUSHMODE
                } else if (WRAP == 3 || WRAP == 4) {
#else
                } else if (0) {
#endif
                        uint32_t a = adler32_base(1, in, N);
                        uint32_t got = ((uint32_t) t[0] << 24) | (t[1] << 16) | (t[2] << 8) | t[3];
                        VASSERT(got == a, "zlib trailer Adler-32 (BE) of the input");
                }
        }
        VREACHED();
}
VERIF_MAIN
