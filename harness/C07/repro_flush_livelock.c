/* NOT a harness: native reproducer for the finding reported with C07/C14 (see the plan's notes).
 * isal_deflate() called with flush = SYNC_FLUSH and 2-, 3-, 4- or 6-byte output buffers, repeated (as
 * igzip_lib.h describes) until "the out_buffer is not empty or internal_state.state == ZSTATE_NEW_HDR":
 * the condition never becomes true; every call that drains the 16-byte staging buffer with 0 < avail_out < 8
 * left starts another empty block + 00 00 FF FF marker into the staging buffer (state ZSTATE_TMP_NEW_HDR).
 * Output grows without bound (valid deflate, never complete).  All levels, default and static tables.
 * build: gcc repro_flush_livelock.c igzip/{igzip,igzip_base,igzip_base_aliases,hufftables_c,igzip_icf_base,
 *        igzip_icf_body,encode_df,huff_codes,flatten_ll,proc_heap_base,igzip_inflate,adler32_base}.c
 *        crc/{crc_base,crc64_base,crc_base_aliases}.c -Iinclude -Iigzip -Icrc -Dx86_64
 * run:   ./a.out 2 0 2 0   ->  "NEVER COMPLETES" (100000 calls, 200000 bytes for 1 input byte) */
#include <stdio.h>
#include <string.h>
#include <stdlib.h>
#include "igzip_lib.h"
/* usage: nat3 <out chunk> <wrap> <table 1|2> <level> */
int main(int argc, char **argv) {
    struct isal_zstream s; unsigned char in[1] = {'a'};
    int oc = atoi(argv[1]), wrap = atoi(argv[2]), tbl = atoi(argv[3]), lvl = argc > 4 ? atoi(argv[4]) : 0;
    static unsigned char lbuf[ISAL_DEF_LVL3_DEFAULT];
    unsigned char *out = malloc(oc);
    isal_deflate_init(&s);
    isal_deflate_set_hufftables(&s, NULL, tbl);
    s.gzip_flag = wrap; s.level = lvl; if (lvl) { s.level_buf = lbuf; s.level_buf_size = sizeof(lbuf); }
    s.next_in = in; s.avail_in = 1; s.end_of_stream = 0; s.flush = SYNC_FLUSH;
    s.avail_out = 0;
    int calls = 0; unsigned long total = 0;
    do {
        s.next_out = out; s.avail_out = oc;
        int r = isal_deflate(&s); calls++;
        if (r) { printf("ret %d\n", r); return 1; }
        total += oc - s.avail_out;
    } while ((s.avail_in > 0 || (s.avail_out == 0 && s.internal_state.state != ZSTATE_NEW_HDR)) && calls < 100000);
    printf("oc=%d wrap=%d tbl=%d lvl=%d: calls=%d total_out=%lu state=%d avail_out=%u %s\n", oc, wrap, tbl, lvl, calls, total, s.internal_state.state, s.avail_out,
           calls >= 100000 ? "NEVER COMPLETES" : "flush complete");
    return 0;
}
