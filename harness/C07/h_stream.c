/* C07 (compression side) / C10(d) / C14: isal_deflate driven over several calls, level 0, static table.
 *
 * Concrete per query (-D):
 *   C1,C2,C3   lengths of the three input chunks (0 allowed); every chunk is a fresh exact-size heap object
 *              that is free()d as soon as the library has consumed it (a later read is a CBMC
 *              "deallocated dynamic object" failure / ASan use-after-free natively)
 *   OC         output chunk size: every time the output space is used up a fresh OC-byte object is supplied
 *   EOSMODE    0: end_of_stream is set together with the last chunk, 1: announced late on an extra empty call
 *   FLUSH1     flush value used while chunk 1 is being fed (NO_FLUSH / SYNC_FLUSH / FULL_FLUSH); later calls NO_FLUSH
 *   WRAP       gzip_flag     KMAX  bound on the number of isal_deflate calls     TABLE 1 static / 0 default (n = 0 only)
 *   CHECK14    1: additionally check the flush point after chunk 1 (C14)
 *   CHECK05    1: additionally check that needed match history is retained internally (C05 stale input)
 *   DFL_CLASSES / DFL_TOKLENS   code-length class vector (deflate_shim.h); EOB writes carry class 0
 * Symbolic: all input bytes.
 *
 * Driver = the documented call loop: feed a chunk, call until it is consumed and (output space is left or the
 * state is back at ZSTATE_NEW_HDR / ZSTATE_TMP_NEW_HDR: igzip_lib.h "Checking that the out_buffer is not empty
 * or that internal_state.state = ZSTATE_NEW_HDR is sufficient to guarantee all input has been flushed"), supply
 * new output space whenever avail_out == 0; after the last chunk call until ZSTATE_END.
 */
#include "harness/deflate_common/deflate_common.h"
#include "harness/deflate_common/deflate_shim.h"

#ifndef C3
#define C3 0
#endif
#define NTOT (C1 + C2 + C3)
/* FLUSHAT: index (0 or 1) of the chunk fed with flush = FLUSH1; the flush point then lies after FL_C1 input bytes */
#ifndef FLUSHAT
#define FLUSHAT 0
#endif
/* FLUSH3: flush mode of the third chunk (memory-safety queries only: the stream is then not decoded by the oracle) */
#ifndef FLUSH3
#define FLUSH3 0
#endif
#define FL_C1 (FLUSHAT == 1 ? C1 + C2 : C1)
#define FL_REST (NTOT - FL_C1)
#ifndef FLUSH1
#define FLUSH1 0
#endif
#ifndef TABLE
#define TABLE 1
#endif
#ifndef CHECK05
#define CHECK05 0
#endif
#ifndef CHECK14
#define CHECK14 0
#endif
#ifndef DFL_TOKLENS
#define DFL_TOKLENS 0
#endif
#ifndef OUTCAP
#define OUTCAP 64
#endif

struct inputs {
        uint8_t data[NTOT ? NTOT : 1];
};
DECLARE_INPUTS

static const uint8_t toklens[] = { DFL_TOKLENS, 0 };
static const int clen[3] = { C1, C2, C3 };

static uint8_t full[OUTCAP]; /* concatenated output */
static uint32_t full_len;
static uint8_t *ochunk;
static struct isal_zstream *s;
static int calls;
static uint32_t flush_point; /* full_len when the flushing call returned with avail_in==0 && avail_out>0 */
static int flush_seen, flush_state;
static uint32_t head_base; /* input offset of the last history reset, for the hash-head invariant */
static uint32_t hist_base; /* CHECK05: input offset where the current match history starts */

static void
collect(uint32_t from_avail)
{ /* bytes the last call produced into the current output chunk */
        uint32_t produced = from_avail - s->avail_out;
        uint8_t *p = s->next_out - produced;
        for (uint32_t i = 0; i < produced; i++) {
                VASSERT(full_len < OUTCAP, "harness output capacity");
                full[full_len++] = p[i];
        }
}

/* one isal_deflate call with the bookkeeping the property talks about */
static void
one_call(void)
{
        if (s->avail_out == 0) { /* fresh output object */
                if (ochunk)
                        free(ochunk);
                /* The OC output bytes are the LAST bytes of the object (a write past avail_out is a bounds failure);
                 * 8 bytes of lead-in keep bitbuf2.h's `buf + len - 8` end marker inside the object for OC < 8: CBMC
                 * cannot order a pointer that lies before its object (offsets are unsigned), see DESIGN 3.4 */
                ochunk = malloc(OC + 8);
                s->next_out = ochunk + 8;
                s->avail_out = OC;
        }
        uint32_t ti = s->total_in, to = s->total_out, ai = s->avail_in, ao = s->avail_out;
        uint8_t *ni = s->next_in, *no = s->next_out;
        int st = s->internal_state.state;
        int ret = isal_deflate(s);
        calls++;
        VASSERT(ret == COMP_OK, "isal_deflate returns COMP_OK");
        VASSERT(s->total_in - ti == ai - s->avail_in && s->next_in == ni + (ai - s->avail_in) && s->avail_in <= ai,
                "input counters advance together");
        VASSERT(s->total_out - to == ao - s->avail_out && s->next_out == no + (ao - s->avail_out) && s->avail_out <= ao,
                "output counters advance together");
        VASSERT(s->total_in != ti || s->total_out != to || (int) s->internal_state.state != st || (ai == 0 && !s->end_of_stream && s->flush == NO_FLUSH),
                "every call consumes input, produces output or changes state (unless it was given nothing to do)");
        collect(ao);
#if CHECK05
        /* C05 (stale input): when the call returns and the stream goes on with match history (has_hist ==
         * IGZIP_HIST), every byte the match finder may look back to must live in the library's own buffer: the
         * caller is free to release or overwrite the chunk (the harness free()s it).  With <= 3 bytes nothing is
         * ever looked up, so a missing history copy would go unnoticed by the deallocated-object check alone.
         * (Once end_of_stream is announced with nothing left to feed the library rightly drops the history.) */
        if (s->internal_state.state != ZSTATE_END && s->internal_state.state != ZSTATE_TRL && s->internal_state.state != ZSTATE_TMP_END &&
            s->internal_state.state != ZSTATE_TMP_TRL && s->internal_state.has_hist == IGZIP_HIST && s->avail_in == 0 && !s->end_of_stream) {
                uint32_t unproc = s->internal_state.b_bytes_valid - s->internal_state.b_bytes_processed;
                uint32_t P = s->total_in - unproc; /* bytes already compressed; < window size here */
                VASSERT(unproc <= s->total_in && P <= NTOT, "buffer accounting");
                VASSERT(s->internal_state.b_bytes_processed >= P - hist_base, "history since the last reset is retained in the internal buffer");
                for (uint32_t i = hist_base; i < P; i++)
                        VASSERT(s->internal_state.buffer[s->internal_state.b_bytes_processed - (P - i)] == I.data[i],
                                "retained history equals the consumed input");
        }
        if (s->internal_state.has_hist == IGZIP_NO_HIST)
                hist_base = s->total_in - (s->internal_state.b_bytes_valid - s->internal_state.b_bytes_processed);
#endif
#if CHECK05 || CHECK14
        /* (lead) hash-head invariant, C14 "no later match refers to data before a completed full flush" without needing
         * an input long enough to contain a real match.  head_base is the input position at which the match history was
         * last dropped (has_hist == IGZIP_NO_HIST when a call returned: stream start, completed FULL_FLUSH).  The reset of
         * the hash table itself is lazy (top of the next isal_deflate call), so stale heads are legitimate while nothing
         * has been compressed since; but as soon as the stream has history again, or input beyond head_base has been
         * compressed, no head of the level-0 table may denote a position before head_base (heads hold positions modulo
         * 2^16; reset_match_history() points heads 0..hash_mask at the reset position itself). */
        {
                uint32_t unproc2 = s->internal_state.b_bytes_valid - s->internal_state.b_bytes_processed;
                uint32_t P2 = s->total_in - unproc2;
                if ((s->internal_state.has_hist == IGZIP_HIST && s->internal_state.state != ZSTATE_END &&
                     s->internal_state.state != ZSTATE_TMP_END) ||
                    (unproc2 <= s->total_in && P2 > head_base)) {
                        /* 16 sampled heads (all 8192 per call is too slow): a skipped reset leaves EVERY head stale */
                        for (uint32_t k = 0; k < 16; k++) {
                                uint32_t h = (k * 1171u) & s->internal_state.hash_mask & (IGZIP_LVL0_HASH_SIZE - 1);
                                VASSERT(((P2 - s->internal_state.head[h]) & 0xffff) <= P2 - head_base,
                                        "no hash head denotes a position before the last history reset (full flush point)");
                        }
                }
                if (s->internal_state.has_hist == IGZIP_NO_HIST)
                        head_base = P2;
        }
#endif
#if defined(REPLAY) && defined(DFL_DEBUG)
        printf("call %d: flush=%d eos=%d in %u->%u out %u->%u state %d->%d has_hist=%d valid=%u processed=%u total_in=%u\n", calls, s->flush,
               s->end_of_stream, ai, s->avail_in, ao, s->avail_out, st, s->internal_state.state, s->internal_state.has_hist,
               s->internal_state.b_bytes_valid, s->internal_state.b_bytes_processed, s->total_in);
#endif
}

void
harness(void)
{
        VERIF_INPUTS();
        static struct isal_zstream S; /* static object: see wmemset in deflate_common.h */
        s = &S;
        isal_deflate_init(s);
#if TABLE == 1
        int ret = isal_deflate_set_hufftables(s, (struct isal_hufftables *) 0, IGZIP_HUFFTABLE_STATIC);
        VASSERT(ret == COMP_OK, "set_hufftables(STATIC)");
#endif
        s->gzip_flag = WRAP;
        s->avail_out = 0;
        s->next_out = 0;
        int off = 0;
        for (int c = 0; c < 3; c++) {
                int len = clen[c];
                int last = (c == 2);
                uint8_t *chunk = malloc(len ? len : 1);
                if (!chunk)
                        return;
                for (int i = 0; i < len; i++)
                        chunk[i] = I.data[off + i];
                s->next_in = chunk;
                s->avail_in = len;
                s->flush = (c == FLUSHAT) ? FLUSH1 : ((c == 2) ? FLUSH3 : NO_FLUSH);
                s->end_of_stream = (last && EOSMODE == 0) ? 1 : 0;
                /* feed until consumed; a flush request is repeated until it has completed (state back at a block
                 * boundary with output space left), as the documentation describes */
                do {
                        VASSERT(calls < KMAX, "stream finishes within KMAX calls");
                        if (calls >= KMAX)
                                return;
                        one_call();
                } while (s->avail_in > 0 || (s->avail_out == 0 && s->internal_state.state != ZSTATE_NEW_HDR &&
                                             s->internal_state.state != ZSTATE_TMP_NEW_HDR && s->internal_state.state != ZSTATE_END));
                /* ZSTATE_TMP_NEW_HDR: the flush has been generated completely, only staged bytes are pending.  The
                 * flush flag must be dropped here: repeating the call with the flag still set until
                 * "avail_out > 0 or state == ZSTATE_NEW_HDR" (igzip_lib.h) never terminates for output chunks of 2, 3, 4
                 * or 6 bytes -- each draining call starts another empty block + marker (repro_flush_livelock.c; reported). */
                if (c == FLUSHAT && FLUSH1 != NO_FLUSH && s->avail_in == 0 && s->avail_out > 0) {
                        /* C14's premise: the flushing call returned with all input consumed and output space left */
                        flush_seen = 1;
                        flush_point = full_len;
                        flush_state = s->internal_state.state;
                }
                if (!last)
                        free(chunk); /* consumed: the library must not look at it again (the last chunk stays
                                        allocated while the stream is drained: next_in still points at its end) */
                off += len;
        }
#if EOSMODE == 1
        uint8_t *nothing = malloc(1); /* nothing more to give: valid pointer, zero length (a fresh object again) */
        if (!nothing)
                return;
        s->next_in = nothing;
        s->avail_in = 0;
        s->flush = NO_FLUSH;
        s->end_of_stream = 1;
#endif
        while (s->internal_state.state != ZSTATE_END) {
                VASSERT(calls < KMAX, "stream finishes within KMAX calls");
                if (calls >= KMAX)
                        return;
                one_call();
        }
        VASSERT(s->total_in == NTOT && s->total_out == full_len, "totals equal the bytes fed and collected");
#if FLUSH3 != 0
        VREACHED(); /* per-call assertions (one_call) only: bounds, counters, history invariants */
        return;
#endif
#if defined(REPLAY) && defined(DFL_DEBUG)
        printf("calls=%d out:", calls);
        for (uint32_t i = 0; i < full_len; i++)
                printf(" %02x", full[i]);
        printf("\n");
#endif

#if TABLE == 0
        /* default (dynamic) table: only the empty input is decided (see C01); no byte is symbolic, the whole
         * reference decoder runs on concrete data: dynamic header(s), markers, final block, trailer */
        {
                static uint8_t dec0[1];
                dfl_check_stream(full, full_len, WRAP, I.data, NTOT, dec0, 15);
        }
        VREACHED();
        return;
#endif
        /* ---- the concatenated output decodes to the concatenated input.
         * Expected block structure (guided decoder, see deflate_common.h):
         *   no flush:   FIXED(all literals) [+ empty final FIXED]
         *   flush:      FIXED(chunk 1) STORED(0)  { FIXED(0) STORED(0) }*  FIXED(rest) [+ empty final FIXED]
         * The optional { FIXED(0) STORED(0) } pairs are real: when a flush completes into the 16-byte staging
         * buffer (ZSTATE_TMP_*), the call that drains it is made with the flush flag still set and emits one more
         * empty block + marker.  Valid deflate; recognised here by peeking at concrete byte positions. */
        struct dfl_blk script[3];
        uint32_t hl = (uint32_t) dfl_check_wrap_header(full, full_len, WRAP, 15);
        uint32_t tl = dfl_wrap_trl_len(WRAP);
        VASSERT(hl + tl <= full_len, "room for header and trailer");
        const uint8_t *body = full + hl;
        size_t body_len = full_len - hl; /* includes the trailer; the decoder must stop before it */
        struct dfl_guided g;
        size_t pos = 0;
#if FLUSH1 != 0
        script[0].btype = 1;
        script[0].nlit = FL_C1;
        script[1].btype = 0;
        script[1].nlit = 0;
        dfl_guided_decode(body, body_len, 0, script, 2, I.data, toklens, sizeof(toklens) - 1, 0, &g);
        VASSERT(g.out_len == FL_C1, "blocks up to the flush marker carry chunk 1");
        pos = g.bit_pos;
        for (int k = 0; k < 2; k++) {
                /* FIXED(0) = BFINAL 0, BTYPE 01, EOB 0000000: bytes 0x02, then xxx00000 with the STORED header 000 */
                size_t by = pos >> 3;
                if (by + 2 <= body_len - tl && (pos & 7) == 0 && body[by] == 0x02 && (body[by + 1] & 0x1f) == 0x00) {
                        script[0].btype = 1;
                        script[0].nlit = 0;
                        dfl_guided_decode(body, body_len, pos, script, 2, I.data, toklens, 0, 0, &g);
                        pos = g.bit_pos;
                } else
                        break;
        }
        script[2].btype = 1;
        script[2].nlit = FL_REST;
        dfl_guided_decode(body, body_len, pos, script + 2, 1, I.data + FL_C1, toklens + FL_C1, (int) (sizeof(toklens) - 1) - FL_C1, 1, &g);
        VASSERT(g.out_len == FL_REST, "blocks after the flush carry the rest of the input");
#else
        script[0].btype = 1;
        script[0].nlit = NTOT;
        dfl_guided_decode(body, body_len, 0, script, 1, I.data, toklens, sizeof(toklens) - 1, 1, &g);
        VASSERT(g.out_len == NTOT, "decoded length equals input length");
#endif
        VASSERT(g.saw_final, "stream finished with a BFINAL block");
        VASSERT(hl + ((g.bit_pos + 7) >> 3) + tl == full_len, "stream consumed to its last byte (deflate end rounded up + trailer == total_out)");
        dfl_check_trailer(full, full_len, WRAP, I.data, NTOT);

#if CHECK14 && FLUSH1 != 0
        /* ---- C14: the flush point = the moment the flushing call sequence for chunk 1 returned with
         * avail_in == 0 and (avail_out > 0 or state == ZSTATE_NEW_HDR) */
#if OC >= 32
        VASSERT(flush_seen, "ample output space: the flushing call returns with input consumed and space left (C14 premise occurs)");
#endif
        if (flush_seen) {
                VASSERT(flush_state == ZSTATE_NEW_HDR, "state ZSTATE_NEW_HDR after a completed flush");
                VASSERT(flush_point >= hl + 4 && full[flush_point - 4] == 0x00 && full[flush_point - 3] == 0x00 &&
                                full[flush_point - 2] == 0xff && full[flush_point - 1] == 0xff,
                        "output up to the flush point ends with 00 00 FF FF");
                /* prefix = FIXED(chunk 1) STORED(0) { FIXED(0) STORED(0) }* and nothing else */
                struct dfl_guided gp;
                size_t plen = (size_t) flush_point - hl;
                script[0].btype = 1;
                script[0].nlit = FL_C1;
                dfl_guided_decode(body, plen, 0, script, 2, I.data, toklens, sizeof(toklens) - 1, 0, &gp);
                VASSERT(gp.out_len == FL_C1 && !gp.saw_final, "prefix decodes to segment 1, no BFINAL");
                size_t ppos = gp.bit_pos;
                for (int k = 0; k < 2; k++) {
                        if (ppos < 8 * plen) {
                                script[0].nlit = 0;
                                dfl_guided_decode(body, plen, ppos, script, 2, I.data, toklens, 0, 0, &gp);
                                ppos = gp.bit_pos;
                        }
                }
                VASSERT(ppos == 8 * plen, "prefix consumed exactly to the (byte aligned) flush point");
#if FLUSH1 == FULL_FLUSH
                /* suffix alone, empty history: literal-only script => a match reaching back over the flush point would be
                 * flagged (STRUCT: literal token expected); the guided decoder has no history at all */
                const uint8_t *sfx = body + plen;
                size_t slen = body_len - plen, spos = 0;
                for (int k = 0; k < 2; k++) {
                        size_t by = spos >> 3;
                        if (by + 2 <= slen - tl && sfx[by] == 0x02 && (sfx[by + 1] & 0x1f) == 0x00) {
                                script[0].nlit = 0;
                                dfl_guided_decode(sfx, slen, spos, script, 2, I.data, toklens, 0, 0, &gp);
                                spos = gp.bit_pos;
                        } else
                                break;
                }
                dfl_guided_decode(sfx, slen, spos, script + 2, 1, I.data + FL_C1, toklens + FL_C1, (int) (sizeof(toklens) - 1) - FL_C1, 1, &gp);
                VASSERT(gp.out_len == FL_REST && gp.saw_final, "suffix after a full flush decodes on its own to segment 2");
#endif
        }
#endif
        VREACHED();
}
VERIF_MAIN
