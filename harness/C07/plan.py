"""C07 — streaming compression is independent of how input and output are sliced (level 0, static table).

Query id: S/<wrap>/i<c1>-<c2>-<c3>/o<oc>/e<eosmode>/f<flush1>/<class vector>
"""
import itertools
from vlib.core import Query, Plan
from harness.deflate_common import dflplan as D

H = "harness/C07/h_stream.c"


def stream_query(prefix, wrap, chunks, oc, eosmode, flush1, cl, check14=0, witness=False, core=False, fam=None, timeout=None, check05=0, table=1, flushat=0, flush3=0):
    n = sum(chunks)
    c1 = chunks[0]
    lits = list(cl)
    classes = lits
    # worst case output: wrapper + 3 blocks of headers/markers + 9 bits per literal
    outcap = D.HDR[wrap] + D.TRL[wrap] + 2 * n + 16
    if table == 0:
        outcap += 3 * 112 + 16
    kmax = 3 * outcap // min(oc, outcap) + 12
    hdef = ["C1=%d" % chunks[0], "C2=%d" % chunks[1], "C3=%d" % chunks[2], "OC=%d" % oc, "EOSMODE=%d" % eosmode,
            "FLUSH1=%d" % flush1, "WRAP=%d" % wrap, "KMAX=%d" % kmax, "OUTCAP=%d" % outcap, "CHECK14=%d" % check14, "CHECK05=%d" % check05, "TABLE=%d" % table, "RFC_MAXBLOCKS=8",
            D.cdef("DFL_CLASSES", classes), D.cdef("DFL_TOKLENS", lits), D.cdef("DFL_CLASS_SET", D.STATIC_LIT_CLASSES)]
    extra = {"collect.0": oc + 2, "one_call.0": 20, "one_call.1": 20, "one_call.2": 20, "wmemset.0": 18, "isal_deflate.0": 4}
    for i in range(8):
        extra["harness.%d" % i] = kmax + 3
    qid = "%s/%s/i%d-%d-%d/o%d/e%d/f%d/c%s" % (prefix, D.WRAPS[wrap], chunks[0], chunks[1], chunks[2], oc, eosmode, flush1,
                                               "".join("%x" % c for c in lits) or "-")
    if flushat:
        hdef.append("FLUSHAT=%d" % flushat)
        qid += "/at%d" % flushat
    if flush3:
        hdef.append("FLUSH3=%d" % flush3)
        qid += "/third%d" % flush3
    if table == 0:
        qid += "/default"
    params = dict(harness=H, units=D.UNITS, vunits=D.VUNITS, hdefines=hdef, unwind=3,
                  unwindset=D.unwindset(n, extra=extra, nblk=(8 if table == 0 else 3), avail=outcap, exact=(table == 0), dynamic=(table == 0)),
                  witness=witness, flags=D.fs_flags(outcap))
    if timeout:
        params["timeout"] = timeout
    return Query(qid, D.R, params, core=core, family=fam or prefix, weight=5.0 + kmax / 4.0)


def splits(n):
    """all (c1,c2,c3) with c1+c2+c3 == n, zero-length chunks included"""
    return [(a, b, n - a - b) for a in range(n + 1) for b in range(n + 1 - a)]


def plan(tier, ctx):
    quick = tier == "quick"
    qs = []
    ocs = [1, 2, 7, 8, 9, 64]
    if quick:
        # representative subset: every split of n = 2 and n = 3 appears, every output chunk size appears with
        # every wrapper class, both eos modes, both flush schedules; one class vector per shape (rotating)
        import random
        rnd = random.Random(7)
        combos = []
        for n in (0, 1, 2, 3):
            for sp in splits(n):
                for oc in ocs:
                    for eos in (0, 1):
                        for fl in (0, 1):
                            combos.append((n, sp, oc, eos, fl))
        rnd.shuffle(combos)
        combos = combos[:150]
        for i, (n, sp, oc, eos, fl) in enumerate(combos):
            wrap = (0, 1, 3, 2, 4)[i % 5] if oc != 1 else (0, 3, 4)[i % 3]
            if n == 3 and wrap in (1, 2):
                wrap = (0, 3, 4)[i % 3]  # CRC-32 over 3 symbolic bytes costs ~2 min/query (XOR-heavy): gzip at n = 3 is thorough-only
            cl = [rnd.choice(D.STATIC_LIT_CLASSES) for _ in range(n)]
            core = (i < 4)
            qs.append(stream_query("S", wrap, sp, oc, eos, fl, cl, witness=(i % 10 == 0) or core, core=False))
        # core queries: fixed, cheap, well inside the cap
        qs.append(stream_query("S", 1, (1, 1, 0), 8, 0, 1, [8, 9], witness=True, core=True))
        qs.append(stream_query("S", 0, (0, 2, 1), 2, 1, 0, [9, 8, 8], witness=True, core=True))
    else:
        for n in (0, 1, 2, 3):
            for sp in splits(n):
                for oc in ocs:
                    for eos in (0, 1):
                        for fl in (0, 1):
                            for wrap in ((0, 1, 3) if oc > 1 else (0, 3)):
                                for cl in itertools.product(D.STATIC_LIT_CLASSES, repeat=n):
                                    if n == 3 and wrap == 3 and ((cl.count(8) not in (0, 3)) or oc not in (1, 8, 64)):
                                        continue
                                    if n == 3 and wrap == 0 and (eos == 1 or oc in (2, 9)) and cl.count(8) not in (0, 3):
                                        continue
                                    if n == 2 and wrap == 1 and oc in (2, 9) and cl.count(8) == 1:
                                        continue
                                    if n == 3 and wrap == 1 and not (oc in (1, 8) and cl.count(8) in (0, 3) and fl == 1):
                                        continue
                                    if n == 3 and wrap == 0 and eos == 1 and oc in (2, 9, 64) and cl.count(8) not in (0, 3):
                                        continue
                                    qs.append(stream_query("S", wrap, sp, oc, eos, fl, list(cl),
                                                           witness=(sp == (1, 1, 1) and oc == 7), core=False,
                                                           timeout=(1200 if (wrap == 1 and n == 3) else 400)))
        qs.append(stream_query("S", 1, (1, 1, 0), 8, 0, 1, [8, 9], witness=True, core=True))
    # default (dynamic) table, empty input: header written while end_of_stream is not yet known (BFINAL toggle
    # in write_header), header split over output chunks, extra final block
    for (oc, eos, fl, wrap) in [(64, 1, 0, 0), (8, 1, 0, 1), (2, 0, 0, 3), (1, 1, 0, 1), (64, 1, 1, 1), (9, 0, 1, 0)] + \
            ([] if quick else [(7, 1, 0, 3), (2, 1, 1, 1), (1, 0, 1, 3), (8, 0, 2, 0)]):
        qs.append(stream_query("SD", wrap, (0, 0, 0), oc, eos, fl, [], table=0, witness=(oc == 8), core=False, fam="SD", timeout=400))
    seen = set()
    uq = []
    for q in qs:
        if q.qid not in seen:
            seen.add(q.qid)
            uq.append(q)
    return Plan("C07", "model_checking", uq,
                functions_encoded=["isal_deflate (multi-call)", "isal_deflate_int incl. ZSTATE_TMP_* staging through tmp_out_buff",
                                   "isal_deflate_pass", "write_header", "write_stream_header", "sync_flush", "flush_write_buffer", "write_trailer",
                                   "get_hist_size / internal input buffering", "isal_deflate_finish_base", "isal_deflate_body_base (empty-input path)"],
                bounds={"total input": "0..3 bytes, all contents symbolic", "input chunks": "every split into 3 chunks incl. empty ones; fresh exact-size heap object per chunk, freed once consumed",
                        "output chunk sizes": ocs, "end_of_stream": "with the last chunk / late on an extra empty call",
                        "flush": "NO_FLUSH throughout / SYNC_FLUSH while chunk 1 is fed then NO_FLUSH", "wrappers": "raw, gzip, zlib (+no-hdr variants quick)",
                        "quick": "150 randomly drawn (fixed seed) schedule x size x class-vector tuples + 2 fixed core tuples",
                        "thorough": "all schedules x chunk sizes x wrappers {raw,gzip,zlib}; all class vectors for n<=2 (gzip: not the mixed ones at chunk 2/9); n=3: raw all vectors for chunks 1,7,8,64 with early eos, the two uniform vectors otherwise; zlib uniform vectors at chunks 1,8,64; gzip uniform vectors at chunks 1,8 with flush",
                        "level": 0, "table": "static (fixed Huffman)"},
                stubs=["wmemset: loop; the 4096-wide hash-head initialisation as one array assignment (same values)", "get_lit_code class split (see C01)"],
                assumptions=["guided decoder script: one fixed block (no flush) or fixed, empty stored, fixed (sync flush after chunk 1)",
                             "driver repeats a call while avail_in > 0 or (avail_out == 0 and state not in {ZSTATE_NEW_HDR, ZSTATE_TMP_NEW_HDR, ZSTATE_END}); the flush flag is dropped at ZSTATE_TMP_NEW_HDR "
                             "(holding it until NEW_HDR livelocks for 2/3/4/6-byte output buffers: repro_flush_livelock.c)",
                             "the optional extra {empty fixed block + 00 00 FF FF} pairs and the optional extra empty final block that ISA-L emits are accepted"],
                outside=["levels 1-3", "default (dynamic) table in multi-call mode except the empty input (family SD)", "decompression side (inflate of split streams): not built, see report",
                         "random long schedules, more than one flush-mode change", "inputs > 3 bytes"],
                trusted_base=["cbmc 6.11", "spec/rfc1951.h primitives", "harness/deflate_common"])
