from vlib.core import Query

R = "harness.C08.x86:raid_query"


def chunks(l, k):
    return [l[i:i + k] for i in range(0, len(l), k)]


def x86_queries(tier):
    qs = []
    quick = tier == "quick"
    xor_full = list(range(0, 301 if quick else 641))
    xor_sub = sorted(set(list(range(0, 41)) + list(range(120, 141)) + list(range(250, 271))))
    for k in ("xor_gen_sse", "xor_gen_avx", "xor_gen_avx512", "xor_check_sse"):
        minv = 2 if "check" in k else 3
        offs = 16 if "check" in k else 32
        vsets = [(minv + 1, xor_full, 0), (minv, xor_sub, offs), (minv + 3, xor_sub, 0), (8, xor_sub, offs)]
        if not quick:
            vsets += [(12, xor_sub, 0), (20, xor_sub[:40], offs), (minv + 1, xor_full, offs)]
        for vects, lens, off in vsets:
            for i, ls in enumerate(chunks(lens, 24 if quick else 16)):
                qs.append(Query("x86/%s/v%d/len%d-%d/o%d" % (k, vects, ls[0], ls[-1], off), R,
                                dict(kernel=k, cases=[[vects, n, off] for n in ls]), core=(i == 0 and vects == minv + 1),
                                family="x86/" + k, weight=vects * ls[-1]))
        qs.append(Query("x86/%s/invalid" % k, R, dict(kernel=k, invalid=[[minv - 1, 64], [0, 64], [1, 64], [-1, 64], [-5, 0]]),
                        core=True, family="x86/%s/invalid" % k))
    pq_lens = [32 * i for i in range(0, 11 if quick else 21)]
    for k in ("pq_gen_sse", "pq_gen_avx", "pq_gen_avx2", "pq_gen_avx512"):
        vs = [4, 5, 6, 8] if quick else [4, 5, 6, 7, 8, 10, 12, 20]
        for vects in vs:
            for off in ([0] if quick and vects != 5 else [0, 32]):
                for i, ls in enumerate(chunks(pq_lens, 4)):
                    qs.append(Query("x86/%s/v%d/len%d-%d/o%d" % (k, vects, ls[0], ls[-1], off), R,
                                    dict(kernel=k, cases=[[vects, n, off] for n in ls]), core=(i == 0 and vects == 4),
                                    family="x86/" + k, weight=vects * ls[-1]))
        bad_len = [8, 24, 33, 47] if k in ("pq_gen_sse", "pq_gen_avx") else [8, 16, 24, 33, 48]
        qs.append(Query("x86/%s/invalid" % k, R, dict(kernel=k, invalid=[[3, 64], [0, 64], [2, 64], [-1, 64]] + [[6, b] for b in bad_len]),
                        core=True, family="x86/%s/invalid" % k))
    chk_lens = [16 * i for i in range(0, 11 if quick else 17)]
    for vects in ([4, 5, 6] if quick else [4, 5, 6, 8, 10]):
        for off in ([0] if quick and vects != 5 else [0, 16]):
            for i, ls in enumerate(chunks(chk_lens, 3)):
                qs.append(Query("x86/pq_check_sse/v%d/len%d-%d/o%d" % (vects, ls[0], ls[-1], off), R,
                                dict(kernel="pq_check_sse", cases=[[vects, n, off] for n in ls]), core=(i == 0 and vects == 4),
                                family="x86/pq_check_sse", weight=vects * ls[-1] * 5))
    qs.append(Query("x86/pq_check_sse/invalid", R, dict(kernel="pq_check_sse", invalid=[[3, 64], [0, 64], [2, 64], [-1, 64], [6, 8], [6, 24], [6, 33]]),
                    core=True, family="x86/pq_check_sse/invalid"))
    info = dict(
        functions_encoded=["xor_gen_{sse,avx,avx512}", "pq_gen_{sse,avx,avx2,avx512}", "xor_check_sse", "pq_check_sse (machine code: nasm -> ld -> objdump)"],
        bounds={"xor len": "every 0..%d for one vects value, sub-ranges for the others" % xor_full[-1], "pq_gen len": pq_lens, "pq_check len": chk_lens,
                "vects": "3/4..8 quick, ..20 thorough", "alignment": "vector bases at 32-byte (gen) / 16-byte (check) aligned addresses, offsets {0,32} / {0,16} mod 64",
                "data": "all bytes of all vectors symbolic; check kernels: every feasible path (fork on each ptest/jnz)"},
        stubs=[], assumptions=["x86 instruction semantics of vlib/x86sym (validated each run against native execution on concrete inputs)",
                               "int arguments arrive sign-extended in 64-bit registers (as gcc/clang pass them)",
                               "specification: P = xor of sources, Q = Horner evaluation with x2 = (b<<1)^(0x1d if b&0x80) i.e. GF(2^8)/0x11D"],
        outside=["vects beyond the swept set (up to 257 allowed by the API)", "longer vectors (loop periodicity not proved)", "*_i32.asm (32-bit build only)"])
    return qs, info
