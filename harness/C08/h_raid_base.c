/* C08, portable-C half: raid/raid_base.c against the byte-wise specification
 *      P[i] = XOR_j D_j[i]           Q[i] = XOR_j 2^j * D_j[i]   over GF(2^8)/0x11D  (spec_gf_mul)
 * VECTS and LEN are concrete per query; all buffer contents are symbolic; every vector is its own
 * exact-size heap object (an access outside [0,LEN) of any vector is a CBMC/ASan failure).
 *
 *   H_PQ_GEN     pq_gen_base   (SWAR multiply-by-2 on unsigned long words; LEN multiple of 8)
 *   H_XOR_GEN    xor_gen_base
 *   H_PQ_CHECK   pq_check_base   ret == 0  <=>  P and Q consistent   (both directions)
 *   H_XOR_CHECK  xor_check_base  ret == 0  <=>  XOR of all vectors is 0 at every offset
 *   H_ARGS       vects below the documented minimum (symbolic, any int) => non-zero, nothing touched
 *   H_REBUILD    2^i != 2^j, 2^i != 0 for all 0 <= i < j <= 254 (two-loss system non-singular)
 */
#include "verif.h"
#include <stdlib.h>
#include "gf256.h"
#include "raid.h"

int pq_gen_base(int vects, int len, void **array);
int pq_check_base(int vects, int len, void **array);
int xor_gen_base(int vects, int len, void **array);
int xor_check_base(int vects, int len, void **array);

#ifndef VECTS
#define VECTS 4
#endif
#ifndef LEN
#define LEN 8
#endif
#define LEN1 (LEN > 0 ? LEN : 1)

struct inputs {
        uint8_t d[VECTS][LEN1];
        int vects, len;
        uint8_t i, j;
};
DECLARE_INPUTS

static uint8_t
spec_pow2(unsigned e)
{
        uint8_t r = 1;
        for (unsigned t = 0; t < 254; t++)
                if (t < e)
                        r = spec_gf_mul(r, 2);
        return r;
}

/* definition (not Horner): sum over the data vectors 0..nd-1 */
static uint8_t
spec_p(int nd, int i)
{
        uint8_t p = 0;
        for (int j = 0; j < nd; j++)
                p ^= I.d[j][i];
        return p;
}
static uint8_t
spec_q(int nd, int i)
{
        uint8_t q = 0, g = 1;
        for (int j = 0; j < nd; j++) {
                q ^= spec_gf_mul(g, I.d[j][i]);
                g = spec_gf_mul(g, 2); /* concrete: 2^j */
        }
        return q;
}

void
harness(void)
{
        VERIF_INPUTS();
#if defined(H_REBUILD)
        VASSUME(I.i < I.j && I.j <= 254);
        uint8_t a = spec_pow2(I.i), b = spec_pow2(I.j);
        VASSERT(a != 0 && b != 0, "2^i != 0: a single lost block is recoverable from Q alone");
        VASSERT(a != b, "2^i != 2^j: det [[1,1],[2^i,2^j]] != 0, two lost blocks are recoverable");
        /* and the determinant has an inverse: (a^b)*x == 1 is solvable <=> a^b != 0 in a field (C12) */
#elif defined(H_ARGS)
        void *arr[4] = { 0, 0, 0, 0 }; /* NULL vectors: any access is a failure */
#if defined(ARGS_PQ_GEN)
        VASSUME(I.vects < 4);
        VASSERT(pq_gen_base(I.vects, I.len, arr) != 0, "pq_gen_base: vects < 4 => non-zero");
#elif defined(ARGS_PQ_CHECK)
        VASSUME(I.vects < 4);
        VASSERT(pq_check_base(I.vects, I.len, arr) != 0, "pq_check_base: vects < 4 => non-zero");
#elif defined(ARGS_XOR_GEN)
        VASSUME(I.vects < 3);
        VASSERT(xor_gen_base(I.vects, I.len, arr) != 0, "xor_gen_base: vects < 3 => non-zero");
#else
        VASSUME(I.vects < 2);
        VASSERT(xor_check_base(I.vects, I.len, arr) != 0, "xor_check_base: vects < 2 => non-zero");
#endif
#else
        void *arr[VECTS];
        unsigned char *v[VECTS];
        for (int j = 0; j < VECTS; j++) {
                arr[j] = v[j] = malloc(LEN);
                for (int i = 0; i < LEN; i++)
                        v[j][i] = I.d[j][i];
        }
#if defined(H_PQ_GEN)
        int ret = pq_gen_base(VECTS, LEN, arr);
        VASSERT(ret == 0, "pq_gen_base returns 0");
        for (int i = 0; i < LEN; i++) {
                VASSERT(v[VECTS - 2][i] == spec_p(VECTS - 2, i), "P[i] == xor of sources");
                VASSERT(v[VECTS - 1][i] == spec_q(VECTS - 2, i), "Q[i] == sum 2^j * D_j[i]");
        }
        for (int j = 0; j < VECTS - 2; j++)
                for (int i = 0; i < LEN; i++)
                        VASSERT(v[j][i] == I.d[j][i], "sources unchanged");
#elif defined(H_XOR_GEN)
        int ret = xor_gen_base(VECTS, LEN, arr);
        VASSERT(ret == 0, "xor_gen_base returns 0");
        for (int i = 0; i < LEN; i++)
                VASSERT(v[VECTS - 1][i] == spec_p(VECTS - 1, i), "dest[i] == xor of sources");
        for (int j = 0; j < VECTS - 1; j++)
                for (int i = 0; i < LEN; i++)
                        VASSERT(v[j][i] == I.d[j][i], "sources unchanged");
#elif defined(H_PQ_CHECK)
        int ret = pq_check_base(VECTS, LEN, arr);
        int consistent = 1;
        for (int i = 0; i < LEN; i++)
                if (I.d[VECTS - 2][i] != spec_p(VECTS - 2, i) || I.d[VECTS - 1][i] != spec_q(VECTS - 2, i))
                        consistent = 0;
        VASSERT((ret == 0) == consistent, "pq_check_base returns 0 <=> P,Q consistent");
        for (int j = 0; j < VECTS; j++)
                for (int i = 0; i < LEN; i++)
                        VASSERT(v[j][i] == I.d[j][i], "check does not modify the vectors");
#elif defined(H_XOR_CHECK)
        int ret = xor_check_base(VECTS, LEN, arr);
        int consistent = 1;
        for (int i = 0; i < LEN; i++)
                if (spec_p(VECTS, i) != 0)
                        consistent = 0;
        VASSERT((ret == 0) == consistent, "xor_check_base returns 0 <=> xor of all vectors is zero everywhere");
        for (int j = 0; j < VECTS; j++)
                for (int i = 0; i < LEN; i++)
                        VASSERT(v[j][i] == I.d[j][i], "check does not modify the vectors");
#else
#error no harness selected
#endif
#endif
        VREACHED();
}
VERIF_MAIN
