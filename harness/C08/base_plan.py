"""C08, engine A half: raid/raid_base.c (pq_gen_base, pq_check_base, xor_gen_base, xor_check_base)
against the byte-wise GF(2^8) specification, argument validation, rebuild lemma."""
from vlib.core import Query

R = "vlib.cbmc:cbmc_query"
H = "harness/C08/h_raid_base.c"
U = ["raid/raid_base.c"]


def _q(qid, hdef, unwind, core=False, fam=None, weight=1.0, witness=True, timeout=None):
    p = dict(harness=H, units=U, hdefines=hdef, unwind=unwind, witness=witness)
    if timeout:
        p["timeout"] = timeout
    return Query(qid, R, p, core=core, family=fam or qid.rsplit("/", 1)[0], weight=weight)


def base_queries(tier):
    quick = tier == "quick"
    qs = []
    if quick:
        pqg = [(v, l) for v in (4, 5, 6) for l in (0, 8, 16)]
        pqc = [(v, l) for v in (4, 6) for l in (0, 1, 3, 8, 16)]
        xg = [(v, l) for v in (3, 4, 6) for l in (0, 1, 7, 16)]
        xc = [(v, l) for v in (2, 3, 6) for l in (0, 1, 7, 16)]
    else:
        bl = (0, 1, 2, 3, 7, 8, 9, 15, 16)
        pqg = [(v, l) for v in (4, 5, 6) for l in (0, 8, 16, 24, 32)] + [(7, 16)]
        pqc = [(v, l) for v in (4, 5, 6) for l in bl] + [(6, 32), (7, 16)]
        xg = [(v, l) for v in (3, 4, 5, 6) for l in bl] + [(6, 32), (8, 16)]
        xc = [(v, l) for v in (2, 3, 4, 5, 6) for l in bl] + [(6, 32), (8, 16)]
    for (name, hd, lst, corepick) in (("pq_gen", "H_PQ_GEN", pqg, (6, 16)), ("pq_check", "H_PQ_CHECK", pqc, (6, 16)),
                                      ("xor_gen", "H_XOR_GEN", xg, (6, 16)), ("xor_check", "H_XOR_CHECK", xc, (6, 16))):
        for (v, l) in lst:
            qs.append(_q("base/%s/v%d_len%d" % (name, v, l), [hd, "VECTS=%d" % v, "LEN=%d" % l], max(l, v, 8) + 2,
                         core=((v, l) == corepick), weight=1 + v * l / 10.0, witness=(l > 0) or name.endswith("check"),
                         timeout=None if quick else 600))
    for a in ("PQ_GEN", "PQ_CHECK", "XOR_GEN", "XOR_CHECK"):
        qs.append(_q("base/args/%s" % a.lower(), ["H_ARGS", "ARGS_" + a], 2, core=True, fam="base/args"))
    qs.append(_q("base/rebuild/pow2_distinct", ["H_REBUILD"], 256, core=True, fam="base/rebuild", weight=8))
    info = dict(
        functions_encoded=["pq_gen_base", "pq_check_base", "xor_gen_base", "xor_check_base (raid/raid_base.c)"],
        bounds={"vects": "pq: 4..6, xor_gen: 3..6, xor_check: 2..6 (thorough: +7/8 at len 16)",
                "len": "pq_gen_base: multiples of 8 in 0..16 (thorough 0..32) -- it works on unsigned long words, len/8 blocks; "
                       "byte-wise functions: {0,1,3,7,8,16} (thorough {0,1,2,3,7,8,9,15,16,32}); all contents symbolic; "
                       "every vector an exact-size heap object",
                "args": "vects any int below the minimum (symbolic), len any int (symbolic), all vector pointers NULL",
                "rebuild": "all 0 <= i < j <= 254 symbolic: 2^i != 0, 2^i != 2^j over spec_gf_mul"},
        stubs=[],
        assumptions=["pq_gen_base is only called with len a multiple of sizeof(long) (documented: multiple of 32); for other len it "
                     "returns 0 and leaves the last len%8 bytes of P and Q unwritten (observed, outside the documented domain)",
                     "unsigned long is 64 bit (x86_64 build)"],
        outside=["vects > 6 (8) and len > 16 (32) for the portable functions", "vects up to 257",
                 "the actual rebuild arithmetic (ISA-L has no rebuild routine; only solvability of the 1- and 2-loss systems is decided)"])
    return qs, info
