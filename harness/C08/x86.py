"""C08 engine-B queries: RAID xor/pq generation and check kernels executed symbolically from machine code."""
import random
import time
import z3
from vlib.core import HOLDS, VIOLATED, UNDECIDED, ERROR
from vlib.x86sym import loader, bv
from vlib.x86sym.interp import Exec
from vlib.x86sym.machine import Violation, Unsupported
from vlib.x86sym.runner import Setup, build_native_driver, validate_concrete, run_native, native_crash_replay, region_bytes, smt_check

KERNELS = {
    "xor_gen_sse": ("raid/xor_gen_sse.asm", "xor", "gen", 3), "xor_gen_avx": ("raid/xor_gen_avx.asm", "xor", "gen", 3),
    "xor_gen_avx512": ("raid/xor_gen_avx512.asm", "xor", "gen", 3),
    "pq_gen_sse": ("raid/pq_gen_sse.asm", "pq", "gen", 4), "pq_gen_avx": ("raid/pq_gen_avx.asm", "pq", "gen", 4),
    "pq_gen_avx2": ("raid/pq_gen_avx2.asm", "pq", "gen", 4), "pq_gen_avx512": ("raid/pq_gen_avx512.asm", "pq", "gen", 4),
    "xor_check_sse": ("raid/xor_check_sse.asm", "xor", "check", 2), "pq_check_sse": ("raid/pq_check_sse.asm", "pq", "check", 4),
}


def mul2(x):
    if bv.is_c(x):
        return ((x << 1) & 0xFF) ^ (0x1D if x & 0x80 else 0)
    return (x << 1) ^ z3.If(z3.Extract(7, 7, x) == 1, z3.BitVecVal(0x1D, 8), z3.BitVecVal(0, 8))


def bx(a, b):
    return bv.xor(8, a, b)


def spec_pq(srcs, i):
    """P and Q bytes at position i for the list of source byte lists"""
    p, q = 0, 0
    for s in reversed(srcs):
        q = bx(mul2(q), s[i])
        p = bx(p, s[i])
    return p, q


def mk_setup(img, func, kind, mode, vects, n, vecdata, guard=None, off=0):
    """vecdata: list of `vects` byte lists (len n)"""
    s = Setup(img, func, guard)
    nd = 1 if kind == "xor" else 2
    bases = []
    for j in range(vects):
        is_dest = mode == "gen" and j >= vects - nd
        bases.append(s.region("v%d" % j, n, r=True, w=is_dest, init=vecdata[j], offset=off))
    ptrs = []
    for b in bases:
        ptrs.extend(bv.split_bytes(64, b))
    arr = s.region("array", 8 * vects, r=True, w=False, init=ptrs)
    s.args = [vects, n, arr]
    s.bases = bases
    return s


def model_bytes(m, vecs):
    return [[(m.eval(b, model_completion=True).as_long() if not bv.is_c(b) else b) for b in v] for v in vecs]


def raid_one(name, vects, n, ctx, img, exe, off=0):
    path, kind, mode, minv = KERNELS[name]
    nd = 1 if kind == "xor" else 2
    nsrc = vects - nd if (mode == "gen" or kind == "pq") else vects
    stats = {"variables": 0, "clauses": 0, "paths": 0}
    rnd = random.Random(vects * 1000 + n)
    # ---- translator validation on concrete data (consistent and random)
    validated = 0
    for trial in range(2):
        vd = [[rnd.randrange(256) for _ in range(n)] for _ in range(vects)]
        if trial == 0 and mode == "check":
            # make it consistent using the spec
            if kind == "xor":
                for i in range(n):
                    x = 0
                    for j in range(vects - 1):
                        x ^= vd[j][i]
                    vd[vects - 1][i] = x
            else:
                for i in range(n):
                    p, q = spec_pq(vd[:vects - 2], i)
                    vd[vects - 2][i], vd[vects - 1][i] = p, q
        ok, msg = validate_concrete(img, mk_setup(img, name, kind, mode, vects, n, vd, off=off), exe)
        if ok is False:
            return {"status": ERROR, "detail": "translator validation failed (%s vects=%d len=%d): %s" % (name, vects, n, msg)}
        validated += 1
    # ---- symbolic run
    vd = [[z3.BitVec("d%d_%d" % (j, i), 8) for i in range(n)] for j in range(vects)]
    solver = z3.SolverFor("QF_BV")
    ex = Exec(img, solver)
    setup = mk_setup(img, name, kind, mode, vects, n, vd, off=off)
    finals = ex.run(setup.initial_state())
    stats["paths"] = len(finals)
    stats["variables"] = ex.n_insns

    def viol(detail, st, extra_cond=None, crash=False):
        conds = list(st.path) + ([extra_cond] if extra_cond is not None else [])
        _, m = smt_check(conds)
        cex = model_bytes(m, vd)
        rep, rlog = None, ""
        if crash:
            ok, rlog = native_crash_replay(lambda g: mk_setup(img, name, kind, mode, vects, n, cex, g, off=off), exe)
            rep = True if ok else None
        else:
            s2 = mk_setup(img, name, kind, mode, vects, n, cex, off=off)
            rax, regs = run_native(exe, name, s2.args, s2.regions)
            rlog = "native rax=%s" % (rax,)
            rep = native_judge(kind, mode, vects, n, cex, rax, regs)
        return {"status": VIOLATED, "detail": detail + " | " + rlog, "cex": {"kernel": name, "vects": vects, "len": n, "off": off, "data": cex},
                "replay_ok": rep, "replay_log": rlog, "stats": stats, "validated_traces": validated}

    for st, out in finals:
        if isinstance(out, Violation):
            return viol("%s at %r (vects=%d len=%d)" % (out, out.insn, vects, n), st, crash=True)
        abi = setup.abi_check(st)
        if abi:
            return viol("ABI: " + abi, st)
        ret = bv.extract(st.r["rax"], 31, 0)
        ret0 = bv.eq(32, ret, 0)
        if mode == "gen":
            if not (bv.b_is_c(ret0) and ret0):
                return viol("generation returned non-zero for valid arguments", st)
            diffs = []
            srcs = vd[:vects - nd]
            for i in range(n):
                if kind == "xor":
                    want = [0]
                    for s_ in srcs:
                        want[0] = bx(want[0], s_[i])
                else:
                    want = list(spec_pq(srcs, i))
                for d in range(nd):
                    got = st.mem.b[setup.bases[vects - nd + d] + i]
                    if bv.is_c(got) and bv.is_c(want[d]):
                        if got != want[d]:
                            diffs.append(z3.BoolVal(True))
                    else:
                        diffs.append(bv.z(8, got) != bv.z(8, want[d]))
            # sources unchanged is implied by the access monitor (source regions are read-only)
            stats["clauses"] += len(diffs)
            B = 8  # bytes are independent: small batches keep each z3 query tiny
            for k in range(0, len(diffs), B):
                c = z3.Or(*diffs[k:k + B])
                r, _m = smt_check(st.path + [c])
                if r == z3.unknown:
                    return {"status": UNDECIDED, "detail": "z3 unknown", "stats": stats}
                if r == z3.sat:
                    return viol("parity bytes differ from specification (vects=%d len=%d)" % (vects, n), st, c)
        else:
            cons = []
            for i in range(n):
                if kind == "xor":
                    x = 0
                    for v in vd:
                        x = bx(x, v[i])
                    cons.append(bv.z(8, x) == 0)
                else:
                    p, q = spec_pq(vd[:vects - 2], i)
                    cons.append(bv.z(8, p) == vd[vects - 2][i])
                    cons.append(bv.z(8, q) == vd[vects - 1][i])
            consistent = z3.And(*cons) if cons else z3.BoolVal(True)
            r0 = ret0 if not bv.b_is_c(ret0) else z3.BoolVal(ret0)
            stats["clauses"] += 1
            r, _m = smt_check(st.path + [r0 != consistent])
            if r == z3.unknown:
                return {"status": UNDECIDED, "detail": "z3 unknown", "stats": stats}
            if r == z3.sat:
                return viol("check verdict wrong: ret==0 is not equivalent to parity-consistent (vects=%d len=%d)" % (vects, n), st, r0 != consistent)
    return {"status": HOLDS, "stats": stats, "validated_traces": validated}


def native_judge(kind, mode, vects, n, data, rax, regs):
    """independent concrete re-evaluation of the property on the native result: True = violation reproduced"""
    if rax is None:
        return None
    nd = 1 if kind == "xor" else 2
    if mode == "gen":
        if rax & 0xffffffff:
            return True
        for i in range(n):
            if kind == "xor":
                x = 0
                for j in range(vects - 1):
                    x ^= data[j][i]
                if regs[vects - 1][i] != x:
                    return True
            else:
                p, q = spec_pq(data[:vects - 2], i)
                if regs[vects - 2][i] != p or regs[vects - 1][i] != q:
                    return True
        return False
    cons = True
    for i in range(n):
        if kind == "xor":
            x = 0
            for j in range(vects):
                x ^= data[j][i]
            cons &= x == 0
        else:
            p, q = spec_pq(data[:vects - 2], i)
            cons &= (p == data[vects - 2][i] and q == data[vects - 1][i])
    return ((rax & 0xffffffff) == 0) != cons


def raid_invalid(name, vects, n, ctx, img, exe, zext=False):
    """argument combinations outside the documented minimum: non-zero return and NO memory access
    (nothing is mapped: any access is a violation).  zext: a negative `int vects` arrives the way compiled C callers
    pass it (32-bit register write => upper half of rdi zero), not sign-extended."""
    s = Setup(img, name)
    s.args = [(vects & 0xffffffff) if zext else (vects & bv.mask(64)), n, 0x5000000]  # array pointer points to unmapped memory
    ex = Exec(img)
    finals = ex.run(s.initial_state())
    for st, out in finals:
        if isinstance(out, Violation):
            return {"status": VIOLATED, "detail": "invalid arguments (vects=%d len=%d) touch memory: %s at %r" % (vects, n, out, out.insn),
                    "cex": {"kernel": name, "vects": vects, "len": n}, "replay_ok": None}
        ret = bv.extract(st.r["rax"], 31, 0)
        if not bv.is_c(ret) or ret == 0:
            return {"status": VIOLATED, "detail": "invalid arguments (vects=%d len=%d) accepted (ret=0)" % (vects, n),
                    "cex": {"kernel": name, "vects": vects, "len": n}, "replay_ok": None}
    return {"status": HOLDS, "stats": {"paths": len(finals), "variables": ex.n_insns}}


def raid_query(qid, params, ctx):
    """params: kernel, cases: list of [vects, len], invalid: list of [vects,len]"""
    name = params["kernel"]
    t0 = time.time()
    try:
        img = loader.build_image(ctx["repo"], [KERNELS[name][0]], ctx["scratch"])
        exe = build_native_driver(img, [name], ctx["scratch"] + "/x86", name)
        agg = {"variables": 0, "clauses": 0, "paths": 0}
        val = 0
        for case in params.get("cases", []):
            vects, n = case[0], case[1]
            r = raid_one(name, vects, n, ctx, img, exe, off=(case[2] if len(case) > 2 else 0))
            for k in agg:
                agg[k] += r.get("stats", {}).get(k, 0)
            val += r.get("validated_traces", 0)
            if r["status"] != HOLDS:
                return r
        for vects, n in params.get("invalid", []):
            r = raid_invalid(name, vects, n, ctx, img, exe)
            for k in agg:
                agg[k] += r.get("stats", {}).get(k, 0)
            if r["status"] != HOLDS:
                return r
        # last (a finding here must not hide the cases above): negative vects as a compiled caller passes it
        for vects, n in [(v, l) for v, l in params.get("invalid", []) if v < 0][:1]:
            r = raid_invalid(name, vects, n, ctx, img, exe, zext=True)
            if r["status"] != HOLDS:
                r["finding_key"] = "negative-vects-zero-extended:%s" % name
                r["detail"] = "negative vects passed as a 32-bit int (rdi = 0x%08x, upper half zero) is taken as a huge count: %s" % (vects & 0xffffffff, r.get("detail"))
                r["stats"] = agg
                r["validated_traces"] = val
                return r
    except Unsupported as e:
        return {"status": ERROR, "detail": "outside encodable class: %s" % e}
    return {"status": HOLDS, "stats": agg, "validated_traces": val, "solver_time_s": time.time() - t0, "witness_ok": agg["paths"] > 0}
