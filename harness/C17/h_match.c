/* C17(a): candidate filter and position arithmetic of the level-0 base match finders
 * isal_deflate_finish_base / isal_deflate_body_base (igzip_base.c), entered mid-stream, observing the
 * (distance symbol, extra bits, match length) each match actually hands to the bit writer.
 *
 * Abstractions, made WITHOUT touching /repo (headers with include guards are included first, then
 * function-like macros redirect the calls made by the text of igzip_base.c and of huffman.h, which has
 * no guard and is parsed only inside igzip_base.c):
 *   load_le_u32 / load_le_u64 -> arbitrary value per call after asserting the bytes lie inside the stream
 *                                [file_start, end_in)  (so hash inputs, literals and compare258's 8-byte
 *                                chunk comparisons are arbitrary: every match length is possible)
 *   compute_hash              -> huffman.h's __SSE4_2__ variant with the intrinsic _mm_crc32_u32 supplied here.
 *                                Default: a CONSTANT (every position shares one head slot, whose initial
 *                                content is arbitrary): the candidate distance of the first position is an
 *                                arbitrary 16-bit value, later candidates are the previously hashed
 *                                positions.  -DHASH_ARBITRARY (an arbitrary value per call = any hash
 *                                function) was measured out of reach: OOM at 12-16 GB in 70-90 s even with
 *                                a 1000-byte arena, because every symbolic-index update of head[] makes
 *                                CBMC re-encode the whole 82 KB struct isal_zstream.
 *   write_bits                -> OBSERVATION POINT, emits nothing.  The Huffman tables given to the kernel
 *                                are an identity coding (dist symbol s -> 5-bit code s, length L -> 8-bit
 *                                code L-3, literal -> 9-bit code), so the bits handed to write_bits spell out
 *                                the emitted symbols; the distance is rebuilt from (symbol, extra) with the
 *                                RFC 1951 tables and must satisfy 1 <= d <= 2^hist_bits, d <= 32768,
 *                                d <= current position (never before the first byte of the stream).
 * The input arena is a never-written zero array (only compare258's sub-8-byte tails read it directly),
 * so no arbitrary 33 KB array is indexed symbolically - that was the cost in round 0 (OOM at 30 GB).
 * Symbolic: position total_in (0..ARENA), hist_bits 9..15, the head slot's content (any earlier position of
 * the stream, low 16 bits), all loaded values.  Concrete: AVAIL_IN.
 */
#include "verif.h"
#include "rfc1951.h"
#include <assert.h>
#include "igzip_lib.h"
#include "unaligned.h"
#include "bitbuf2.h"

#ifndef AVAIL_IN
#define AVAIL_IN 8
#endif
#define ARENA 40000
#define NND 96
#ifndef HASH_CONST
#define HASH_CONST 5
#endif

struct inputs {
        uint32_t total_in; /* position of next_in in the stream */
        uint16_t hist_bits;
        uint32_t hslot;
        uint32_t prev_pos; /* the head slot holds an EARLIER position of this stream (mod 2^16) */
        uint64_t nd[NND]; /* arbitrary values handed out by the stubs, in call order */
};
DECLARE_INPUTS

static uint8_t arena[ARENA + AVAIL_IN];
static struct isal_zstream s;
static struct isal_hufftables T;
static uint8_t outbuf[64];
static unsigned nd_i;
static uint8_t *g_file_start, *g_end_in;
static uint32_t g_dist_mask;
static unsigned n_matches, n_lits;

static uint64_t
next_nd(void)
{
        uint64_t v = I.nd[nd_i % NND];
        nd_i++;
        return v;
}
static uint32_t
v_load_le_u32(const uint8_t *p)
{
        VASSERT(p >= g_file_start && p + 4 <= g_end_in, "4-byte load lies inside the stream bytes available");
        return (uint32_t) next_nd();
}
static uint64_t
v_load_le_u64(const uint8_t *p)
{
        VASSERT(p >= g_file_start && p + 8 <= g_end_in, "8-byte load lies inside the stream bytes available");
        return next_nd();
}
static void
v_write_bits(struct BitBuf2 *me, uint64_t code, uint32_t count)
{
        (void) me;
        if (count == 9) { /* literal or end-of-block */
                VASSERT(code <= 256, "literal/EOB symbol");
                n_lits++;
                return;
        }
        VASSERT(count >= 13 && count <= 13 + 13, "match: 8 length bits + 5 distance-symbol bits + extra bits");
        uint32_t length = (uint32_t) (code & 0xff) + 3;
        uint32_t sym = (uint32_t) (code >> 8) & 31, nb = count - 13;
        uint64_t extra = code >> 13;
        n_matches++;
        VASSERT(length >= 3 && length <= 258, "emitted match length 3..258");
        VASSERT(sym < 30, "emitted distance symbol is one of the 30 defined");
        if (sym < 30) {
                VASSERT(nb == rfc_dist_extra[sym] && extra < (1ull << nb), "extra-bit count of the distance symbol per RFC 1951");
                uint32_t dist = rfc_dist_base[sym] + (uint32_t) extra;
                VASSERT(dist >= 1 && dist <= g_dist_mask + 1, "emitted distance within the requested window 2^hist_bits");
                VASSERT(dist <= 32768, "emitted distance <= 32768");
        }
}
#define load_le_u32(p)      v_load_le_u32(p)
#define load_le_u64(p)      v_load_le_u64(p)
#define write_bits(b, c, n) v_write_bits(b, c, n)
#ifndef __SSE4_2__
#define __SSE4_2__ 1
#endif
static inline unsigned int
_mm_crc32_u32(unsigned int c, unsigned int d)
{
        (void) c, (void) d;
#ifdef HASH_ARBITRARY
        return (unsigned int) next_nd();
#else
        return HASH_CONST; /* see header comment: single-slot hash */
#endif
}
#include "igzip_base.c"
#undef load_le_u32
#undef load_le_u64
#undef write_bits

void
harness(void)
{
        VERIF_INPUTS();
        struct isal_zstate *st = &s.internal_state;
        VASSUME(I.hist_bits >= 9 && I.hist_bits <= 15);
        VASSUME(I.total_in <= ARENA);
        /* invariant of the head table (reset_match_history / earlier iterations): every entry is the low 16
         * bits of a position <= the current one */
        VASSUME(I.prev_pos <= I.total_in);
        uint16_t hval = (uint16_t) I.prev_pos;
        /* identity coding (see header comment) */
        for (int i = 0; i < 30 - IGZIP_DECODE_OFFSET; i++)
                T.dcodes[i] = (uint16_t) (i + IGZIP_DECODE_OFFSET), T.dcodes_sizes[i] = 5;
        for (int i = 0; i < IGZIP_DIST_TABLE_SIZE && i < 2; i++)
                T.dist_table[i] = ((uint32_t) i << 5) | 5; /* distances 1,2 = symbols 0,1, no extra bits */
        for (int i = 0; i < IGZIP_LEN_TABLE_SIZE; i++)
                T.len_table[i] = ((uint32_t) i << 5) | 8;
        for (int i = 0; i < IGZIP_LIT_TABLE_SIZE; i++)
                T.lit_table[i] = (uint16_t) i, T.lit_table_sizes[i] = 9;

        s.next_in = arena + I.total_in;
        s.avail_in = AVAIL_IN;
        s.total_in = I.total_in;
        s.next_out = outbuf;
        s.avail_out = sizeof(outbuf);
        s.total_out = 0;
        s.hufftables = &T;
        s.level = 0;
        s.end_of_stream = 1;
        s.flush = NO_FLUSH;
        s.hist_bits = I.hist_bits;
        st->dist_mask = (1u << I.hist_bits) - 1; /* what set_dist_mask stores (checked in zlib_hdr/unit) */
        st->hash_mask = LVL0_HASH_MASK;
        st->state = ZSTATE_BODY;
        st->has_hist = IGZIP_HIST;
#ifdef HASH_ARBITRARY
        st->head[I.hslot % IGZIP_LVL0_HASH_SIZE] = hval;
#else
        st->head[HASH_CONST & LVL0_HASH_MASK] = hval;
#endif
        g_file_start = arena;
        g_end_in = arena + I.total_in + AVAIL_IN;
        g_dist_mask = st->dist_mask;
        uint32_t tin0 = s.total_in;
#ifdef H_BODY
        isal_deflate_body_base(&s);
#else
        isal_deflate_finish_base(&s);
#endif
        VASSERT(s.total_in >= tin0 && s.total_in - tin0 + s.avail_in == AVAIL_IN && s.next_in == arena + s.total_in,
                "input accounting consistent");
#ifndef H_BODY
        VASSERT(s.avail_in == 0, "finish kernel consumes all input when the output is large enough");
#endif
        VREACHED();
}
VERIF_MAIN
