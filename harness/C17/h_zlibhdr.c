/* C17(b): the zlib header announces a window at least as large as the one the match finders use.
 *   default : set_dist_mask (as every API path runs it before the header is produced) followed by
 *             _zlib_header_in_buffer, hist_bits (all 2^16 values) and level (all 2^32) symbolic.
 *   H_API   : the same through the public one-shot API isal_deflate_stateless (level 0, empty input,
 *             IGZIP_ZLIB), hist_bits symbolic.
 * RFC 1950: CM = 8, CINFO <= 7, window = 2^(CINFO+8), (CMF*256+FLG) % 31 == 0, FDICT as requested. */
#include "harness/C17/deflate_common.h"

struct inputs {
        uint16_t hist_bits;
        uint32_t level;
};
DECLARE_INPUTS

static struct isal_zstream s;

static void
check_header(uint8_t cmf, uint8_t flg, uint32_t dist_mask, uint32_t level)
{
        uint32_t cinfo = cmf >> 4;
        VASSERT((cmf & 0x0f) == 8, "CM == 8 (deflate)");
        VASSERT(cinfo <= 7, "CINFO <= 7");
        VASSERT(((uint32_t) cmf * 256 + flg) % 31 == 0, "FCHECK makes CMF*256+FLG a multiple of 31");
        VASSERT((flg & 0x20) == 0, "FDICT clear (no dictionary id follows)");
        VASSERT((uint64_t) dist_mask + 1 <= (1ull << (cinfo + 8)),
                "announced window 2^(CINFO+8) >= largest distance the match finders accept (dist_mask+1)");
        VASSERT(dist_mask + 1 <= 32768, "window used never exceeds 32 KiB");
        VASSERT((flg >> 6) == (level == 0 ? 0 : 1), "FLEVEL: 0 for level 0, 1 for levels 1-3");
}

void
harness(void)
{
        VERIF_INPUTS();
#ifndef H_API
        uint8_t buf[2];
        s.hist_bits = I.hist_bits;
        s.level = I.level;
        set_dist_mask(&s);
        _zlib_header_in_buffer(&s, buf);
        VASSERT(s.internal_state.dist_mask + 1 == (1u << s.hist_bits), "dist_mask = 2^hist_bits - 1 after clamping");
        if (I.hist_bits >= 1 && I.hist_bits <= 15)
                VASSERT(s.hist_bits == I.hist_bits, "a documented hist_bits is honoured as given");
        check_header(buf[0], buf[1], s.internal_state.dist_mask, I.level);
#else
        static uint8_t out[64];
        isal_deflate_stateless_init(&s);
        s.gzip_flag = IGZIP_ZLIB;
        s.hist_bits = I.hist_bits;
        s.level = 0;
        s.end_of_stream = 1;
        s.flush = NO_FLUSH;
        s.next_in = out; /* no input byte is ever read */
        s.avail_in = 0;
        s.next_out = out;
        s.avail_out = sizeof(out);
        int r = isal_deflate_stateless(&s);
        VASSERT(r == COMP_OK && s.total_out >= 2, "empty input compresses");
        check_header(out[0], out[1], s.internal_state.dist_mask, 0);
#endif
        VREACHED();
}
VERIF_MAIN
