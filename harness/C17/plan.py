from vlib.core import Query, Plan

R = "vlib.cbmc:cbmc_query"
# Build-speed only: include guards of gcc's <x86intrin.h>/<immintrin.h> (see harness/inflate_common/plans.py)
FAST = ["_X86INTRIN_H_INCLUDED", "_IMMINTRIN_H_INCLUDED"]
# everything igzip.c links against in the portable-C configuration (the harnesses #include igzip.c itself)
IGZIP_UNITS = ["igzip/igzip_base.c", "igzip/igzip_base_aliases.c", "igzip/igzip_icf_base.c", "igzip/igzip_icf_body.c",
               "igzip/hufftables_c.c", "igzip/huff_codes.c", "igzip/encode_df.c", "igzip/flatten_ll.c",
               "igzip/adler32_base.c", "igzip/proc_heap_base.c", "igzip/igzip_inflate.c", "crc/crc_base.c",
               "crc/crc_base_aliases.c"]
UF = ["--arrays-uf-always"]   # keeps the 64 KiB member arrays of isal_zstream out of the bit-blaster (2.4 M vars otherwise)


def q(qid, harness, hdef, core=False, witness=False, family=None, weight=1.0, **kw):
    p = dict(harness=harness, units=IGZIP_UNITS, defines=FAST, hdefines=hdef, witness=witness)
    p.update(kw)
    return Query(qid, R, p, core=core, family=family or qid.split("/")[0], weight=weight)


def plan(tier, ctx):
    quick = tier == "quick"
    qs = []
    # ---- (b) zlib header window announcement -----------------------------------------------------
    Z = "harness/C17/h_zlibhdr.c"
    qs.append(q("zlib_hdr/unit", Z, [], unwind=4, core=True, witness=True))
    qs.append(q("zlib_hdr/api_stateless", Z, ["H_API"], unwind=12, core=False, witness=True, weight=3))
    # ---- (c) dictionary calls ----------------------------------------------------------------------
    D = "harness/C17/h_dict.c"
    T = 400
    qs.append(q("set_dict/symbolic_len", D, ["H_SET", "DC_STUB_MEMCPY"], unwind=17, flags=UF, core=True, witness=True,
                weight=8, timeout=T))
    for n in ([0, 1, 5] if quick else [0, 1, 2, 3, 4, 5, 8, 16]):
        qs.append(q("set_dict/len%d" % n, D, ["H_SET", "DICT_LEN=%d" % n], unwind=max(17, n + 2), flags=UF, weight=6, timeout=T))
    for lvl in (0, 1, 2, 3):
        qs.append(q("reset_dict/level%d" % lvl, D,
                    ["H_RESET", "DC_STUB_MEMCPY", "LEVEL=%d" % lvl,
                     "DC_LEVEL_BUF_SIZE=%s" % ("ISAL_DEF_LVL%d_MIN" % lvl if lvl else "64")],
                    unwind=17, flags=UF, core=(lvl in (0, 3)), witness=(lvl in (0, 3)), weight=5, timeout=T))
    qs.append(q("reset_dict/bad_level", D, ["H_RESET", "DC_STUB_MEMCPY", "BAD_LEVEL"], unwind=17, flags=UF, weight=5, timeout=T))
    qs.append(q("process_dict/symbolic_len", D, ["H_PROCESS", "DC_STUB_MEMCPY"], unwind=17, flags=UF, core=True, witness=True,
                weight=10, timeout=T))
    for n in ([1, 5] if quick else [1, 2, 3, 4, 5, 8]):
        qs.append(q("process_dict/len%d" % n, D, ["H_PROCESS", "DICT_LEN=%d" % n], unwind=17, flags=UF, weight=3, timeout=T))
    ID = "harness/C17/h_infdict.c"
    INF_UNITS = ["igzip/hufftables_c.c"]
    qs.append(Query("inflate_set_dict/symbolic_len", R,
                    dict(harness=ID, units=INF_UNITS, defines=FAST, hdefines=["IC_STUB_MEMCPY"], unwind=3, flags=UF, witness=True),
                    core=True, family="inflate_set_dict", weight=5))
    for n in ([0, 5] if quick else [0, 1, 2, 5, 8]):
        qs.append(Query("inflate_set_dict/len%d" % n, R,
                        dict(harness=ID, units=INF_UNITS, defines=FAST, hdefines=["DICT_LEN=%d" % n], unwind=max(3, n + 2), flags=UF),
                        family="inflate_set_dict", weight=3))
    # ---- (d) hash priming ----------------------------------------------------------------------------
    for n in ([0, 3, 4, 8] if quick else list(range(0, 9))):
        for mask in ((15,) if quick or n != 8 else (15, 63)):  # measured: mask 255 > 150 s, mask 8191 OOM at 8 GB
            core = (n, mask) == (8, 15)
            qs.append(Query("hash_base/len%d_mask%d" % (n, mask), R,
                            dict(harness="harness/C17/h_hash.c",
                                 units=["igzip/igzip.c"] + [u for u in IGZIP_UNITS if u != "igzip/igzip_base.c"], defines=FAST,
                                 hdefines=["DICT_LEN=%d" % n, "MASK=%d" % mask], unwind=max(10, min(mask, 64) + 3),
                                 unwindset=["harness.2:%d" % (mask + 2), "harness.3:%d" % (mask + 2)], witness=core),
                            core=core, family="hash_base", weight=2))
    # ---- (a) match-finder candidate filter / position arithmetic (constant-hash abstraction) -------------
    MU = [u for u in IGZIP_UNITS if u != "igzip/igzip_base.c"] + ["igzip/igzip.c"]
    # (isal_deflate_body_base needs avail_in > ISAL_LOOK_AHEAD = 288: -DH_BODY -DAVAIL_IN=292 gave no verdict in 30 min;
    #  the flavour stays in the harness but is not scheduled)
    for kern, tag in (("", "finish"),):
        for ai in ([8] if quick else ([4, 5, 8, 9, 12] if not kern else [292])):
            core = ai == 8
            qs.append(Query("match_%s/avail%d" % (tag, ai), R,
                            dict(harness="harness/C17/h_match.c", units=MU, defines=FAST, hdefines=["AVAIL_IN=%d" % ai] + ([kern] if kern else []),
                                 unwind=max(10, ai + 2),
                                 unwindset=["harness.0:31", "harness.1:31", "harness.2:3", "harness.3:258", "harness.4:259",
                                            "harness.5:259", "compare258.0:%d" % (min(ai, 258) // 8 + 2)],
                                 witness=core, timeout=(600 if quick else 2400)), core=core, family="match_" + tag, weight=20))
    return Plan(
        "C17", "model_checking", qs,
        functions_encoded=["set_dist_mask", "_zlib_header_in_buffer", "isal_deflate_stateless (zlib header path, empty input)",
                           "isal_deflate_set_dict", "isal_deflate_reset_dict", "check_level_req", "isal_deflate_process_dict",
                           "isal_inflate_set_dict", "isal_deflate_hash_base",
                           "isal_deflate_finish_base (+ compare258, get_len_code, get_dist_code, compute_dist_code, update_state) "
                           "with loads/hash/bit emission abstracted"],
        bounds={
            "zlib header": "hist_bits all 2^16 values, level all 2^32 values (unit); hist_bits symbolic, level 0, empty input (API)",
            "dictionary calls": "dict_len SYMBOLIC 0..70000 with the payload copy recorded (src/dst/len) instead of performed, plus "
                                "concrete lengths 0,1,5 (thorough 0..5,8,16) with the real memcpy and byte comparison; every scalar "
                                "field of the stream (state over the whole enum, b_bytes_*, level, level_buf NULL/non-NULL, "
                                "level_buf_size, has_hist, ...) and of struct isal_dict (process_dict: arbitrary previous contents of the OUTPUT struct incl. level > 3) arbitrary; reset_dict per level 0..3 with a "
                                "level buffer object of exactly ISAL_DEF_LVLn_MIN bytes, and level > 3",
            "match finder (a)": "avail_in 8 quick (4,5,8,9,12 thorough); stream position total_in symbolic "
                                "0..40000; hist_bits symbolic 9..15; head slot = any earlier position; every loaded value arbitrary",
            "isal_deflate_hash_base": "dict_len 0..8, hash_mask 15 (63), current_index all 2^32, dictionary bytes arbitrary",
        },
        stubs=["memcpy (symbolic-length flavours, CBMC only): records (dst, src, n) after asserting r_ok/w_ok of both ranges, moves no bytes",
               "isal_deflate_hash_lvl0..3 as called from isal_deflate_process_dict: recording stub (arguments asserted); the real "
               "isal_deflate_hash_base is checked separately",
               "hash function in the hash_base harness: arbitrary 32-bit value per call (huffman.h's __SSE4_2__ variant of compute_hash with "
               "the intrinsic _mm_crc32_u32 supplied by the harness) - sound for any hash function",
               "match finder (a): load_le_u32/load_le_u64 -> arbitrary value per call (after asserting the bytes lie inside the stream); "
               "write_bits -> observation point decoding (length, distance symbol, extra bits) from an identity Huffman table, emits nothing; "
               "compute_hash -> CONSTANT (single head slot with arbitrary initial content); the arbitrary-hash variant is out of reach "
               "(OOM 12-16 GB: every symbolic-index head[] update re-encodes the 82 KB struct isal_zstream)",
               "include guards _X86INTRIN_H_INCLUDED/_IMMINTRIN_H_INCLUDED predefined (build speed only)"],
        assumptions=["reset_dict: level_buf_size does not exceed the size of the object level_buf points to",
                     "big member arrays (buffer[], head[], history) are zero except one arbitrary element each (the observed one)",
                     "RFC 1950 CMF/FLG layout as written in the harness"],
        outside=["(a) is decided only under the constant-hash abstraction and only for isal_deflate_finish_base, level 0 "
                 "(isal_deflate_body_base with avail_in 292: no verdict in 30 min): interactions between different hash slots, the ICF finders (levels 1-3), gen_icf_map_h1_base and "
                 "dictionary-primed heads (isal_deflate_hash) are NOT covered; head entries are assumed to be earlier positions of the stream",
                 "end-to-end dictionary round trips; the assembly match finders and isal_deflate_hash asm variants",
                 "streaming isal_deflate header path (write_stream_header) beyond the shared _zlib_header_in_buffer",
                 "hash tables larger than 64 entries in the hash_base harness (bounds of table[hash & mask] follow from the mask)"],
        trusted_base=["cbmc 6.11 C front end + SAT back end"])
