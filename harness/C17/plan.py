from vlib.core import Query, Plan

R = "vlib.cbmc:cbmc_query"
FAST = ["_X86INTRIN_H_INCLUDED", "_IMMINTRIN_H_INCLUDED"]   # see harness/inflate_common/plans.py
# everything igzip.c links against in the portable-C configuration (the harnesses #include igzip.c itself)
IGZIP_UNITS = ["igzip/igzip_base.c", "igzip/igzip_base_aliases.c", "igzip/igzip_icf_base.c", "igzip/igzip_icf_body.c",
               "igzip/hufftables_c.c", "igzip/huff_codes.c", "igzip/encode_df.c", "igzip/flatten_ll.c",
               "igzip/adler32_base.c", "igzip/proc_heap_base.c", "igzip/igzip_inflate.c", "crc/crc_base.c",
               "crc/crc_base_aliases.c"]


def q(qid, harness, hdef, core=False, witness=False, family=None, weight=1.0, **kw):
    p = dict(harness=harness, units=IGZIP_UNITS, defines=FAST, hdefines=hdef, witness=witness)
    p.update(kw)
    return Query(qid, R, p, core=core, family=family or qid.split("/")[0], weight=weight)


def plan(tier, ctx):
    quick = tier == "quick"
    qs = []
    # (b) zlib header window announcement
    qs.append(q("zlib_hdr/unit", "harness/C17/h_zlibhdr.c", [], unwind=4, core=True, witness=True))
    qs.append(q("zlib_hdr/api_stateless", "harness/C17/h_zlibhdr.c", ["H_API"], unwind=12, core=False, witness=True, weight=3))
    # (c) dictionary calls
    D = "harness/C17/h_dict.c"
    UF = ["--arrays-uf-always"]
    qs.append(q("set_dict/symbolic_len", D, ["H_SET", "DC_STUB_MEMCPY"], unwind=17, flags=UF, core=True, witness=True, weight=5))
    for n in ([0, 1, 5] if quick else [0, 1, 2, 3, 4, 5, 8, 16]):
        qs.append(q("set_dict/len%d" % n, D, ["H_SET", "DICT_LEN=%d" % n], unwind=17, flags=UF, core=(n == 5), witness=(n == 5), weight=3))
    for lvl in (0, 1, 2, 3):
        qs.append(q("reset_dict/level%d" % lvl, D, ["H_RESET", "DC_STUB_MEMCPY", "LEVEL=%d" % lvl,
                                                    "DC_LEVEL_BUF_SIZE=%s" % ("ISAL_DEF_LVL%d_MIN" % lvl if lvl else "64")],
                    unwind=17, flags=UF, core=(lvl in (0, 3)), witness=(lvl in (0, 3)), weight=5))
    qs.append(q("reset_dict/bad_level", D, ["H_RESET", "DC_STUB_MEMCPY", "BAD_LEVEL"], unwind=17, flags=UF, weight=5))
    qs.append(q("process_dict/symbolic_len", D, ["H_PROCESS", "DC_STUB_MEMCPY"], unwind=17, flags=UF, core=True, witness=True, weight=5))
    for n in ([1, 5] if quick else [1, 2, 3, 4, 5, 8]):
        qs.append(q("process_dict/len%d" % n, D, ["H_PROCESS", "DICT_LEN=%d" % n], unwind=17, flags=UF, weight=3))
    ID = "harness/C17/h_infdict.c"
    INF_UNITS = ["igzip/hufftables_c.c"]
    qs.append(Query("inflate_set_dict/symbolic_len", R, dict(harness=ID, units=INF_UNITS, defines=FAST, hdefines=["IC_STUB_MEMCPY"],
                                                             unwind=3, flags=UF, witness=True), core=True, family="inflate_set_dict", weight=5))
    for n in ([0, 5] if quick else [0, 1, 2, 5, 8]):
        qs.append(Query("inflate_set_dict/len%d" % n, R, dict(harness=ID, units=INF_UNITS, defines=FAST, hdefines=["DICT_LEN=%d" % n],
                                                              unwind=3, flags=UF, witness=False), family="inflate_set_dict", weight=3))
    # (d) hash priming
    for n in ([0, 3, 4, 8] if quick else list(range(0, 9))):
        for mask in ((15,) if quick or n != 8 else (15, 63)):  # measured: mask 255 > 150 s, mask 8191 OOM at 8 GB
            core = (n, mask) == (8, 15)
            qs.append(Query("hash_base/len%d_mask%d" % (n, mask), R,
                            dict(harness="harness/C17/h_hash.c", units=["igzip/igzip.c"] + [u for u in IGZIP_UNITS if u != "igzip/igzip_base.c"], defines=FAST,
                                 hdefines=["DICT_LEN=%d" % n, "MASK=%d" % mask], unwind=max(10, min(mask, 64) + 3),
                                 unwindset=["harness.2:%d" % (mask + 2), "harness.3:%d" % (mask + 2)], witness=core), core=core, family="hash_base", weight=2))
    return Plan("C17", "model_checking", qs, functions_encoded=[], bounds={}, stubs=[], assumptions=[], outside=[])
