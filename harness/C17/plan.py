from vlib.core import Query, Plan

R = "vlib.cbmc:cbmc_query"
# Build-speed only: include guards of gcc's <x86intrin.h>/<immintrin.h> (see harness/inflate_common/plans.py)
FAST = ["_X86INTRIN_H_INCLUDED", "_IMMINTRIN_H_INCLUDED"]
# everything igzip.c links against in the portable-C configuration (the harnesses #include igzip.c itself)
IGZIP_UNITS = ["igzip/igzip_base.c", "igzip/igzip_base_aliases.c", "igzip/igzip_icf_base.c", "igzip/igzip_icf_body.c",
               "igzip/hufftables_c.c", "igzip/huff_codes.c", "igzip/encode_df.c", "igzip/flatten_ll.c",
               "igzip/adler32_base.c", "igzip/proc_heap_base.c", "igzip/igzip_inflate.c", "crc/crc_base.c",
               "crc/crc_base_aliases.c"]
UF = ["--arrays-uf-always"]   # keeps the 64 KiB member arrays of isal_zstream out of the bit-blaster (2.4 M vars otherwise)


def q(qid, harness, hdef, core=False, witness=False, family=None, weight=1.0, **kw):
    p = dict(harness=harness, units=IGZIP_UNITS, defines=FAST, hdefines=hdef, witness=witness)
    p.update(kw)
    return Query(qid, R, p, core=core, family=family or qid.split("/")[0], weight=weight)


def plan(tier, ctx):
    quick = tier == "quick"
    qs = []
    # ---- (b) zlib header window announcement -----------------------------------------------------
    Z = "harness/C17/h_zlibhdr.c"
    qs.append(q("zlib_hdr/unit", Z, [], unwind=4, core=True, witness=True))
    qs.append(q("zlib_hdr/api_stateless", Z, ["H_API"], unwind=12, core=False, witness=True, weight=3))
    # ---- (c) dictionary calls ----------------------------------------------------------------------
    D = "harness/C17/h_dict.c"
    T = 400
    qs.append(q("set_dict/symbolic_len", D, ["H_SET", "DC_STUB_MEMCPY"], unwind=17, flags=UF, core=True, witness=True,
                weight=8, timeout=T))
    for n in ([0, 1, 5] if quick else [0, 1, 2, 3, 4, 5, 8, 16]):
        qs.append(q("set_dict/len%d" % n, D, ["H_SET", "DICT_LEN=%d" % n], unwind=max(17, n + 2), flags=UF, weight=6, timeout=T))
    for lvl in (0, 1, 2, 3):
        qs.append(q("reset_dict/level%d" % lvl, D,
                    ["H_RESET", "DC_STUB_MEMCPY", "LEVEL=%d" % lvl,
                     "DC_LEVEL_BUF_SIZE=%s" % ("ISAL_DEF_LVL%d_MIN" % lvl if lvl else "64")],
                    unwind=17, flags=UF, core=(lvl in (0, 3)), witness=(lvl in (0, 3)), weight=5, timeout=T))
    qs.append(q("reset_dict/bad_level", D, ["H_RESET", "DC_STUB_MEMCPY", "BAD_LEVEL"], unwind=17, flags=UF, weight=5, timeout=T))
    qs.append(q("process_dict/symbolic_len", D, ["H_PROCESS", "DC_STUB_MEMCPY"], unwind=17, flags=UF, core=True, witness=True,
                weight=10, timeout=T))
    for n in ([1, 5] if quick else [1, 2, 3, 4, 5, 8]):
        qs.append(q("process_dict/len%d" % n, D, ["H_PROCESS", "DICT_LEN=%d" % n], unwind=17, flags=UF, weight=3, timeout=T))
    ID = "harness/C17/h_infdict.c"
    INF_UNITS = ["igzip/hufftables_c.c"]
    qs.append(Query("inflate_set_dict/symbolic_len", R,
                    dict(harness=ID, units=INF_UNITS, defines=FAST, hdefines=["IC_STUB_MEMCPY"], unwind=3, flags=UF, witness=True),
                    core=True, family="inflate_set_dict", weight=5))
    for n in ([0, 5] if quick else [0, 1, 2, 5, 8]):
        qs.append(Query("inflate_set_dict/len%d" % n, R,
                        dict(harness=ID, units=INF_UNITS, defines=FAST, hdefines=["DICT_LEN=%d" % n], unwind=max(3, n + 2), flags=UF),
                        family="inflate_set_dict", weight=3))
    # ---- (d) hash priming ----------------------------------------------------------------------------
    for n in ([0, 3, 4, 8] if quick else list(range(0, 9))):
        for mask in ((15,) if quick or n != 8 else (15, 63)):  # measured: mask 255 > 150 s, mask 8191 OOM at 8 GB
            core = (n, mask) == (8, 15)
            qs.append(Query("hash_base/len%d_mask%d" % (n, mask), R,
                            dict(harness="harness/C17/h_hash.c",
                                 units=["igzip/igzip.c"] + [u for u in IGZIP_UNITS if u != "igzip/igzip_base.c"], defines=FAST,
                                 hdefines=["DICT_LEN=%d" % n, "MASK=%d" % mask], unwind=max(10, min(mask, 64) + 3),
                                 unwindset=["harness.2:%d" % (mask + 2), "harness.3:%d" % (mask + 2)], witness=core),
                            core=core, family="hash_base", weight=2))
    return Plan(
        "C17", "model_checking", qs,
        functions_encoded=["set_dist_mask", "_zlib_header_in_buffer", "isal_deflate_stateless (zlib header path, empty input)",
                           "isal_deflate_set_dict", "isal_deflate_reset_dict", "check_level_req", "isal_deflate_process_dict",
                           "isal_inflate_set_dict", "isal_deflate_hash_base"],
        bounds={
            "zlib header": "hist_bits all 2^16 values, level all 2^32 values (unit); hist_bits symbolic, level 0, empty input (API)",
            "dictionary calls": "dict_len SYMBOLIC 0..70000 with the payload copy recorded (src/dst/len) instead of performed, plus "
                                "concrete lengths 0,1,5 (thorough 0..5,8,16) with the real memcpy and byte comparison; every scalar "
                                "field of the stream (state over the whole enum, b_bytes_*, level, level_buf NULL/non-NULL, "
                                "level_buf_size, has_hist, ...) and of struct isal_dict arbitrary; reset_dict per level 0..3 with a "
                                "level buffer object of exactly ISAL_DEF_LVLn_MIN bytes, and level > 3",
            "isal_deflate_hash_base": "dict_len 0..8, hash_mask 15 (63), current_index all 2^32, dictionary bytes arbitrary",
        },
        stubs=["memcpy (symbolic-length flavours, CBMC only): records (dst, src, n) after asserting r_ok/w_ok of both ranges, moves no bytes",
               "isal_deflate_hash_lvl0..3 as called from isal_deflate_process_dict: recording stub (arguments asserted); the real "
               "isal_deflate_hash_base is checked separately",
               "hash function in the hash_base harness: arbitrary 32-bit value per call (huffman.h's __SSE4_2__ variant of compute_hash with "
               "the intrinsic _mm_crc32_u32 supplied by the harness) - sound for any hash function",
               "include guards _X86INTRIN_H_INCLUDED/_IMMINTRIN_H_INCLUDED predefined (build speed only)"],
        assumptions=["isal_deflate_process_dict: the OUTPUT structure's `level` field is <= 3 on entry - the function reads it "
                     "(`dict->level > ISAL_DEF_MAX_LEVEL` => ISAL_INVALID_STATE) before writing it; with an uninitialised struct isal_dict "
                     "(as igzip_file_perf.c / igzip_rand_test.c pass) the call can be refused spuriously: SUSPECTED DEFECT, flavour "
                     "-DPROCESS_UNINIT of harness/C17/h_dict.c shows it",
                     "reset_dict: level_buf_size does not exceed the size of the object level_buf points to",
                     "big member arrays (buffer[], head[], history) are zero except one arbitrary element each (the observed one)",
                     "RFC 1950 CMF/FLG layout as written in the harness"],
        outside=["(a) distances emitted by the match finders (isal_deflate_body/finish_base, ICF finders, gen_icf_map_h1_base): not "
                 "attempted in this round - measured out of reach three times in round 0 (DESIGN C17); C17 therefore says nothing about "
                 "emitted distances",
                 "end-to-end dictionary round trips; the assembly match finders and isal_deflate_hash asm variants",
                 "streaming isal_deflate header path (write_stream_header) beyond the shared _zlib_header_in_buffer",
                 "hash tables larger than 64 entries in the hash_base harness (bounds of table[hash & mask] follow from the mask)"],
        trusted_base=["cbmc 6.11 C front end + SAT back end"])
