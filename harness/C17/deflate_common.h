/* Shared by the C17 / C18(e) harnesses: pulls the real igzip/igzip.c into the harness TU and
 * provides (i) a way to put an `isal_zstream` into an arbitrary state from the symbolic inputs
 * and (ii) a field-wise comparison used for the "refused WITHOUT side effects" assertions.
 *
 * Optional, before including: DC_STUB_HASH  -> the four isal_deflate_hash_lvlN callees of igzip.c
 * are redirected to a recording stub (the real isal_deflate_hash_base is checked on its own).
 */
#ifndef DEFLATE_COMMON_H
#define DEFLATE_COMMON_H
#include "verif.h"

#ifdef DC_STUB_HASH
#define isal_deflate_hash_lvl0 dc_hash_stub0
#define isal_deflate_hash_lvl1 dc_hash_stub1
#define isal_deflate_hash_lvl2 dc_hash_stub2
#define isal_deflate_hash_lvl3 dc_hash_stub3
#endif

#include "igzip.c"

#ifdef DC_STUB_HASH
#undef isal_deflate_hash_lvl0
#undef isal_deflate_hash_lvl1
#undef isal_deflate_hash_lvl2
#undef isal_deflate_hash_lvl3
struct dc_hash_call {
        int lvl;
        uint16_t *table;
        uint32_t mask, cur;
        uint8_t *dict;
        uint32_t len;
};
static struct dc_hash_call dc_hash_calls[2];
static int dc_hash_ncalls;
static void
dc_hash_record(int lvl, uint16_t *t, uint32_t m, uint32_t c, uint8_t *d, uint32_t l)
{
        if (dc_hash_ncalls < 2) {
                struct dc_hash_call *r = &dc_hash_calls[dc_hash_ncalls];
                r->lvl = lvl, r->table = t, r->mask = m, r->cur = c, r->dict = d, r->len = l;
        }
        dc_hash_ncalls++;
}
void
dc_hash_stub0(uint16_t *t, uint32_t m, uint32_t c, uint8_t *d, uint32_t l)
{
        dc_hash_record(0, t, m, c, d, l);
}
void
dc_hash_stub1(uint16_t *t, uint32_t m, uint32_t c, uint8_t *d, uint32_t l)
{
        dc_hash_record(1, t, m, c, d, l);
}
void
dc_hash_stub2(uint16_t *t, uint32_t m, uint32_t c, uint8_t *d, uint32_t l)
{
        dc_hash_record(2, t, m, c, d, l);
}
void
dc_hash_stub3(uint16_t *t, uint32_t m, uint32_t c, uint8_t *d, uint32_t l)
{
        dc_hash_record(3, t, m, c, d, l);
}
#endif

/* ---- range-recording memcpy (DESIGN 3.3), CBMC only: payload copies of up to 64 KiB are not
 * performed, only recorded, after asserting that both ranges lie inside their objects. Under
 * native replay the real memcpy runs and the harnesses compare the bytes instead. ---- */
#if defined(DC_STUB_MEMCPY) && !defined(REPLAY) /* goto-cc does not define __CPROVER__; REPLAY marks the native build */
#define DC_MEMCPY_STUBBED 1
struct dc_cpy {
        void *dst;
        const void *src;
        size_t n;
};
static struct dc_cpy dc_cpys[3];
static int dc_ncpy;
void *
memcpy(void *dst, const void *src, size_t n)
{
        __CPROVER_assert(n == 0 || __CPROVER_r_ok(src, n), "memcpy source range readable");
        __CPROVER_assert(n == 0 || __CPROVER_w_ok(dst, n), "memcpy destination range writable");
        if (dc_ncpy < 3) {
                dc_cpys[dc_ncpy].dst = dst;
                dc_cpys[dc_ncpy].src = src;
                dc_cpys[dc_ncpy].n = n;
        }
        dc_ncpy++;
        return dst;
}
#else
#define DC_MEMCPY_STUBBED 0
#endif

/* ---- every scalar of isal_zstream / isal_zstate, arbitrary ---- */
struct dc_scalars {
        uint32_t avail_in, total_in, avail_out, total_out, level, level_buf_size;
        uint16_t end_of_stream, flush, gzip_flag, hist_bits;
        uint32_t total_in_start, block_next, block_end, dist_mask, hash_mask, state;
        uint64_t m_bits;
        uint32_t m_bit_count, crc;
        uint8_t has_wrap_hdr, has_eob_hdr, has_eob, has_hist;
        uint16_t has_level_buf_init;
        uint32_t count, tmp_out_start, tmp_out_end, b_bytes_valid, b_bytes_processed;
        uint8_t fill_tmp, fill_buf; /* arbitrary fill of tmp_out_buff[] / value of buffer[bi] */
        uint16_t fill_head;         /* arbitrary value of head[hi] */
        uint8_t level_buf_null;     /* level_buf == NULL ? */
};

static uint8_t dc_in_obj[16], dc_out_obj[16], dc_bb_obj[32];
static struct isal_hufftables dc_custom_tables;
#ifndef DC_LEVEL_BUF_SIZE
#define DC_LEVEL_BUF_SIZE ISAL_DEF_LVL3_MIN
#endif
static uint8_t dc_level_buf[DC_LEVEL_BUF_SIZE];

static void
dc_fill(struct isal_zstream *s, const struct dc_scalars *v, uint32_t bi, uint32_t hi)
{
        struct isal_zstate *st = &s->internal_state;
        s->next_in = dc_in_obj;
        s->avail_in = v->avail_in;
        s->total_in = v->total_in;
        s->next_out = dc_out_obj;
        s->avail_out = v->avail_out;
        s->total_out = v->total_out;
        s->hufftables = &dc_custom_tables;
        s->level = v->level;
        s->level_buf_size = v->level_buf_size;
        s->level_buf = v->level_buf_null ? NULL : dc_level_buf;
        s->end_of_stream = v->end_of_stream;
        s->flush = v->flush;
        s->gzip_flag = v->gzip_flag;
        s->hist_bits = v->hist_bits;
        st->total_in_start = v->total_in_start;
        st->block_next = v->block_next;
        st->block_end = v->block_end;
        st->dist_mask = v->dist_mask;
        st->hash_mask = v->hash_mask;
        st->state = (enum isal_zstate_state) v->state;
        st->bitbuf.m_bits = v->m_bits;
        st->bitbuf.m_bit_count = v->m_bit_count;
        st->bitbuf.m_out_buf = dc_bb_obj + 1;
        st->bitbuf.m_out_end = dc_bb_obj + 24;
        st->bitbuf.m_out_start = dc_bb_obj;
        st->crc = v->crc;
        st->has_wrap_hdr = v->has_wrap_hdr;
        st->has_eob_hdr = v->has_eob_hdr;
        st->has_eob = v->has_eob;
        st->has_hist = v->has_hist;
        st->has_level_buf_init = v->has_level_buf_init;
        st->count = v->count;
        for (int i = 0; i < 16; i++)
                st->tmp_out_buff[i] = v->fill_tmp;
        st->tmp_out_start = v->tmp_out_start;
        st->tmp_out_end = v->tmp_out_end;
        st->b_bytes_valid = v->b_bytes_valid;
        st->b_bytes_processed = v->b_bytes_processed;
        /* buffer[] / head[]: the stream object is a zero-initialised static; one ARBITRARY element of each
         * array gets an ARBITRARY value (the same index the snapshot later observes), so a write of any
         * value at any index is visible to some (index, value) choice.  (Measured: memset with a symbolic
         * byte, __CPROVER_havoc_slice or a nondet local all make CBMC bit-blast the 64 KiB member
         * arrays: 2.4-5.7 M variables, no verdict.) */
        st->buffer[bi % sizeof(st->buffer)] = v->fill_buf;
        st->head[hi % IGZIP_LVL0_HASH_SIZE] = v->fill_head;
}

/* Snapshot of every scalar/pointer field of the stream, of tmp_out_buff[], and of buffer[] / head[]
 * at the given (arbitrary) indices.  (A whole-struct copy would make CBMC bit-blast the 64 KiB
 * member arrays: measured 5.7 M variables, no verdict.) */
struct dc_small {
        uint8_t *next_in, *next_out, *level_buf;
        struct isal_hufftables *hufftables;
        uint32_t avail_in, total_in, avail_out, total_out, level, level_buf_size;
        uint16_t end_of_stream, flush, gzip_flag, hist_bits;
        uint32_t total_in_start, block_next, block_end, dist_mask, hash_mask;
        enum isal_zstate_state state;
        struct BitBuf2 bitbuf;
        uint32_t crc;
        uint8_t has_wrap_hdr, has_eob_hdr, has_eob, has_hist;
        uint16_t has_level_buf_init;
        uint32_t count, tmp_out_start, tmp_out_end, b_bytes_valid, b_bytes_processed;
        uint8_t tmp_out_buff[16];
        uint8_t buffer_at;
        uint16_t head_at;
};

static void
dc_snapshot(struct dc_small *d, const struct isal_zstream *a, uint32_t bi, uint32_t hi)
{
        const struct isal_zstate *x = &a->internal_state;
        d->next_in = a->next_in, d->next_out = a->next_out, d->level_buf = a->level_buf;
        d->hufftables = a->hufftables;
        d->avail_in = a->avail_in, d->total_in = a->total_in, d->avail_out = a->avail_out;
        d->total_out = a->total_out, d->level = a->level, d->level_buf_size = a->level_buf_size;
        d->end_of_stream = a->end_of_stream, d->flush = a->flush, d->gzip_flag = a->gzip_flag;
        d->hist_bits = a->hist_bits;
        d->total_in_start = x->total_in_start, d->block_next = x->block_next, d->block_end = x->block_end;
        d->dist_mask = x->dist_mask, d->hash_mask = x->hash_mask, d->state = x->state;
        d->bitbuf = x->bitbuf;
        d->crc = x->crc;
        d->has_wrap_hdr = x->has_wrap_hdr, d->has_eob_hdr = x->has_eob_hdr, d->has_eob = x->has_eob;
        d->has_hist = x->has_hist, d->has_level_buf_init = x->has_level_buf_init;
        d->count = x->count, d->tmp_out_start = x->tmp_out_start, d->tmp_out_end = x->tmp_out_end;
        d->b_bytes_valid = x->b_bytes_valid, d->b_bytes_processed = x->b_bytes_processed;
        for (int i = 0; i < 16; i++)
                d->tmp_out_buff[i] = x->tmp_out_buff[i];
        d->buffer_at = x->buffer[bi % sizeof(x->buffer)];
        d->head_at = x->head[hi % IGZIP_LVL0_HASH_SIZE];
}

static int
dc_small_eq(const struct dc_small *p, const struct dc_small *q)
{
        int ok = p->next_in == q->next_in && p->next_out == q->next_out && p->level_buf == q->level_buf &&
                 p->hufftables == q->hufftables && p->avail_in == q->avail_in && p->total_in == q->total_in &&
                 p->avail_out == q->avail_out && p->total_out == q->total_out && p->level == q->level &&
                 p->level_buf_size == q->level_buf_size && p->end_of_stream == q->end_of_stream &&
                 p->flush == q->flush && p->gzip_flag == q->gzip_flag && p->hist_bits == q->hist_bits;
        ok = ok && p->total_in_start == q->total_in_start && p->block_next == q->block_next &&
             p->block_end == q->block_end && p->dist_mask == q->dist_mask && p->hash_mask == q->hash_mask &&
             p->state == q->state && p->bitbuf.m_bits == q->bitbuf.m_bits &&
             p->bitbuf.m_bit_count == q->bitbuf.m_bit_count && p->bitbuf.m_out_buf == q->bitbuf.m_out_buf &&
             p->bitbuf.m_out_end == q->bitbuf.m_out_end && p->bitbuf.m_out_start == q->bitbuf.m_out_start &&
             p->crc == q->crc && p->has_wrap_hdr == q->has_wrap_hdr && p->has_eob_hdr == q->has_eob_hdr &&
             p->has_eob == q->has_eob && p->has_hist == q->has_hist &&
             p->has_level_buf_init == q->has_level_buf_init && p->count == q->count &&
             p->tmp_out_start == q->tmp_out_start && p->tmp_out_end == q->tmp_out_end &&
             p->b_bytes_valid == q->b_bytes_valid && p->b_bytes_processed == q->b_bytes_processed &&
             p->buffer_at == q->buffer_at && p->head_at == q->head_at;
        for (int i = 0; i < 16; i++)
                ok = ok && p->tmp_out_buff[i] == q->tmp_out_buff[i];
        return ok;
}

#endif
