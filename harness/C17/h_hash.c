/* C17(d): isal_deflate_hash_base (igzip_base.c) — priming of the hash heads from a dictionary.
 * Concrete per query: DICT_LEN (0..8), MASK (hash_mask; the table object has exactly MASK+1 entries,
 * the dictionary ends exactly at the end of its object, so any access past it is a CBMC failure;
 * it is preceded by 8 arbitrary guard bytes that the oracle does not look at — DESIGN 3.4: with
 * dict_len < 4 the code forms `dict + dict_len - 4`, which CBMC's pointer model cannot compare
 * when it lies before the object; a read of a guard byte would make the result depend on it and
 * fail the assertion).
 * Symbolic: dictionary bytes, current_index (all 2^32), previous table contents (one arbitrary
 * value), observed slot h.
 * The hash function is abstracted to an ARBITRARY 32-bit value per call (the two 64-bit
 * multiplications of compute_hash defeat the SAT back end — measured: one position, no verdict in
 * 150 s — and the claim must hold for any hash function anyway).  How: CBMC 6 treats a call to a
 * body-less function as a failure, so goto-instrument --remove-function-body cannot be used for a
 * reachable callee; instead huffman.h's own `#ifdef __SSE4_2__` variant of compute_hash (one call of
 * the intrinsic _mm_crc32_u32) is selected for this translation unit and the intrinsic is supplied
 * by the harness: nondet under CBMC, a fixed mixing function under native replay.  The text of
 * isal_deflate_hash_base is unchanged.  Oracle, hash-agnostic:
 *  (1) every slot is either untouched or holds (uint16)(current_index - dict_len + j) for a position
 *      j in [0, dict_len-4] (positions are measured back from current_index: the dictionary ends
 *      exactly at current_index);
 *  (2) the last position dict_len-4 is present in some slot (later positions win);
 *  (3) no position is recorded in two slots;
 *  (4) dict_len < 4 writes nothing; the dictionary is not modified. */
#include "verif.h"

#ifndef DICT_LEN
#define DICT_LEN 6
#endif
#ifndef MASK
#define MASK 15
#endif

#ifndef __SSE4_2__
#define __SSE4_2__ 1
#endif
#ifdef REPLAY
static inline unsigned int
_mm_crc32_u32(unsigned int c, unsigned int d)
{
        return ((c ^ d) * 2654435761u) >> 7;
}
#else
unsigned int
nondet_hash_value(void);
static inline unsigned int
_mm_crc32_u32(unsigned int c, unsigned int d)
{
        (void) c;
        (void) d;
        return nondet_hash_value();
}
#endif
#include "igzip_base.c"

struct inputs {
        uint8_t guard[8];
        uint8_t dict[DICT_LEN ? DICT_LEN : 1];
        uint32_t current_index;
        uint16_t init;
        uint32_t h, h2;
};
DECLARE_INPUTS

void
harness(void)
{
        VERIF_INPUTS();
        uint16_t table[MASK + 1];
        uint8_t arena[8 + DICT_LEN];
        uint8_t *d = arena + 8;
        for (int i = 0; i < 8; i++)
                arena[i] = I.guard[i];
        for (int i = 0; i < DICT_LEN; i++)
                d[i] = I.dict[i];
        for (unsigned i = 0; i <= MASK; i++)
                table[i] = I.init;
        VASSUME(I.h <= MASK);

        isal_deflate_hash_base(table, MASK, I.current_index, d, DICT_LEN);

        uint16_t base = (uint16_t) (I.current_index - DICT_LEN);
        uint16_t v = table[I.h];
        int is_pos = 0;
        for (int j = 0; j + 4 <= DICT_LEN; j++)
                if (v == (uint16_t) (base + j))
                        is_pos = 1;
        VASSERT(v == I.init || is_pos, "slot h untouched or a dictionary position relative to current_index - dict_len");
#if DICT_LEN >= 4
        {
                int present = 0;
                for (unsigned i = 0; i <= MASK && i < 64; i++)
                        present |= table[i] == (uint16_t) (base + DICT_LEN - 4);
#if MASK < 64
                VASSERT(present, "the last hashable position is recorded");
#endif
                /* positions are distinct 16-bit values (dict_len <= 8), so a value other than init in two
                 * slots would mean one position was written twice */
                VASSUME(I.h2 <= MASK && I.h2 != I.h);
                int init_is_pos = 0;
                for (int j = 0; j + 4 <= DICT_LEN; j++)
                        init_is_pos |= I.init == (uint16_t) (base + j);
                if (!init_is_pos && v != I.init)
                        VASSERT(table[I.h2] != v, "no position recorded in two slots");
        }
#else
        VASSERT(v == I.init, "fewer than 4 bytes: nothing is written");
#endif
        for (int i = 0; i < DICT_LEN; i++)
                VASSERT(d[i] == I.dict[i], "dictionary not modified");
        VREACHED();
}
VERIF_MAIN
