/* C17(c), inflate side: isal_inflate_set_dict (igzip_inflate.c).
 * Every scalar of the inflate_state is arbitrary (block_state over the whole enum,
 * tmp_out_processed/tmp_out_valid arbitrary).  Refused (ISAL_INVALID_STATE) exactly when
 * block_state != ISAL_BLOCK_NEW_HDR or buffered output is pending, and then nothing changes;
 * accepted: the LAST min(len, IGZIP_HIST_SIZE) dictionary bytes go to the start of the
 * history buffer and tmp_out_processed = tmp_out_valid = dict_length = that count.
 *   IC_STUB_MEMCPY : dict_len symbolic 0..70000, copy recorded not performed (CBMC)
 *   default        : DICT_LEN concrete and small, real memcpy, bytes compared. */
#if defined(IC_STUB_MEMCPY) && !defined(REPLAY) /* goto-cc does not define __CPROVER__ */
#define STUBBED 1
#else
#define STUBBED 0
#endif
#include "harness/inflate_common/inflate_common.h"

#ifndef DICT_MAX
#define DICT_MAX 70000
#endif
#if defined(IC_STUB_MEMCPY)
#define SYMBOLIC_LEN 1
#define DICT_OBJ DICT_MAX
#else
#define SYMBOLIC_LEN 0
#ifndef DICT_LEN
#define DICT_LEN 5
#endif
#define DICT_OBJ DICT_LEN
#endif

#if STUBBED
static void *cpy_dst;
static const void *cpy_src;
static size_t cpy_n;
static int ncpy;
void *
memcpy(void *dst, const void *src, size_t n)
{
        __CPROVER_assert(n == 0 || __CPROVER_r_ok(src, n), "memcpy source range readable");
        __CPROVER_assert(n == 0 || __CPROVER_w_ok(dst, n), "memcpy destination range writable");
        cpy_dst = dst, cpy_src = src, cpy_n = n;
        ncpy++;
        return dst;
}
#endif

struct scal {
        uint32_t avail_out, total_out, avail_in, dict_length, bfinal, crc_flag, crc, hist_bits, block_state;
        uint64_t read_in;
        int32_t read_in_length, type0_block_len, write_overflow_lits, write_overflow_len, copy_overflow_length,
                copy_overflow_distance, tmp_out_valid, tmp_out_processed;
        int16_t wrapper_flag, tmp_in_size;
};
struct obs {
        struct scal s;
        uint8_t *next_in, *next_out;
        uint8_t tin_at, tout_at;
        uint32_t lit_at;
        uint16_t dist_at;
};
struct inputs {
        struct scal z;
        uint32_t dict_len, ti, to, li, di;
        uint8_t fill_in, fill_out;
#if !SYMBOLIC_LEN
        uint8_t dict[DICT_OBJ ? DICT_OBJ : 1];
#endif
};
DECLARE_INPUTS

static struct inflate_state st;
static uint8_t in_obj[8], out_obj[8];
#if SYMBOLIC_LEN
static uint8_t dict_obj[DICT_OBJ];
#define DICT dict_obj
#else
#define DICT I.dict
#endif

static uint8_t
pat(uint32_t i)
{
        return (uint8_t) ((i * 2654435761u) >> 13);
}

static void
observe(struct obs *o)
{
        o->s.avail_out = st.avail_out, o->s.total_out = st.total_out, o->s.avail_in = st.avail_in;
        o->s.dict_length = st.dict_length, o->s.bfinal = st.bfinal, o->s.crc_flag = st.crc_flag, o->s.crc = st.crc;
        o->s.hist_bits = st.hist_bits, o->s.block_state = st.block_state, o->s.read_in = st.read_in;
        o->s.read_in_length = st.read_in_length, o->s.type0_block_len = st.type0_block_len;
        o->s.write_overflow_lits = st.write_overflow_lits, o->s.write_overflow_len = st.write_overflow_len;
        o->s.copy_overflow_length = st.copy_overflow_length, o->s.copy_overflow_distance = st.copy_overflow_distance;
        o->s.tmp_out_valid = st.tmp_out_valid, o->s.tmp_out_processed = st.tmp_out_processed;
        o->s.wrapper_flag = st.wrapper_flag, o->s.tmp_in_size = st.tmp_in_size;
        o->next_in = st.next_in, o->next_out = st.next_out;
        o->tin_at = st.tmp_in_buffer[I.ti % sizeof(st.tmp_in_buffer)];
        o->tout_at = st.tmp_out_buffer[I.to % sizeof(st.tmp_out_buffer)];
        o->lit_at = st.lit_huff_code.short_code_lookup[I.li % (1 << ISAL_DECODE_LONG_BITS)];
        o->dist_at = st.dist_huff_code.short_code_lookup[I.di % (1 << ISAL_DECODE_SHORT_BITS)];
}

static int
same(const struct obs *a, const struct obs *b)
{
        const struct scal *p = &a->s, *q = &b->s;
        return p->avail_out == q->avail_out && p->total_out == q->total_out && p->avail_in == q->avail_in &&
               p->dict_length == q->dict_length && p->bfinal == q->bfinal && p->crc_flag == q->crc_flag &&
               p->crc == q->crc && p->hist_bits == q->hist_bits && p->block_state == q->block_state &&
               p->read_in == q->read_in && p->read_in_length == q->read_in_length &&
               p->type0_block_len == q->type0_block_len && p->write_overflow_lits == q->write_overflow_lits &&
               p->write_overflow_len == q->write_overflow_len && p->copy_overflow_length == q->copy_overflow_length &&
               p->copy_overflow_distance == q->copy_overflow_distance && p->tmp_out_valid == q->tmp_out_valid &&
               p->tmp_out_processed == q->tmp_out_processed && p->wrapper_flag == q->wrapper_flag &&
               p->tmp_in_size == q->tmp_in_size && a->next_in == b->next_in && a->next_out == b->next_out &&
               a->tin_at == b->tin_at && a->tout_at == b->tout_at && a->lit_at == b->lit_at && a->dist_at == b->dist_at;
}

void
harness(void)
{
        VERIF_INPUTS();
        struct obs before, after, want;
        VASSUME(I.z.block_state <= ISAL_CHECKSUM_CHECK);
#if SYMBOLIC_LEN
        uint32_t dict_len = I.dict_len;
        VASSUME(dict_len <= DICT_MAX);
#if !STUBBED
        for (uint32_t i = 0; i < DICT_OBJ; i++)
                dict_obj[i] = pat(i);
#endif
#else
        uint32_t dict_len = DICT_LEN;
#endif
        uint32_t n = dict_len > IGZIP_HIST_SIZE ? IGZIP_HIST_SIZE : dict_len;
        uint32_t off = dict_len - n;

        st.avail_out = I.z.avail_out, st.total_out = I.z.total_out, st.avail_in = I.z.avail_in;
        st.dict_length = I.z.dict_length, st.bfinal = I.z.bfinal, st.crc_flag = I.z.crc_flag, st.crc = I.z.crc;
        st.hist_bits = I.z.hist_bits, st.block_state = (enum isal_block_state) I.z.block_state, st.read_in = I.z.read_in;
        st.read_in_length = I.z.read_in_length, st.type0_block_len = I.z.type0_block_len;
        st.write_overflow_lits = I.z.write_overflow_lits, st.write_overflow_len = I.z.write_overflow_len;
        st.copy_overflow_length = I.z.copy_overflow_length, st.copy_overflow_distance = I.z.copy_overflow_distance;
        st.tmp_out_valid = I.z.tmp_out_valid, st.tmp_out_processed = I.z.tmp_out_processed;
        st.wrapper_flag = I.z.wrapper_flag, st.tmp_in_size = I.z.tmp_in_size;
        st.next_in = in_obj, st.next_out = out_obj;
        /* one arbitrary element of each big array gets an arbitrary value (see C17/deflate_common.h) */
        st.tmp_in_buffer[I.ti % sizeof(st.tmp_in_buffer)] = I.fill_in;
        st.tmp_out_buffer[I.to % sizeof(st.tmp_out_buffer)] = I.fill_out;
        observe(&before);
        int valid = I.z.block_state == ISAL_BLOCK_NEW_HDR && I.z.tmp_out_processed == I.z.tmp_out_valid;

        int r = isal_inflate_set_dict(&st, DICT, dict_len);

        observe(&after);
        want = before;
        if (!valid)
                VASSERT(r == ISAL_INVALID_STATE, "wrong block state / pending output => ISAL_INVALID_STATE");
        else {
                VASSERT(r == COMP_OK, "accepted at a block boundary with no pending output");
                want.s.tmp_out_processed = want.s.tmp_out_valid = (int32_t) n;
                want.s.dict_length = n;
        }
#if STUBBED
        if (valid) {
                VASSERT(ncpy == 1 && cpy_dst == (void *) st.tmp_out_buffer && cpy_src == (const void *) (DICT + off) && cpy_n == n,
                        "copies exactly the LAST min(len, IGZIP_HIST_SIZE) dictionary bytes to the start of the history buffer");
        } else
                VASSERT(ncpy == 0, "no copy when refused");
#else
        if (valid && (I.to % sizeof(st.tmp_out_buffer)) < n)
                want.tout_at = DICT[off + (I.to % sizeof(st.tmp_out_buffer))];
#endif
        VASSERT(same(&after, &want), "state: only tmp_out_processed/tmp_out_valid/dict_length (and the copied bytes) change, nothing on refusal");
        VREACHED();
}
VERIF_MAIN
