/* C17(c): the deflate-side dictionary calls of igzip.c.
 *   H_SET     isal_deflate_set_dict
 *   H_RESET   isal_deflate_reset_dict        (LEVEL concrete 0..3, or BAD_LEVEL: symbolic level > 3)
 *   H_PROCESS isal_deflate_process_dict      (the four hash callees replaced by a recording stub; the
 *             output structure's previous contents are arbitrary, as with an uninitialised struct)
 * Two flavours of the payload copy:
 *   DC_STUB_MEMCPY : dict_len SYMBOLIC 0..DICT_MAX (70000), copies recorded not performed (CBMC);
 *   default        : DICT_LEN concrete and small, real memcpy, bytes compared.
 * In every flavour all scalar fields of the stream (incl. `state` over the whole enum, b_bytes_*,
 * level, ...) are arbitrary; a refused call must return the documented code and change nothing.
 */
#define DC_STUB_HASH
#include "harness/C17/deflate_common.h"

#ifndef DICT_MAX
#define DICT_MAX 70000
#endif
#if DC_MEMCPY_STUBBED || (defined(DC_STUB_MEMCPY) && defined(REPLAY))
#define DICT_OBJ DICT_MAX
#define SYMBOLIC_LEN 1
#else
#ifndef DICT_LEN
#define DICT_LEN 5
#endif
#define DICT_OBJ DICT_LEN
#define SYMBOLIC_LEN 0
#endif

struct inputs {
        struct dc_scalars z;
        uint32_t bi, hi;
        uint32_t dict_len; /* used when the length is symbolic */
#if !SYMBOLIC_LEN
        uint8_t dict[DICT_OBJ ? DICT_OBJ : 1];
#endif
        /* isal_dict header fields (H_RESET / H_PROCESS) */
        uint32_t d_params, d_level, d_hist_size, d_hash_size;
        uint32_t j; /* arbitrary byte index for content checks */
};
DECLARE_INPUTS

static struct isal_zstream s;
static struct isal_dict dstr;
#if SYMBOLIC_LEN
static uint8_t dict_obj[DICT_OBJ];
#define DICT dict_obj
#else
#define DICT I.dict
#endif

/* position-dependent pattern so that native replay distinguishes "first bytes" from "last bytes" */
static uint8_t
pat(uint32_t i)
{
        return (uint8_t) ((i * 2654435761u) >> 13);
}

void
harness(void)
{
        VERIF_INPUTS();
        struct dc_small before, after, want;
        VASSUME(I.z.state <= ZSTATE_TMP_END);
#if SYMBOLIC_LEN
        uint32_t dict_len = I.dict_len;
        VASSUME(dict_len <= DICT_MAX);
#if !DC_MEMCPY_STUBBED
        for (uint32_t i = 0; i < DICT_OBJ; i++)
                dict_obj[i] = pat(i);
#endif
#else
        uint32_t dict_len = DICT_LEN;
#endif
        uint32_t n = dict_len > IGZIP_HIST_SIZE ? IGZIP_HIST_SIZE : dict_len; /* bytes that matter */
        uint32_t off = dict_len - n;                                           /* ... the LAST n */

#if defined(H_SET)
        /* ------------------------------------------------------------ isal_deflate_set_dict */
        dc_fill(&s, &I.z, I.bi, I.hi);
        dc_snapshot(&before, &s, I.bi, I.hi);
        int valid = I.z.state == ZSTATE_NEW_HDR && I.z.b_bytes_processed == I.z.b_bytes_valid;

        int r = isal_deflate_set_dict(&s, DICT, dict_len);

        dc_snapshot(&after, &s, I.bi, I.hi);
        want = before;
        if (!valid) {
                VASSERT(r == ISAL_INVALID_STATE, "wrong state / unprocessed input => ISAL_INVALID_STATE");
        } else {
                VASSERT(r == COMP_OK, "accepted in ZSTATE_NEW_HDR with all buffered input processed");
                if (dict_len > 0) {
                        want.b_bytes_processed = want.b_bytes_valid = n;
                        want.has_hist = IGZIP_DICT_HIST;
                }
        }
#if DC_MEMCPY_STUBBED
        if (valid && dict_len > 0) {
                VASSERT(dc_ncpy == 1, "exactly one payload copy");
                VASSERT(dc_cpys[0].dst == (void *) s.internal_state.buffer && dc_cpys[0].n == n &&
                                dc_cpys[0].src == (const void *) (DICT + off),
                        "copies exactly the LAST min(len, IGZIP_HIST_SIZE) dictionary bytes to the start of the history buffer");
        } else
                VASSERT(dc_ncpy == 0, "no copy when refused or empty");
#else
        if (valid && dict_len > 0 && (I.bi % sizeof(s.internal_state.buffer)) < n)
                want.buffer_at = DICT[off + (I.bi % sizeof(s.internal_state.buffer))];
#endif
        VASSERT(dc_small_eq(&after, &want),
                "stream fields: only b_bytes_processed/b_bytes_valid/has_hist (and the copied bytes) change, nothing on refusal");

#elif defined(H_RESET)
        /* ------------------------------------------------------------ isal_deflate_reset_dict */
#ifdef BAD_LEVEL
        VASSUME(I.z.level > 3);
        uint32_t lvl_min = 0;
#else
        VASSUME(I.z.level == LEVEL);
        uint32_t lvl_min = LEVEL == 1 ? ISAL_DEF_LVL1_MIN : LEVEL == 2 ? ISAL_DEF_LVL2_MIN : LEVEL == 3 ? ISAL_DEF_LVL3_MIN : 0;
#endif
        /* the caller's claim about its level buffer is honest: it is not larger than the object */
        VASSUME(I.z.level_buf_null || I.z.level_buf_size <= sizeof(dc_level_buf));
        dc_fill(&s, &I.z, I.bi, I.hi);
        dstr.params = I.d_params, dstr.level = I.d_level, dstr.hist_size = I.d_hist_size, dstr.hash_size = I.d_hash_size;
        dc_snapshot(&before, &s, I.bi, I.hi);
        int state_ok = I.z.state == ZSTATE_NEW_HDR && I.z.b_bytes_processed == I.z.b_bytes_valid &&
                       I.d_level == I.z.level && I.d_hist_size != 0 && I.d_hist_size <= IGZIP_HIST_SIZE &&
                       I.d_hash_size <= IGZIP_LVL3_HASH_SIZE;
        int level_ok = I.z.level == 0 || (I.z.level <= 3 && !I.z.level_buf_null && I.z.level_buf_size >= lvl_min);

        int r = isal_deflate_reset_dict(&s, &dstr);

        dc_snapshot(&after, &s, I.bi, I.hi);
        want = before;
        VASSERT(dstr.params == I.d_params && dstr.level == I.d_level && dstr.hist_size == I.d_hist_size &&
                        dstr.hash_size == I.d_hash_size,
                "the processed dictionary is not modified");
        if (!state_ok)
                VASSERT(r == ISAL_INVALID_STATE, "wrong state / level mismatch / bad sizes => ISAL_INVALID_STATE");
        else if (!level_ok)
                VASSERT(r == ISAL_INVALID_LEVEL || r == ISAL_INVALID_LEVEL_BUF, "level buffer requirements not met => level error");
        else {
                VASSERT(r == COMP_OK, "accepted");
                want.b_bytes_processed = want.b_bytes_valid = I.d_hist_size;
                want.has_hist = IGZIP_DICT_HASH_SET;
        }
#if DC_MEMCPY_STUBBED
        if (state_ok && level_ok) {
                struct level_buf *lb = (struct level_buf *) dc_level_buf;
                void *tbl = I.z.level == 1   ? (void *) lb->lvl1.hash_table
                            : I.z.level == 2 ? (void *) lb->lvl2.hash_table
                            : I.z.level == 3 ? (void *) lb->lvl3.hash_table
                                             : (void *) s.internal_state.head;
                size_t tsz = I.z.level == 1   ? sizeof(lb->lvl1.hash_table)
                             : I.z.level == 2 ? sizeof(lb->lvl2.hash_table)
                             : I.z.level == 3 ? sizeof(lb->lvl3.hash_table)
                                              : sizeof(s.internal_state.head);
                VASSERT(dc_ncpy == 2, "exactly two copies: history and hash table");
                VASSERT(dc_cpys[0].dst == (void *) s.internal_state.buffer && dc_cpys[0].src == (const void *) dstr.history &&
                                dc_cpys[0].n == I.d_hist_size,
                        "history: hist_size bytes to the start of the internal buffer");
                VASSERT(dc_cpys[1].dst == tbl && dc_cpys[1].src == (const void *) dstr.hashtable && dc_cpys[1].n == tsz,
                        "hash table of the stream's level is loaded from the processed dictionary");
        } else
                VASSERT(dc_ncpy == 0, "no copy when refused");
#endif
        VASSERT(dc_small_eq(&after, &want), "stream fields: only b_bytes_*/has_hist change on success, nothing on refusal");

#elif defined(H_PROCESS)
        /* ------------------------------------------------------------ isal_deflate_process_dict */
        dc_fill(&s, &I.z, I.bi, I.hi);
        dstr.params = I.d_params, dstr.level = I.d_level, dstr.hist_size = I.d_hist_size, dstr.hash_size = I.d_hash_size;
        /* the output structure is NOT assumed initialised: all four header fields (incl. level > 3) are
         * arbitrary on entry, one arbitrary history byte / hash slot holds an arbitrary value */
        dstr.history[I.j % sizeof(dstr.history)] = (uint8_t) I.d_params;
        dc_snapshot(&before, &s, I.bi, I.hi);

        int r = isal_deflate_process_dict(&s, &dstr, DICT, dict_len);

        dc_snapshot(&after, &s, I.bi, I.hi);
        VASSERT(dc_small_eq(&after, &before), "processing a dictionary never modifies the stream");
        if (dict_len == 0 || I.z.level > ISAL_DEF_MAX_LEVEL) {
                VASSERT(r == ISAL_INVALID_STATE, "empty dictionary or stream->level > 3 is refused with ISAL_INVALID_STATE");
                VASSERT(dstr.params == I.d_params && dstr.level == I.d_level && dstr.hist_size == I.d_hist_size &&
                                dstr.hash_size == I.d_hash_size && dc_hash_ncalls == 0 &&
                                dstr.history[I.j % sizeof(dstr.history)] == (uint8_t) I.d_params,
                        "refused call leaves the dictionary structure untouched");
#if DC_MEMCPY_STUBBED
                VASSERT(dc_ncpy == 0, "no copy when refused");
#endif
        } else {
                VASSERT(r == COMP_OK, "documented preconditions hold (non-empty dictionary, level 0..3) => COMP_OK, whatever *dict held before");
                uint32_t lv = I.z.level;
                uint32_t hsz = lv == 3 ? IGZIP_LVL3_HASH_SIZE : lv == 2 ? IGZIP_LVL2_HASH_SIZE : lv == 1 ? IGZIP_LVL1_HASH_SIZE : IGZIP_LVL0_HASH_SIZE;
                VASSERT(dstr.level == lv && dstr.hist_size == n && dstr.hash_size == hsz, "level / hist_size / hash_size recorded");
                VASSERT(dstr.hist_size <= IGZIP_HIST_SIZE && dstr.hash_size <= IGZIP_LVL3_HASH_SIZE,
                        "result is acceptable to isal_deflate_reset_dict");
                VASSERT(dc_hash_ncalls == 1 && dc_hash_calls[0].table == dstr.hashtable && dc_hash_calls[0].mask == hsz - 1 &&
                                dc_hash_calls[0].cur == 0 && dc_hash_calls[0].dict == DICT + off && dc_hash_calls[0].len == n &&
                                dc_hash_calls[0].lvl == (int) (lv <= 3 ? lv : 0),
                        "hash priming runs once over exactly the LAST min(len, IGZIP_HIST_SIZE) bytes with the level's mask");
                VASSERT(dstr.hashtable[I.j % IGZIP_LVL3_HASH_SIZE] == 0xFFFF, "hash table reset to 0xFFFF before priming");
#if DC_MEMCPY_STUBBED
                VASSERT(dc_ncpy == 1 && dc_cpys[0].dst == (void *) dstr.history && dc_cpys[0].src == (const void *) (DICT + off) &&
                                dc_cpys[0].n == n,
                        "history = the LAST min(len, IGZIP_HIST_SIZE) dictionary bytes");
#else
                if (I.j < n)
                        VASSERT(dstr.history[I.j] == DICT[off + I.j], "history byte j == dictionary byte off+j");
#endif
        }
#endif
        VREACHED();
}
VERIF_MAIN
