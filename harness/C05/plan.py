"""C05: every load/store of every leaf kernel is checked (true width, mask, alignment requirement) against the
exact caller-declared regions in every engine-B query.  This plan runs a dedicated memory-safety sweep (short
lengths incl. 0 and 1, every vector-width remainder, buffer ends at odd alignments) over ALL assembled leaf kernels,
plus the CBMC harnesses for the C codec (stale input, bit-buffer slop) when present."""
from vlib.core import Plan, Query
from harness.ec_common import x86_plan as EC
from harness.C04.x86 import KERNELS as CRCK

try:
    from harness.C05.cbmc_plan import cbmc_queries
except Exception:
    cbmc_queries = None


def plan(tier, ctx):
    qs = []
    quick = tier == "quick"
    offs = [0, 1, 63] if quick else [0, 1, 7, 15, 31, 33, 63]
    # --- zero detect
    for var in ("sse", "avx", "avx2", "avx512"):
        lens = list(range(0, 70)) + [127, 128, 129, 191, 192, 193, 255, 256, 257]
        qs.append(Query("x86/zero/%s" % var, "harness.C20.x86:zero_query", dict(variant=var, lens=lens, offsets=offs), core=True, family="x86/zero", weight=300))
    # --- raid (documented alignment only: 32 B gen / 16 B check)
    for k, minv, lens in (("xor_gen_sse", 3, None), ("xor_gen_avx", 3, None), ("xor_gen_avx512", 3, None), ("xor_check_sse", 2, None),
                          ("pq_gen_sse", 4, [0, 32, 64, 96]), ("pq_gen_avx", 4, [0, 32, 64, 96]), ("pq_gen_avx2", 4, [0, 32, 64, 96, 128]),
                          ("pq_gen_avx512", 4, [0, 32, 64, 128, 160]), ("pq_check_sse", 4, [0, 16, 32, 48, 64])):
        ls = lens if lens is not None else list(range(0, 34)) + [63, 64, 65, 127, 128, 129, 135, 136, 137]
        a = 16 if "check" in k else 32
        qs.append(Query("x86/raid/%s" % k, "harness.C08.x86:raid_query",
                        dict(kernel=k, cases=[[minv + 1, n, o] for n in ls for o in (0, a)], invalid=[[minv - 1, 64], [0, 64], [-1, 64]]),
                        core=True, family="x86/raid", weight=400))
    # --- erasure code kernels: every length 0..W+1 at three alignments, k=1,2
    for kind in ("dot_prod", "mad"):
        for isa, maxnv in EC.NV[kind].items():
            w = EC.W[isa]
            for nv in range(1, maxnv + 1):
                cases = [[2, n, 1, o] for o in offs for n in (list(range(0, w + 2)) if o == 0 or not quick else [0, 1, w - 1, w, w + 1, 2 * w + 1])]
                cases += [[1, n, 0, 1] for n in (0, 1, w, w + 1)]
                for i in range(0, len(cases), 40):
                    qs.append(Query("x86/%s/%dvect_%s/c%d" % (kind, nv, isa, i // 40), EC.R, dict(kind=kind, nv=nv, isa=isa, cases=cases[i:i + 40]),
                                    core=(i == 0), family="x86/ec_" + kind, weight=nv * w))
    qs += [Query("x86/mul/" + q.qid.split("/")[-1], q.runner, q.params, core=True, family="x86/ec_mul", weight=50) for q in EC.mul_queries(tier)]
    # --- CRC kernels: every length 0..130 (+ block boundaries) at several alignments
    for k in sorted(CRCK):
        lens = list(range(0, 131)) + [255, 256, 257, 511, 512, 513]
        cases = [[n, o] for o in offs for n in (lens if o in (0, 1) else lens[:40])]
        for i in range(0, len(cases), 80):
            qs.append(Query("x86/crc/%s/c%d" % (k, i // 80), "harness.C04.x86:crc_query", dict(kernel=k, cases=cases[i:i + 80]), core=(i == 0),
                            family="x86/crc", weight=200))
    for k in ("adler32_sse", "adler32_avx2_4"):
        qs.append(Query("x86/adler/%s" % k, "harness.C04.adler_x86:adler_query", dict(kernel=k, cases=[[n, o] for n in range(0, 16) for o in (0, 1, 63)], abstract_from=1000),
                        core=True, family="x86/adler", weight=100))
    # --- igzip ICF bit emitters (the one igzip assembly family with data-independent addressing once the token
    #     symbols and code lengths are concrete): stores inside the bit buffer incl. its 8-byte slop
    shapes = [(40, 15, 100), (64, 15, 150), (48, 15, 64), (100, 9, 120), (17, 12, 40), (1, 15, 16)]
    for var in ("04", "06"):
        cases = [[sd + 100, nt, ml, sd % 8, (sd * 3) % 7, ol] for sd in (range(1, 7) if quick else range(1, 31)) for (nt, ml, ol) in shapes]
        for i in range(0, len(cases), 18):
            qs.append(Query("x86/icf_%s/c%d" % (var, i // 18), "harness.C10.icf_x86:icf_query", dict(variant=var, cases=cases[i:i + 18]),
                            core=(i == 0), family="x86/igzip_icf_encode", weight=30))
    fe = ["every load/store of: mem_zero_detect_* (4), xor/pq gen/check (9), gf_Nvect_dot_prod_* (33), gf_Nvect_mad_* (35), gf_vect_mul_* (2), CRC kernels (%d), adler32_* (2, len<16), encode_deflate_icf_{04,06}" % len(CRCK)]
    stubs, ass, outside = [], [], []
    bounds = {"x86": {"alignment offsets of buffer starts (mod 64)": offs, "lengths": "0..W+1 for EC kernels, 0..130 (+256/512 boundaries) CRC, 0..69 (+128/192/256 boundaries) zero detect, see per-family cases",
                      "regions": "exactly [ptr, ptr+len) per buffer, pointer arrays and tables exact size; everything else unmapped; accesses checked with their true width, AVX-512 masked-off lanes excluded, alignment-faulting forms checked"}}
    if cbmc_queries:
        cq, ci = cbmc_queries(tier)
        qs += cq
        fe += ci.get("functions_encoded", [])
        bounds["cbmc"] = ci.get("bounds", {})
        stubs += ci.get("stubs", [])
        ass += ci.get("assumptions", [])
        outside += ci.get("outside", [])
    return Plan("C05", "model_checking", qs, engine="x86sym + cbmc-c", functions_encoded=fe, bounds=bounds, stubs=stubs,
                assumptions=["x86 instruction semantics incl. access width/masking/alignment rules of vlib/x86sym (validated natively each run)",
                             "stack: 4 KiB red-zone-free frame above rsp readable, below rsp only after being written"] + ass,
                outside=["all other igzip assembly bodies (deflate/inflate kernels, histogram, hash, proc_heap): data-dependent addressing, not encodable",
                         "lengths/alignments beyond the swept sets", "include/memcpy.asm macros other than as instantiated in the checked kernels"] + outside,
                trusted_base=["vlib/x86sym", "z3", "cbmc", "nasm/ld/objdump"])
