"""C05 (CBMC part): igzip compression touches only declared memory.

STALE  streaming isal_deflate never dereferences an input chunk after the call that consumed it returned:
       every chunk is its own exact-size heap object and is free()d before the next call (CBMC
       deallocated-object check / ASan natively), with NO_FLUSH, SYNC_FLUSH and FULL_FLUSH between the calls;
       plus the white-box invariant that needed match history has been copied into isal_zstate.buffer
       (harness/C07/h_stream.c with CHECK05=1)
SLOP   the 8-byte slop of bitbuf2.h: output objects have exactly avail_out bytes, avail_out swept around
       every threshold (stateless: harness/deflate_common/h_oneshot.c; streaming chunk sizes 1..9 in STALE)
"""
import itertools
from vlib.core import Query
from harness.deflate_common import dflplan as D
from harness.C07.plan import stream_query
from harness.C10.plan import _av


def cbmc_queries(tier):
    quick = tier == "quick"
    qs = []
    sched = [(1, 1, 1), (2, 1, 0), (1, 2, 0), (3, 0, 0), (0, 3, 0), (1, 0, 2), (0, 1, 2), (2, 0, 1)]
    for i, sp in enumerate(sched):
        n = sum(sp)
        for fl in (0, 1, 2):
            for oc in ((64, 8, 1) if quick else (64, 8, 7, 1)):
                for wrap in ((0,) if quick else (0, 3)):
                    if wrap == 3 and oc not in (64, 8):
                        continue
                    vecs = list(itertools.product(D.STATIC_LIT_CLASSES, repeat=n))
                    if quick:
                        vecs = [vecs[(i + fl + oc) % len(vecs)]]
                    for cl in vecs:
                        core = (sp == (1, 1, 1) and fl == 1 and oc == 64)
                        qs.append(stream_query("STALE", wrap, sp, oc, 0, fl, list(cl), check05=1, witness=core or (oc == 8 and fl == 2 and i == 1),
                                               core=core, fam="STALE", timeout=400))
    # flush requested with the SECOND chunk, a further non-final chunk after it, end of stream announced separately
    # (history buffered before the flush must not be counted as history of the chunk after it)
    for i, sp in enumerate([(2, 1, 1), (3, 0, 1), (2, 0, 1), (1, 1, 1)]):
        n = sum(sp)
        for fl in (1, 2):
            for oc in ((64,) if quick else (64, 8, 1)):
                vecs = list(itertools.product(D.STATIC_LIT_CLASSES, repeat=n))
                if quick:
                    vecs = [vecs[(i + fl) % len(vecs)]]
                for cl in vecs:
                    qs.append(stream_query("STALE", 0, sp, oc, 1, fl, list(cl), check05=1, witness=(i == 0 and fl == 2 and oc == 64), fam="STALE",
                                           timeout=400, flushat=1))
                    if sp[2]:   # ... and the chunk after the flush is itself fed with SYNC_FLUSH (so that it is compressed at once)
                        qs.append(stream_query("STALE", 0, sp, oc, 1, fl, list(cl), check05=1, witness=False, fam="STALE", timeout=400, flushat=1, flush3=1))
    nocls = ("c-", [], [], True)
    for n in (1, 3):
        for wrap in (0, 1):
            b = D.bound(n, wrap)
            for av in range(max(0, b - 9), b + 10):
                qs.append(_av(n, wrap, 0, 0, av, nocls))
                if n == 1:
                    for cls in D.class_vectors(n, D.STATIC_LIT_CLASSES, with_other=False):
                        qs.append(_av(n, wrap, 0, 1, av, cls))
    for q in qs:
        if q.qid.startswith("AV/"):
            q.qid = "SLOP/" + q.qid[3:]
            q.family = "SLOP"
            q.core = False
    info = dict(
        functions_encoded=["isal_deflate (input buffering, get_hist_size, history copy-down)", "isal_deflate_int", "isal_deflate_finish_base",
                           "bitbuf2.h set_buf/is_full/flush (8-byte slop)", "isal_deflate_stateless"],
        bounds={"STALE": "total input 3 bytes in 8 three-chunk schedules x flush {NO,SYNC,FULL} after chunk 1 x output chunk {64,8,1} (thorough: +7, zlib at 64/8, all class vectors), static table class vectors",
                "SLOP": "stateless n in {1,3}, raw+gzip, avail_out in bound-9..bound+9, default table; static table n=1"},
        stubs=["see C01 (wmemset, get_lit_code class split)"],
        assumptions=["white-box invariant: with has_hist == IGZIP_HIST after a call, isal_zstate.buffer holds all input since the last history reset "
                     "(inputs are far smaller than the window)"],
        outside=["a real look-back into stale memory needs >= 4-byte chunks on both sides of the call boundary (match finder): beyond the decided sizes; "
                 "the invariant above is the substitute", "levels 1-3, inflate side, dictionaries"])
    return qs, info
