from vlib.core import Query
from harness.C04.x86 import KERNELS

R = "harness.C04.x86:crc_query"


def x86_queries(tier):
    qs = []
    if tier == "quick":
        full = list(range(0, 301))
        extra = [383, 384, 385, 511, 512, 513, 527, 639, 640, 641, 767, 768, 769, 895, 1023, 1024, 1025, 1099]
        off_lens = list(range(0, 41)) + [63, 64, 65, 127, 128, 129, 255, 256, 257]
        offs = [1, 15]
        chunk = 60
    else:
        full = list(range(0, 1201))
        extra = [2047, 2048, 2049, 2303]
        off_lens = list(range(0, 301))
        offs = [1, 15, 63]
        chunk = 100
    for k in sorted(KERNELS):
        cases = [[n, 0] for n in full + extra] + [[n, o] for o in offs for n in off_lens]
        for i in range(0, len(cases), chunk):
            cs = cases[i:i + chunk]
            qs.append(Query("x86/%s/c%d" % (k, i // chunk), R, dict(kernel=k, cases=cs), core=(i == 0), family="x86/" + KERNELS[k][0],
                            weight=sum(c[0] + 50 for c in cs)))
    # crc32_iscsi_00/_01 dispatch on the number of 24-byte groups (1..128) of each <= 3072-byte block through a jump table, each entry
    # with its own pair of folding constants (K_table): one length per group count, plus the block boundary
    for k in ("crc32_iscsi_00", "crc32_iscsi_01"):
        blk = [[24 * g + (g % 23), 0] for g in range(13, 129)] + [[n, 0] for n in (3071, 3072, 3073, 3100, 6150)] + [[24 * g + 5, 3] for g in (57, 101, 128)]
        step = 8
        for i in range(0, len(blk), step):
            qs.append(Query("x86/%s/groups/c%d" % (k, i // step), R, dict(kernel=k, cases=blk[i:i + step]), core=False, family="x86/" + KERNELS[k][0],
                            weight=sum(c[0] + 50 for c in blk[i:i + step])))
    for k in sorted(KERNELS):
        qs.append(Query("x86/%s/huge-len-probe" % k, "harness.C04.x86:crc_huge_probe", dict(kernel=k, lows=[0, 17, 300], off=1, budget=12000),
                        core=False, family="x86/huge-len-probe", weight=40))
    # Adler-32 assembly kernels, bit-vector domain: only the scalar path (len < 32) is decidable by bit-blasting
    for k in ("adler32_sse", "adler32_avx2_4"):
        lens = list(range(0, 32))
        for i in range(0, 24 if tier == "quick" else 32, 8):
            qs.append(Query("x86/%s/len%d-%d" % (k, i, i + 7), "harness.C04.adler_x86:adler_query",
                            dict(kernel=k, cases=[[n, o] for n in lens[i:i + 8] for o in ((0, 1) if tier == "quick" else (0, 1, 15, 63))], abstract_from=1000,
                                 z3_timeout_ms=120000), core=(i == 0), family="x86/adler32", weight=300 + 100 * i))
    # Adler-32 assembly kernels, Z-linear domain: all lengths incl. the deferred-modulo (LIMIT = 5552) schedule
    for k in ("adler32_sse", "adler32_avx2_4"):
        small = list(range(0, 131 if tier == "quick" else 700))
        big = [255, 256, 257, 511, 512, 513, 1023, 1024, 1025, 5544, 5551, 5552, 5553, 5559, 5560, 5561, 6000, 11103, 11104, 11105, 11112]
        if tier != "quick":
            big += [16655, 16656, 16657, 22208, 22209, 30000]
        cases = [[n, o] for n in small for o in (0, 1)] + [[n, 0] for n in big] + [[n, 7] for n in big[:12]]
        step = 70
        for i in range(0, len(cases), step):
            qs.append(Query("x86/%s/lin/c%d" % (k, i // step), "harness.C04.adler_x86:adler_lin_query", dict(kernel=k, cases=cases[i:i + step]),
                            core=(i == 0), family="x86/adler32_zlinear", weight=sum(c[0] + 100 for c in cases[i:i + step])))
    info = dict(
        functions_encoded=sorted(KERNELS) + ["adler32_sse", "adler32_avx2_4 (bit-vector domain: len < 24 quick / < 32 thorough; Z-linear domain: all swept lengths up to 11112 (30000))"],
        bounds={"len": "every 0..%d plus %s at alignment 0; %s at alignment offsets %s" % (full[-1], extra, "0..%d (+ block boundaries)" % off_lens[40] if tier == "quick" else "0..300", offs),
                "seed": "all bits symbolic", "message": "all bits symbolic"},
        stubs=[],
        assumptions=["Z-linear domain (Adler kernels): 32-bit lane arithmetic is a ring homomorphic image of exact integer arithmetic; ranges are checked (over all inputs, by interval bounds) wherever a value is interpreted: dividend of div, widening, bit-field split, final halves < 65521",
                     "GF(2)-affine domain: every value is an affine form over seed and message bits; any non-linear use of a symbolic value aborts the query",
                     "the affine evaluation is cross-checked against native execution on random assignments in every case, and the concrete interpreter against native execution",
                     "CRC definitions of spec/crc_py.py, anchored to published check values (CRC-16/T10-DIF, CRC-32/ISO-HDLC, /BZIP2, /ISCSI, CRC-64/XZ, /WE, /ECMA-182, /GO-ISO, /REDIS, /NVME)",
                     "composition: the bit-serial definition satisfies crc(crc(s,A),B) = crc(s,A||B) by construction (state-passing with the same init/final xor), so kernel = definition for every len <= L gives every split of every message <= L"],
        outside=["lengths beyond the swept set", "bit-vector (z3/cvc5) decision of the Adler-32 vector path (undecided in 300 s at len 32, also with --solve-bv-as-int and with the modulo abstracted): that path is decided in the Z-linear domain instead (exact integer linear forms + interval bounds + congruence mod 65521)", "alignment offsets other than those listed"])
    return qs, info
