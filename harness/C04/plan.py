from vlib.core import Plan
from harness.C04.x86_plan import x86_queries
try:
    from harness.C04.base_plan import base_queries
except Exception:  # base half not present yet
    base_queries = None


def plan(tier, ctx):
    qs, info = x86_queries(tier)
    fe, bounds, stubs, ass, outside = list(info["functions_encoded"]), {"x86": info["bounds"]}, list(info["stubs"]), list(info["assumptions"]), list(info["outside"])
    if base_queries:
        bq, bi = base_queries(tier)
        qs = qs + bq
        fe += bi.get("functions_encoded", [])
        bounds["cbmc"] = bi.get("bounds", {})
        stubs += bi.get("stubs", [])
        ass += bi.get("assumptions", [])
        outside += bi.get("outside", [])
    return Plan("C04", "translation_validation", qs, engine="x86sym (gf2-affine) + cbmc-c", functions_encoded=fe, bounds=bounds, stubs=stubs,
                assumptions=ass, outside=outside, trusted_base=["vlib/x86sym instruction semantics", "spec/crc_py.py", "cbmc", "nasm/ld/objdump"])
