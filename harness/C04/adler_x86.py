"""Adler-32 assembly kernels (bv domain): adler32_sse, adler32_avx2_4 vs RFC 1950 definition."""
import random
import time
import z3
from vlib.core import HOLDS, VIOLATED, UNDECIDED, ERROR
from vlib.x86sym import loader, bv
from vlib.x86sym.interp import Exec
from vlib.x86sym.machine import Violation, Unsupported
from vlib.x86sym.runner import Setup, build_native_driver, validate_concrete, run_native, native_crash_replay, smt_check

params_global = {}
FILES = {"adler32_sse": "igzip/adler32_sse.asm", "adler32_avx2_4": "igzip/adler32_avx2_4.asm"}


def mk_setup(img, func, init, data, n, off, guard=None):
    s = Setup(img, func, guard)
    buf = s.region("buf", n, r=True, w=False, init=data, offset=off)
    s.args = [init, buf, n]
    return s


def adler_int(init, data):
    a, b = init & 0xffff, (init >> 16) & 0xffff
    for x in data:
        a = (a + x) % 65521
        b = (b + a) % 65521
    return (b << 16) | a


def adler_one(k, n, off, img, exe, rnd, timeout_ms, abstract_mod=False):
    stats = {"variables": 0, "clauses": 0, "paths": 0}
    val = 0
    for trial in range(3):
        init = (rnd.randrange(65521) << 16) | rnd.randrange(65521)
        data = [rnd.choice([0, 255, rnd.randrange(256)]) for _ in range(n)]
        ok, msg = validate_concrete(img, mk_setup(img, k, init, data, n, off), exe, ret_bits=32)
        if ok is False:
            return {"status": ERROR, "detail": "translator validation failed (%s len=%d): %s" % (k, n, msg)}
        val += 1
    A0, B0 = z3.BitVec("a0", 16), z3.BitVec("b0", 16)
    data = [z3.BitVec("d%d" % i, 8) for i in range(n)]
    pre = [z3.ULT(A0, 65521), z3.ULT(B0, 65521)]
    solver = z3.SolverFor("QF_BV")
    solver.add(*pre)
    ex = Exec(img, solver)
    if abstract_mod:
        # remainder by 65521 abstracted by an uninterpreted function on the exact (64-bit, non-wrapping) dividend:
        # "kernel reduces exactly the sums the definition reduces" is sufficient for equality; a sat answer under
        # this abstraction is NOT a counterexample (the caller then falls back to exact arithmetic)
        MOD = z3.Function("mod65521", z3.BitVecSort(64), z3.BitVecSort(64))
        qn = [0]

        def hook(w, lo, d):
            if d != 65521:
                raise Unsupported("div by %d" % d)
            qn[0] += 1
            return z3.BitVec("quot%d" % qn[0], w), z3.Extract(w - 1, 0, MOD(z3.ZeroExt(64 - w, lo) if w < 64 else lo))
        ex.div_hook = hook
    init = z3.ZeroExt(32, z3.Concat(B0, A0))
    su = mk_setup(img, k, init, data, n, off)
    finals = ex.run(su.initial_state())
    stats["paths"], stats["variables"] = len(finals), ex.n_insns
    # specification with exact integer arithmetic in 64-bit words (no overflow for the swept lengths)
    a, b = z3.ZeroExt(48, A0), z3.ZeroExt(48, B0)
    for x in data:
        a = a + z3.ZeroExt(56, x)
        b = b + a
    if abstract_mod:
        a, b = MOD(a), MOD(b)
    else:
        a, b = z3.URem(a, 65521), z3.URem(b, 65521)
    want = z3.Extract(31, 0, (b << 16) | a)
    for st, out in finals:
        if isinstance(out, Violation):
            _, m = smt_check(pre + st.path)
            cd = [m.eval(x, model_completion=True).as_long() for x in data]
            ok, rlog = native_crash_replay(lambda g: mk_setup(img, k, 1, cd, n, off, g), exe)
            return {"status": VIOLATED, "detail": "%s at %r (len=%d) | %s" % (out, out.insn, n, rlog), "cex": {"kernel": k, "len": n, "data": cd},
                    "replay_ok": True if ok else None, "stats": stats}
        abi = su.abi_check(st)
        if abi:
            return {"status": VIOLATED, "detail": "ABI: " + abi, "cex": None, "replay_ok": None}
        got = bv.extract(st.r["rax"], 31, 0)
        s = z3.Solver() if abstract_mod else z3.SolverFor("QF_BV")
        s.set("timeout", timeout_ms)
        s.add(*(pre + st.path + [bv.z(32, got) != want]))
        stats["clauses"] += 1
        r = s.check()
        if r == z3.unknown and params_global.get("dump"):
            open(params_global["dump"], "w").write(s.to_smt2())
        if r == z3.unknown or (r == z3.sat and abstract_mod):
            return {"status": UNDECIDED, "detail": "z3 %s (%s len=%d%s)" % (r, k, n, ", mod abstracted" if abstract_mod else ""), "stats": stats}
        if r == z3.sat:
            m = s.model()
            cd = [m.eval(x, model_completion=True).as_long() for x in data]
            ci = (m.eval(B0, model_completion=True).as_long() << 16) | m.eval(A0, model_completion=True).as_long()
            su2 = mk_setup(img, k, ci, cd, n, off)
            rax, _ = run_native(exe, k, su2.args, su2.regions)
            w = adler_int(ci, cd)
            return {"status": VIOLATED, "detail": "adler32 differs: len=%d init=%#x data=%s native=%s spec=%#x" % (n, ci, bytes(cd).hex(), rax, w),
                    "cex": {"kernel": k, "len": n, "init": ci, "data": cd}, "replay_ok": rax is not None and (rax & 0xffffffff) != w, "stats": stats}
    return {"status": HOLDS, "stats": stats, "validated_traces": val}


def adler_lin_one(k, n, off, img, exe, rnd):
    """Z-linear domain: every 32-bit lane is an exact integer linear form over the message bytes (0..255) and the
    seed halves (0..65520); `div ecx` by 65521 introduces a remainder variable with its congruence.  Decided:
      (1) no intermediate value can leave [0, 2^32) (interval bound over all inputs)  -> deferred-modulo schedule is safe
      (2) both halves of the result are remainders in [0, 65520] congruent to the RFC 1950 sums."""
    from vlib.x86sym.bv import Lin, LinCtx, NonLinear
    stats = {"variables": 0, "clauses": 0, "paths": 1}
    val = 0
    for trial in range(2):
        init = (rnd.randrange(65521) << 16) | rnd.randrange(65521)
        data = [rnd.choice([255, 255, rnd.randrange(256)]) for _ in range(n)]
        ok, msg = validate_concrete(img, mk_setup(img, k, init, data, n, off), exe, ret_bits=32)
        if ok is False:
            return {"status": ERROR, "detail": "translator validation failed (%s len=%d): %s" % (k, n, msg)}
        val += 1
    M = 65521
    ctx = LinCtx()
    A0, B0 = ctx.var("A0", 0, M - 1), ctx.var("B0", 0, M - 1)
    dv = [ctx.var("d%d" % i, 0, 255) for i in range(n)]
    data = [Lin(8, {v: 1}, 0, ctx) for v in dv]
    init = Lin(64, {A0: 1, B0: 65536}, 0, ctx)
    ex = Exec(img)

    def hook(w, lo, d):
        if d != M:
            raise Unsupported("div by %d" % d)
        if lo.tainted or lo.lo() < 0 or lo.hi() >= (1 << 32):
            ctx.suspects.append(("dividend of div", lo))
        r = ctx.fresh("rem", 0, M - 1)
        q = ctx.fresh("quo", 0, max(lo.hi(), 0) // M)
        ctx.mods[r] = (dict(lo.coef), lo.const, M)
        return Lin(w, {q: 1}, 0, ctx), Lin(w, {r: 1}, 0, ctx)
    ex.div_hook = hook
    su = mk_setup(img, k, init, data, n, off)
    try:
        finals = ex.run(su.initial_state())
    except NonLinear as e:
        return {"status": UNDECIDED, "detail": "outside the Z-linear class: %s" % e}
    stats["variables"] = ex.n_insns
    if len(finals) != 1:
        return {"status": ERROR, "detail": "adler kernel forked (%d paths)" % len(finals)}
    st, out = finals[0]
    if isinstance(out, Violation):
        cd = [255] * n
        ok, rlog = native_crash_replay(lambda g: mk_setup(img, k, 1, cd, n, off, g), exe)
        return {"status": VIOLATED, "detail": "%s at %r (len=%d) | %s" % (out, out.insn, n, rlog), "cex": {"kernel": k, "len": n},
                "replay_ok": True if ok else None, "stats": stats}
    abi = su.abi_check(st)
    if abi:
        return {"status": VIOLATED, "detail": "ABI: " + abi, "cex": None, "replay_ok": None}

    def replay(assign, what):
        ci = (assign.get(B0, 0) << 16) | assign.get(A0, 1)
        cd = [assign.get(v, 0) for v in dv]
        su2 = mk_setup(img, k, ci, cd, n, off)
        rax, _ = run_native(exe, k, su2.args, su2.regions)
        w_ = adler_int(ci, cd)
        bad = rax is not None and (rax & 0xffffffff) != w_
        return bad, "%s: len=%d init=%#x native=%s spec=%#x" % (what, n, ci, hex(rax & 0xffffffff) if rax is not None else None, w_)

    # (1) overflow suspects: the maximising assignment is a candidate counterexample, replayed natively
    for what, form in ctx.suspects:
        assign = {}
        for v, c in form.coef.items():
            if v in ctx.mods or v.startswith("quo"):
                continue
            assign[v] = ctx.bounds[v][1] if c > 0 else ctx.bounds[v][0]
        for v in [A0, B0] + dv:
            assign.setdefault(v, ctx.bounds[v][1])
        bad, msg = replay(assign, "32-bit accumulator may leave [0,2^32) (%s, bound %d)" % (what, form.hi()))
        if bad:
            return {"status": VIOLATED, "detail": msg, "cex": {"kernel": k, "len": n, "assign": "all inputs at their maximum"}, "replay_ok": True, "stats": stats}
        return {"status": UNDECIDED, "detail": "possible wrap-around not confirmed natively: " + msg, "stats": stats}
    res = bv.extract(st.r["rax"], 31, 0)
    if not isinstance(res, Lin):
        return {"status": ERROR, "detail": "result is not a Z-linear value: %r" % (res,)}
    from vlib.x86sym.bv import lin_divmod_pow2
    try:
        hi_, lo_ = lin_divmod_pow2(res, 16)
    except NonLinear as e:
        return {"status": UNDECIDED, "detail": "result halves not separable: %s" % e}

    def subst(form):
        coef, const = dict(form.coef), form.const
        changed = True
        while changed:
            changed = False
            for v in list(coef):
                if v in ctx.mods:
                    c = coef.pop(v)
                    f, k0, _m = ctx.mods[v]
                    for v2, c2 in f.items():
                        coef[v2] = coef.get(v2, 0) + c * c2
                    const += c * k0
                    changed = True
        return coef, const
    # RFC 1950: a = A0 + sum d_i ; b = B0 + n*A0 + sum (n-i) d_i   (mod 65521)
    spec_a = {A0: 1}
    spec_b = {B0: 1, A0: n}
    for i, v in enumerate(dv):
        spec_a[v] = 1
        spec_b[v] = n - i
    for name, got, want in (("low half (A)", lo_, spec_a), ("high half (B)", hi_, spec_b)):
        stats["clauses"] += 1
        if got.lo() < 0 or got.hi() > M - 1:
            return {"status": VIOLATED, "detail": "%s of the result is not reduced below 65521 (bound %d) len=%d" % (name, got.hi(), n), "cex": {"kernel": k, "len": n}, "replay_ok": None}
        coef, const = subst(got)
        diffv = None
        for v in set(coef) | set(want):
            if (coef.get(v, 0) - want.get(v, 0)) % M:
                diffv = v
        if const % M or diffv is not None:
            assign = {v: 0 for v in [A0, B0] + dv}
            if diffv is not None:
                assign[diffv] = 1
            bad, msg = replay(assign, "%s differs from RFC 1950 (coefficient of %s)" % (name, diffv))
            return {"status": VIOLATED, "detail": msg, "cex": {"kernel": k, "len": n, "var": diffv}, "replay_ok": bad, "stats": stats}
    return {"status": HOLDS, "stats": stats, "validated_traces": val}


def adler_lin_query(qid, params, ctx):
    k = params["kernel"]
    t0 = time.time()
    try:
        img = loader.build_image(ctx["repo"], [FILES[k]], ctx["scratch"])
        exe = build_native_driver(img, [k], ctx["scratch"] + "/x86", k)
        rnd = random.Random(13)
        agg = {"variables": 0, "clauses": 0, "paths": 0}
        val = 0
        for n, off in params["cases"]:
            r = adler_lin_one(k, n, off, img, exe, rnd)
            for kk in agg:
                agg[kk] += r.get("stats", {}).get(kk, 0)
            val += r.get("validated_traces", 0)
            if r["status"] != HOLDS:
                return r
    except Unsupported as e:
        return {"status": ERROR, "detail": "outside encodable class: %s" % e}
    return {"status": HOLDS, "stats": agg, "validated_traces": val, "solver_time_s": time.time() - t0, "witness_ok": agg["paths"] > 0}


def adler_query(qid, params, ctx):
    k = params["kernel"]
    t0 = time.time()
    try:
        img = loader.build_image(ctx["repo"], [FILES[k]], ctx["scratch"])
        exe = build_native_driver(img, [k], ctx["scratch"] + "/x86", k)
        rnd = random.Random(11)
        agg = {"variables": 0, "clauses": 0, "paths": 0}
        val = 0
        for n, off in params["cases"]:
            r = adler_one(k, n, off, img, exe, rnd, int(params.get("z3_timeout_ms", 60000)), abstract_mod=(n >= params.get("abstract_from", 24)))
            if r["status"] == UNDECIDED and n >= params.get("abstract_from", 24):
                r = adler_one(k, n, off, img, exe, rnd, int(params.get("z3_timeout_ms", 60000)), abstract_mod=False)
            for kk in agg:
                agg[kk] += r.get("stats", {}).get(kk, 0)
            val += r.get("validated_traces", 0)
            if r["status"] != HOLDS:
                return r
    except Unsupported as e:
        return {"status": ERROR, "detail": "outside encodable class: %s" % e}
    return {"status": HOLDS, "stats": agg, "validated_traces": val, "solver_time_s": time.time() - t0, "witness_ok": agg["paths"] > 0}
