/* C04, portable-C half: the 13 table-driven CRC routines of crc/crc_base.c and crc/crc64_base.c and
 * adler32_base / isal_adler32_bam1 against the bit-at-a-time specification spec/crc_spec.h.
 *
 *  -DFN=0..12 selects the routine.  N (message length) and S (split point) are concrete.
 *   H_ANCHOR  the specification (and the routine) on "123456789" against the published check value
 *   H_STEP    base(seed,[b]) == spec(seed,[b])              symbolic seed (full width) and byte
 *   H_LEN0    base(seed, buf, 0) == seed
 *   H_SPLIT   base(base(seed, A[0..S)), A[S..N)) == base(seed, A[0..N))
 *   H_DIRECT  base(seed, A[0..N)) == spec(seed, A[0..N))
 *   H_DUAL    spec only: norm flavour == bit-reversal dual of the refl flavour (anchors the *_norm
 *             flavours that have no catalogue entry), symbolic seed and N bytes
 *  crc16_t10dif_copy additionally: dst[0..N) == src[0..N) after every call.
 *   H_ADLER   adler32_base(seed, A[0..N)) == RFC 1950 definition, symbolic 32-bit seed
 *   H_ADLER_SPLIT  composition of adler32_base
 *   H_BAM1    isal_adler32_bam1 (igzip.c): B|(A-1) storage conversion around isal_adler32
 */
#include "verif.h"
#include <stdlib.h>
#include "crc_spec.h"
#include "crc.h"
#include "crc64.h"

#ifndef N
#define N 1
#endif
#ifndef S
#define S 0
#endif
#define N1 (N > 0 ? N : 1)

struct inputs {
        uint64_t seed;
        uint8_t a[N1];
};
DECLARE_INPUTS

static uint8_t *copydst; /* destination of crc16_t10dif_copy_base */
static const uint8_t *copysrc;
static size_t copylen;

#ifndef FN
#define FN 0
#endif
#if FN == 0
static const struct crc_flavour F = CRCF_T10DIF;
#define CHECK_SEED 0ull
#define CHECK_XOR  0ull
#define CHECK_VAL  0xD0DBull
#define BASE(s, b, n) ((uint64_t) crc16_t10dif_base((uint16_t) (s), (b), (n)))
#elif FN == 1
static const struct crc_flavour F = CRCF_T10DIF;
#define CHECK_SEED 0ull
#define CHECK_XOR  0ull
#define CHECK_VAL  0xD0DBull
#define IS_COPY
static uint64_t
copy_wrap(uint64_t s, uint8_t *b, uint64_t n)
{
        copydst = malloc(n); /* exact-size destination */
        copysrc = b;
        copylen = n;
        uint64_t r = crc16_t10dif_copy_base((uint16_t) s, copydst, b, n);
        for (uint64_t i = 0; i < n; i++)
                VASSERT(copydst[i] == b[i], "crc16_t10dif_copy_base: dst == src");
        return r;
}
#define BASE(s, b, n) copy_wrap((s), (b), (n))
#elif FN == 2
static const struct crc_flavour F = CRCF_IEEE;
#define CHECK_SEED 0ull
#define CHECK_XOR  0ull
#define CHECK_VAL  0xFC891918ull /* CRC-32/BZIP2 */
#define BASE(s, b, n) ((uint64_t) crc32_ieee_base((uint32_t) (s), (b), (n)))
#elif FN == 3
static const struct crc_flavour F = CRCF_GZIP_REFL;
#define CHECK_SEED 0ull
#define CHECK_XOR  0ull
#define CHECK_VAL  0xCBF43926ull /* CRC-32/ISO-HDLC */
#define BASE(s, b, n) ((uint64_t) crc32_gzip_refl_base((uint32_t) (s), (b), (n)))
#elif FN == 4
static const struct crc_flavour F = CRCF_ISCSI;
#define CHECK_SEED 0xFFFFFFFFull
#define CHECK_XOR  0xFFFFFFFFull
#define CHECK_VAL  0xE3069283ull /* CRC-32/ISCSI (crc32c) */
#define BASE(s, b, n) ((uint64_t) crc32_iscsi_base((b), (int) (n), (unsigned int) (s)))
#elif FN == 5
static const struct crc_flavour F = CRCF_ECMA_REFL;
static const struct crc_flavour FD = CRCF_ECMA_NORM;
#define CHECK_SEED 0ull
#define CHECK_XOR  0ull
#define CHECK_VAL  0x995DC9BBDF1939FAull /* CRC-64/XZ */
#define BASE(s, b, n) crc64_ecma_refl_base((s), (b), (n))
#elif FN == 6
static const struct crc_flavour F = CRCF_ECMA_NORM;
#define CHECK_SEED 0ull
#define CHECK_XOR  0ull
#define CHECK_VAL  0x62EC59E3F1A4F00Aull /* CRC-64/WE */
#define CHECK2_SEED (~0ull)
#define CHECK2_XOR  (~0ull)
#define CHECK2_VAL  0x6C40DF5F0B497347ull /* CRC-64/ECMA-182 */
#define BASE(s, b, n) crc64_ecma_norm_base((s), (b), (n))
#elif FN == 7
static const struct crc_flavour F = CRCF_ISO_REFL;
static const struct crc_flavour FD = CRCF_ISO_NORM;
#define CHECK_SEED 0ull
#define CHECK_XOR  0ull
#define CHECK_VAL  0xB90956C775A41001ull /* CRC-64/GO-ISO */
#define BASE(s, b, n) crc64_iso_refl_base((s), (b), (n))
#elif FN == 8
static const struct crc_flavour F = CRCF_ISO_NORM;
#define NO_CHECK /* anchored through H_DUAL of FN=7 */
#define BASE(s, b, n) crc64_iso_norm_base((s), (b), (n))
#elif FN == 9
static const struct crc_flavour F = CRCF_JONES_REFL;
static const struct crc_flavour FD = CRCF_JONES_NORM;
#define CHECK_SEED (~0ull)
#define CHECK_XOR  (~0ull)
#define CHECK_VAL  0xE9C6D914C4B8D9CAull /* CRC-64/REDIS */
#define BASE(s, b, n) crc64_jones_refl_base((s), (b), (n))
#elif FN == 10
static const struct crc_flavour F = CRCF_JONES_NORM;
#define NO_CHECK
#define BASE(s, b, n) crc64_jones_norm_base((s), (b), (n))
#elif FN == 11
static const struct crc_flavour F = CRCF_ROCKSOFT_REFL;
static const struct crc_flavour FD = CRCF_ROCKSOFT_NORM;
#define CHECK_SEED 0ull
#define CHECK_XOR  0ull
#define CHECK_VAL  0xAE8B14860A799888ull /* CRC-64/NVME */
#define BASE(s, b, n) crc64_rocksoft_refl_base((s), (b), (n))
#elif FN == 12
static const struct crc_flavour F = CRCF_ROCKSOFT_NORM;
#define NO_CHECK
#define BASE(s, b, n) crc64_rocksoft_norm_base((s), (b), (n))
#elif FN == 13
/* Adler-32 */
uint32_t adler32_base(uint32_t adler32, uint8_t *start, uint64_t length);
uint32_t isal_adler32_bam1(uint32_t adler32, const unsigned char *start, uint64_t length);
static const struct crc_flavour F = { 32, 0, 0, 0 };
#define BASE(s, b, n) ((uint64_t) adler32_base((uint32_t) (s), (b), (n)))
#else
#error FN
#endif

static uint8_t
rev8(uint8_t x)
{
        return (uint8_t) spec_reflect(x, 8);
}

void
harness(void)
{
        VERIF_INPUTS();
        uint64_t m = spec_crc_mask(F.width);
        uint64_t seed = I.seed & m;
        uint8_t *buf = malloc(N); /* exact-size message object */
        for (int i = 0; i < N; i++)
                buf[i] = I.a[i];
#if defined(H_ANCHOR)
        static const uint8_t msg[9] = { '1', '2', '3', '4', '5', '6', '7', '8', '9' };
        uint8_t *mb = malloc(9);
        for (int i = 0; i < 9; i++)
                mb[i] = msg[i];
#if FN == 13
        VASSERT(spec_adler32(1, msg, 9) == 0x091E01DEu, "spec Adler-32(\"123456789\") == 0x091E01DE");
        VASSERT(adler32_base(1, mb, 9) == 0x091E01DEu, "adler32_base(1, \"123456789\") == 0x091E01DE");
#elif defined(NO_CHECK)
        /* no catalogue entry: the routine must at least agree with the spec on the message */
        VASSERT(BASE(0, mb, 9) == spec_crc(&F, 0, msg, 9), "routine == spec on \"123456789\"");
#else
        VASSERT((spec_crc(&F, CHECK_SEED, msg, 9) ^ CHECK_XOR) == CHECK_VAL, "specification reproduces the published check value");
        VASSERT((BASE(CHECK_SEED, mb, 9) ^ CHECK_XOR) == CHECK_VAL, "routine reproduces the published check value");
#ifdef CHECK2_VAL
        VASSERT((spec_crc(&F, CHECK2_SEED, msg, 9) ^ CHECK2_XOR) == CHECK2_VAL, "specification reproduces the 2nd published check value");
        VASSERT((BASE(CHECK2_SEED, mb, 9) ^ CHECK2_XOR) == CHECK2_VAL, "routine reproduces the 2nd published check value");
#endif
#endif
#elif defined(H_DUAL)
        /* FD = the non-reflected flavour of the same polynomial: FD(seed', m') == reflect(F(seed, m)) with
         * seed' = reflect(seed), m' = every byte bit-reversed (init/xorout all-ones is reflection invariant) */
        uint8_t rb[N1];
        for (int i = 0; i < N; i++)
                rb[i] = rev8(I.a[i]);
        VASSERT(spec_crc(&FD, spec_reflect(seed, 64), rb, N) == spec_reflect(spec_crc(&F, seed, I.a, N), 64),
                "norm flavour is the bit-reversal dual of the refl flavour");
#elif defined(H_STEP) || defined(H_DIRECT)
        VASSERT(BASE(seed, buf, N) == spec_crc(&F, seed, I.a, N), "routine == bit-at-a-time specification");
#elif defined(H_LEN0)
        VASSERT(BASE(seed, buf, 0) == seed, "len 0 returns the seed");
#elif defined(H_SPLIT)
        uint64_t whole = BASE(seed, buf, N);
        uint64_t part = BASE(seed, buf, S);
        part = BASE(part, buf + S, N - S);
        VASSERT(part == whole, "crc(crc(seed, A), B) == crc(seed, A||B)");
#elif defined(H_ADLER)
        /* a running Adler-32 value has both halves < 65521 */
        VASSUME((seed & 0xffff) < SPEC_ADLER_MOD && (seed >> 16) < SPEC_ADLER_MOD);
#if defined(CA) && defined(CB)
        /* case split on the two quotients of the final reductions (swept exhaustively by the plan):
         * unreduced sums XA = s1 + sum bytes, XB = s2 + sum of partial XA; CA*65521 <= XA < (CA+1)*65521 etc.
         * H_ADLER_CASES decides that the swept (CA,CB) rectangle covers every input. */
        {
                uint64_t XA = seed & 0xffff, XB = seed >> 16;
                for (int i = 0; i < N; i++) {
                        XA += I.a[i];
                        XB += XA;
                }
                VASSUME(XA >= (uint64_t) CA * SPEC_ADLER_MOD && XA < (uint64_t) (CA + 1) * SPEC_ADLER_MOD);
                VASSUME(XB >= (uint64_t) CB * SPEC_ADLER_MOD && XB < (uint64_t) (CB + 1) * SPEC_ADLER_MOD);
        }
#endif
#ifdef ADLER_PCT
        VASSERT(BASE(seed, buf, N) == spec_adler32((uint32_t) seed, I.a, N), "adler32_base == RFC 1950 definition (%)");
#else
        VASSERT(BASE(seed, buf, N) == spec_adler32_cs((uint32_t) seed, I.a, N), "adler32_base == RFC 1950 definition");
#endif
#elif defined(H_ADLER_CASES)
        VASSUME((seed & 0xffff) < SPEC_ADLER_MOD && (seed >> 16) < SPEC_ADLER_MOD);
        {
                uint64_t XA = seed & 0xffff, XB = seed >> 16;
                for (int i = 0; i < N; i++) {
                        XA += I.a[i];
                        XB += XA;
                }
                VASSERT(XA < (uint64_t) 2 * SPEC_ADLER_MOD, "quotient of A is 0 or 1");
                VASSERT(XB < (uint64_t) (N + 2) * SPEC_ADLER_MOD, "quotient of B is at most N+1");
        }
#elif defined(H_ADLER_CS)
        VASSUME((seed & 0xffff) < SPEC_ADLER_MOD && (seed >> 16) < SPEC_ADLER_MOD);
        uint32_t r = spec_adler32((uint32_t) seed, I.a, N);
        VASSERT(r == spec_adler32_cs((uint32_t) seed, I.a, N), "conditional-subtraction form == modulo form");
        VASSERT((r & 0xffff) < SPEC_ADLER_MOD && (r >> 16) < SPEC_ADLER_MOD, "halves stay < 65521");
#elif defined(H_ADLER_SPLIT)
        VASSUME((seed & 0xffff) < SPEC_ADLER_MOD && (seed >> 16) < SPEC_ADLER_MOD);
        uint64_t whole = BASE(seed, buf, N);
        uint64_t part = BASE(seed, buf, S);
        part = BASE(part, buf + S, N - S);
        VASSERT(part == whole, "adler(adler(seed, A), B) == adler(seed, A||B)");
#elif defined(H_BAM1)
        /* stored form: B<<16 | (A-1 mod 65521); documented domain: stored low half < 65521 */
        uint32_t st = (uint32_t) seed;
        VASSUME((st & 0xffff) < SPEC_ADLER_MOD && (st >> 16) < SPEC_ADLER_MOD);
        uint32_t a0 = ((st & 0xffff) + 1) % SPEC_ADLER_MOD;
        uint32_t v = spec_adler32((st & 0xffff0000u) | a0, I.a, N);
        uint32_t a1 = ((v & 0xffff) + SPEC_ADLER_MOD - 1) % SPEC_ADLER_MOD;
        VASSERT(isal_adler32_bam1(st, buf, N) == ((v & 0xffff0000u) | a1), "isal_adler32_bam1 == (B | A-1) form of RFC 1950 Adler-32");
#else
#error no harness selected
#endif
        for (int i = 0; i < N; i++)
                VASSERT(buf[i] == I.a[i], "message not modified");
        VREACHED();
}
VERIF_MAIN
