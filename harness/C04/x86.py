"""C04 engine-B queries: CRC kernels executed in the GF(2)-affine domain (every register/memory bit is an
affine form over the seed and message bits) and compared bit by bit with the bit-serial CRC definition."""
import random
import time
import z3
from vlib.core import HOLDS, VIOLATED, UNDECIDED, ERROR
from vlib.x86sym import loader, bv
from vlib.x86sym.bv import Aff, NonLinear
from vlib.x86sym.interp import Exec
from vlib.x86sym.machine import Violation, Unsupported
from vlib.x86sym.runner import Setup, build_native_driver, validate_concrete, run_native, native_crash_replay
from spec import crc_py

KERNELS = {}
for v in ("01", "02", "by4", "by16_10"):
    KERNELS["crc16_t10dif_" + v] = ("crc16_t10dif", "std")
    KERNELS["crc32_ieee_" + v] = ("crc32_ieee", "std")
for v in ("by4", "by4_02"):
    KERNELS["crc16_t10dif_copy_" + v] = ("crc16_t10dif", "copy")
for v in ("by8", "by8_02", "by16_10"):
    KERNELS["crc32_gzip_refl_" + v] = ("crc32_gzip_refl", "std")
for v in ("00", "01", "by16_10"):
    KERNELS["crc32_iscsi_" + v] = ("crc32_iscsi", "iscsi")
for f in ("ecma", "iso", "jones", "rocksoft"):
    for d in ("refl", "norm"):
        for v in ("by8", "by16_10"):
            KERNELS["crc64_%s_%s_%s" % (f, d, v)] = ("crc64_%s_%s" % (f, d), "std")


def mk_setup(img, func, conv, seed, data, n, off, guard=None):
    s = Setup(img, func, guard)
    buf = s.region("buf", n, r=True, w=False, init=data, offset=off)
    s.dst = None
    if conv == "copy":
        dst = s.region("dst", n, r=True, w=True, init=[0xA5] * n, offset=(off * 5 + 3) % 64)
        s.dst = dst
        s.args = [seed, dst, buf, n]
    elif conv == "iscsi":
        s.args = [buf, n, seed]
    else:
        s.args = [seed, buf, n]
    return s


def eval_aff(v, assign):
    """evaluate an int/Aff value under assignment (int whose bit j = value of variable j, bit 0 = 1)"""
    if bv.is_c(v):
        return v
    r = 0
    for i, m in enumerate(v.bits):
        r |= (bin(m & assign).count("1") & 1) << i
    return r


def crc_one(kname, n, off, ctx, img, exe, rnd):
    routine, conv = KERNELS[kname]
    w = crc_py.ROUTINES[routine][0]
    stats = {"variables": 0, "clauses": 0, "paths": 0}
    validated = 0
    # ---- translator validation in the concrete domain (native vs interpreter) + spec vs native
    for trial in range(2):
        seed = rnd.getrandbits(w)
        data = [rnd.randrange(256) for _ in range(n)]
        su = mk_setup(img, kname, conv, seed, data, n, off)
        ok, msg = validate_concrete(img, su, exe, ret_bits=w)
        if ok is False:
            return {"status": ERROR, "detail": "translator validation failed (%s len=%d): %s" % (kname, n, msg)}
        validated += 1
    # ---- affine run: variables 1..w = seed bits, then 8 per message byte
    nvars = 1 + w + 8 * n
    seed_bits = [1 << (1 + i) for i in range(w)]
    data_bits = [[1 << (1 + w + 8 * j + i) for i in range(8)] for j in range(n)]
    seed_val = Aff(seed_bits + [0] * (64 - w))
    data_vals = [Aff(list(b)) for b in data_bits]
    ex = Exec(img)
    setup = mk_setup(img, kname, conv, seed_val, data_vals, n, off)
    st0 = setup.initial_state()
    extra = {}

    def outside(addr):
        # a byte outside the buffer read by an aligned-word over-read: 8 fresh variables; the result must not depend on them
        if addr not in extra:
            base = nvars + 8 * len(extra)
            extra[addr] = Aff([1 << (base + i) for i in range(8)])
        return extra[addr]
    st0.mem.soft = []
    st0.mem.outside_fn = outside
    try:
        finals = ex.run(st0)
    except NonLinear as e:
        return {"status": ERROR, "detail": "outside encodable class (non-linear use of a symbolic value): %s" % e}
    stats["paths"] = len(finals)
    stats["variables"] = ex.n_insns
    if len(finals) != 1:
        return {"status": ERROR, "detail": "CRC kernel forked on data (%d paths)" % len(finals)}
    st, out = finals[0]

    def cex_from_mask(mask):
        """an assignment (seed, data) on which an affine form with this non-zero mask evaluates to 1"""
        if mask & 1:
            a = 1
        else:
            low = mask & -mask
            a = 1 | low
        seed = (a >> 1) & ((1 << w) - 1)
        data = [(a >> (1 + w + 8 * j)) & 0xFF for j in range(n)]
        return seed, data

    if isinstance(out, Violation):
        data = [0] * n
        ok, rlog = native_crash_replay(lambda g: mk_setup(img, kname, conv, 0, data, n, off, g), exe)
        return {"status": VIOLATED, "detail": "%s at %r (len=%d off=%d) | %s" % (out, out.insn, n, off, rlog),
                "cex": {"kernel": kname, "len": n, "off": off}, "replay_ok": True if ok else None, "replay_log": rlog, "stats": stats}
    abi = setup.abi_check(st)
    if abi:
        return {"status": VIOLATED, "detail": "ABI: " + abi, "cex": {"kernel": kname, "len": n}, "replay_ok": None, "stats": stats}
    got = bv.extract(st.r["rax"], w - 1, 0)
    got_bits = bv.aff_of(w, got).bits
    want_bits = crc_py.crc_bits(routine, seed_bits, data_bits)
    stats["clauses"] = w
    # self-check of the affine evaluation against native execution on random assignments
    for trial in range(2):
        a = rnd.getrandbits(nvars) | 1
        seed = (a >> 1) & ((1 << w) - 1)
        data = [(a >> (1 + w + 8 * j)) & 0xFF for j in range(n)]
        su = mk_setup(img, kname, conv, seed, data, n, off)
        rax, regs = run_native(exe, kname, su.args, su.regions)
        if rax is None:
            return {"status": ERROR, "detail": "native run failed: %s" % regs}
        if eval_aff(got, a) != (rax & ((1 << w) - 1)):
            return {"status": ERROR, "detail": "affine-domain result disagrees with native execution (%s len=%d): encoding bug" % (kname, n)}
        validated += 1
    for i in range(w):
        diff = got_bits[i] ^ want_bits[i]
        if diff:
            # the difference form is not identically zero: let z3 produce the witness and replay it natively
            seed, data = cex_from_mask(diff)
            vs = z3.Bools(" ".join("x%d" % j for j in range(1, nvars))) if nvars > 1 else []
            su = mk_setup(img, kname, conv, seed, data, n, off)
            rax, regs = run_native(exe, kname, su.args, su.regions)
            want = crc_py.crc_int(routine, seed, data)
            rep = rax is not None and (rax & ((1 << w) - 1)) != want
            return {"status": VIOLATED, "detail": "bit %d of the result differs from the %s definition: len=%d seed=%#x data=%s native=%s spec=%#x"
                    % (i, routine, n, seed, bytes(data).hex(), hex(rax & ((1 << w) - 1)) if rax is not None else None, want),
                    "cex": {"kernel": kname, "len": n, "off": off, "seed": seed, "data": data}, "replay_ok": rep, "stats": stats,
                    "validated_traces": validated}
    if conv == "copy":
        for j in range(n):
            b = st.mem.b[setup.dst + j]
            bb = bv.aff_of(8, b).bits
            if bb != data_bits[j]:
                return {"status": VIOLATED, "detail": "copy form: dst[%d] != src[%d] (len=%d)" % (j, j, n),
                        "cex": {"kernel": kname, "len": n, "off": off}, "replay_ok": None, "stats": stats}
    if st.mem.soft:
        a, sz, rname, ins = st.mem.soft[0]
        return {"status": VIOLATED, "soft": True, "finding_key": "aligned-word-overread:%s" % kname,
                "detail": "%s len=%d off=%d: %d-byte aligned load at buf+%d reads %d byte(s) past the end of the buffer (%s); it stays inside one aligned word, so it cannot fault, "
                          "and the result was shown independent of the extra bytes" % (kname, n, off, sz, a - setup.regions[0]["base"], a + sz - setup.regions[0]["base"] - n, ins),
                "cex": {"kernel": kname, "len": n, "off": off}, "replay_ok": None, "stats": stats, "validated_traces": validated}
    return {"status": HOLDS, "stats": stats, "validated_traces": validated}


def crc_query(qid, params, ctx):
    """params: kernel, cases [[len, off], ...]"""
    kname = params["kernel"]
    t0 = time.time()
    bad = crc_py.self_test()
    if bad:
        return {"status": ERROR, "detail": "CRC specification failed its published-check-value anchors: %s" % bad}
    try:
        img = loader.build_image(ctx["repo"], ["crc/%s.asm" % kname], ctx["scratch"])
        exe = build_native_driver(img, [kname], ctx["scratch"] + "/x86", kname)
        agg = {"variables": 0, "clauses": 0, "paths": 0}
        val = 0
        rnd = random.Random(sum(map(ord, kname)))
        soft, nsoft = None, 0
        for n, off in params["cases"]:
            r = crc_one(kname, n, off, ctx, img, exe, rnd)
            for k in agg:
                agg[k] += r.get("stats", {}).get(k, 0)
            val += r.get("validated_traces", 0)
            if r["status"] != HOLDS:
                if r.get("soft"):
                    soft = soft or r     # keep checking the remaining cases; report the first soft finding at the end
                    nsoft += 1
                    continue
                return r
        if soft:
            soft["stats"] = agg
            soft["detail"] += " [%d of %d cases in this query]" % (nsoft, len(params["cases"]))
            soft["validated_traces"] = val
            return soft
    except Unsupported as e:
        return {"status": ERROR, "detail": "outside encodable class: %s" % e}
    except NonLinear as e:
        return {"status": ERROR, "detail": "outside encodable class (non-linear): %s" % e}
    return {"status": HOLDS, "stats": agg, "validated_traces": val, "solver_time_s": time.time() - t0, "witness_ok": agg["paths"] > 0}


HUGE_C = r'''
#include <stdio.h>
#include <stdlib.h>
#include <stdint.h>
#include <sys/mman.h>
uint64_t FUNC();
int main(int argc, char **argv) {
    uint64_t n = strtoull(argv[1], 0, 0), seed = 0x1234;
    unsigned char *p = mmap(0, n + 4096, PROT_READ | PROT_WRITE, MAP_PRIVATE | MAP_ANONYMOUS | MAP_NORESERVE, -1, 0);
    if (p == MAP_FAILED) { printf("MMAPFAIL\n"); return 3; }
    p[n - 1] = 0x5a; p[n / 2] = 0x17;
    uint64_t a = n / 3, b = n / 3, c = n - a - b;   /* three pieces, each < 2^32 */
    uint64_t one = CALL(seed, p, n) & MASK;
    uint64_t r = CALL(seed, p, a) & MASK; r = CALL(r, p + a, b) & MASK; r = CALL(r, p + a + b, c) & MASK;
    printf("ONESHOT %lx PIECES %lx\n", one, r);
    return one == r ? 0 : 1;
}
'''


def crc_huge_probe(qid, params, ctx):
    """64-bit length truncation probe (cf. C20): with len = 2^32 + L a correct kernel cannot return within the
    instruction budget (it must read 4 GiB); returning early means bytes of the message were never read, so the
    result cannot be the CRC of the message.  Read bytes are materialised lazily as zero."""
    import os
    import subprocess
    kname = params["kernel"]
    routine, conv = KERNELS[kname]
    w = crc_py.ROUTINES[routine][0]
    t0 = time.time()
    stats = {"variables": 0, "clauses": 0, "paths": 0}
    try:
        img = loader.build_image(ctx["repo"], ["crc/%s.asm" % kname], ctx["scratch"])
        for L in params["lows"]:
            n = (1 << 32) + L
            s = Setup(img, kname)
            buf = s.region("buf", n, r=True, w=False, init=None, offset=params.get("off", 0))
            if conv == "copy":
                dst = s.region("dst", n, r=True, w=True, init=None, offset=1 << 34)   # clear of the 4 GiB source region
                s.args = [0x1234, dst, buf, n]
            elif conv == "iscsi":
                s.args = [buf, n, 0x1234]
            else:
                s.args = [0x1234, buf, n]
            st0 = s.initial_state()
            nread = [0]

            def lazy(addr):
                nread[0] += 1
                return 0
            st0.mem.find(buf, 1).lazy = lazy
            st0.mem.soft = []
            st0.mem.outside_fn = lambda a: 0
            ex = Exec(img, max_steps=params.get("budget", 30000))
            finals = ex.run(st0)
            stats["paths"] += len(finals)
            stats["variables"] += ex.n_insns
            for st, out in finals:
                if isinstance(out, Violation):
                    if out.kind == "no-termination":
                        continue
                    return {"status": VIOLATED, "detail": "%s (len=2^32+%d): %s at %r" % (kname, L, out, out.insn), "cex": {"len": n}, "replay_ok": None, "stats": stats}
                # returned within the budget: bytes unread
                d = ctx["scratch"] + "/x86"
                src, exe = os.path.join(d, "hugecrc_%s.c" % kname), os.path.join(d, "hugecrc_%s" % kname)
                call = {"std": "FUNC(s, p, n)", "iscsi": "FUNC(p, n, s)", "copy": "FUNC(s, p, p, n)"}[conv]
                code = HUGE_C.replace("CALL(seed, p, n)", call.replace("FUNC", kname).replace("s,", "seed,").replace(", s)", ", seed)"))
                code = code.replace("CALL(seed, p, a)", call.replace("FUNC", kname).replace("s,", "seed,").replace(", s)", ", seed)").replace(" n", " a"))
                code = code.replace("CALL(r, p + a, b)", call.replace("FUNC", kname).replace("s,", "r,").replace(", s)", ", r)").replace("p,", "p + a,").replace(" n", " b"))
                code = code.replace("CALL(r, p + a + b, c)", call.replace("FUNC", kname).replace("s,", "r,").replace(", s)", ", r)").replace("p,", "p + a + b,").replace(" n", " c"))
                code = code.replace("FUNC()", kname + "()").replace("MASK", hex((1 << w) - 1) + "ull")
                open(src, "w").write(code)
                rep, rlog = None, "native replay not built"
                if conv != "copy" and subprocess.run(["gcc", "-O1", "-w", src] + list(img.objs) + ["-o", exe], stdout=subprocess.PIPE, stderr=subprocess.PIPE).returncode == 0:
                    try:
                        p = subprocess.run([exe, str(n)], stdout=subprocess.PIPE, stderr=subprocess.PIPE, timeout=600)
                        rlog = "native: " + p.stdout.decode().strip()
                        rep = True if p.returncode == 1 else (False if p.returncode == 0 else None)
                    except subprocess.TimeoutExpired:
                        rlog = "native replay timed out"
                return {"status": VIOLATED, "detail": "%s returned for len=2^32+%d after reading only %d bytes (64-bit length truncated) | %s" % (kname, L, nread[0], rlog),
                        "cex": {"kernel": kname, "len": n, "bytes_read": nread[0]}, "replay_ok": rep, "replay_log": rlog, "stats": stats}
    except Unsupported as e:
        return {"status": ERROR, "detail": "outside encodable class: %s" % e}
    return {"status": HOLDS, "stats": stats, "solver_time_s": time.time() - t0, "witness_ok": stats["paths"] > 0}
