"""C04, engine A half: the 13 table-driven CRC routines of crc/crc_base.c + crc/crc64_base.c, adler32_base
and isal_adler32_bam1 against spec/crc_spec.h (bit-at-a-time LFSR / RFC 1950)."""
from vlib.core import Query

R = "vlib.cbmc:cbmc_query"
H = "harness/C04/h_crc_base.c"
CRC = ["crc/crc_base.c", "crc/crc64_base.c"]
ADL = ["igzip/adler32_base.c"]
FNS = ["crc16_t10dif", "crc16_t10dif_copy", "crc32_ieee", "crc32_gzip_refl", "crc32_iscsi",
       "crc64_ecma_refl", "crc64_ecma_norm", "crc64_iso_refl", "crc64_iso_norm",
       "crc64_jones_refl", "crc64_jones_norm", "crc64_rocksoft_refl", "crc64_rocksoft_norm"]
CADICAL = ["--sat-solver", "cadical"]  # XOR miters: measured crc32 direct n=3 4.6 s (minisat: >300 s)


def _q(qid, hd, units=CRC, unwind=66, core=False, fam=None, weight=1.0, witness=True, timeout=None, flags=None, vunits=None):
    p = dict(harness=H, units=units, hdefines=hd, unwind=unwind, witness=witness)
    if timeout:
        p["timeout"] = timeout
    if flags:
        p["flags"] = flags
    if vunits:
        p["vunits"] = vunits
    return Query(qid, R, p, core=core, family=fam or qid.rsplit("/", 1)[0], weight=weight)


def base_queries(tier):
    quick = tier == "quick"
    qs = []
    for fn, name in enumerate(FNS):
        wide = fn >= 5
        f = "FN=%d" % fn
        qs.append(_q("base/anchor/%s" % name, ["H_ANCHOR", f], fam="base/anchor", witness=False, core=True))
        qs.append(_q("base/step/%s" % name, ["H_STEP", "N=1", f], fam="base/step", core=True, weight=2))
        qs.append(_q("base/len0/%s" % name, ["H_LEN0", "N=1", f], fam="base/len0", core=True))
        # direct equality with the specification
        if quick:
            direct = [2] if wide else [2, 3]
        else:
            direct = [2, 3] if wide else [2, 3, 4]
        for n in direct:
            qs.append(_q("base/direct/%s/n%d" % (name, n), ["H_DIRECT", "N=%d" % n, f], fam="base/direct", flags=CADICAL,
                         core=(n == 2), weight=(60 if wide else 10) * (n - 1), witness=(n == 2), timeout=None if quick else 600))
        if not quick and wide and name in ("crc64_ecma_norm", "crc64_rocksoft_refl"):
            qs.append(_q("base/direct/%s/n4" % name, ["H_DIRECT", "N=4", f], fam="base/direct", flags=CADICAL, weight=300, witness=False, timeout=1200))
        # composition base(base(seed,A),B) == base(seed,A||B)
        if quick:
            splits = [(2, 1)] + ([(3, 2)] if name in ("crc64_ecma_refl", "crc64_iso_norm") else []) if wide else \
                [(4, 2), (8, 3)] + ([(16, 8)] if name in ("crc32_gzip_refl", "crc16_t10dif_copy") else [])
        else:
            splits = [(1, 0), (1, 1), (2, 1), (3, 1), (3, 2), (4, 2), (8, 4)] if wide else \
                sorted({(n, s) for n in (1, 2, 3, 4, 5, 8, 12, 16) for s in (0, 1, n // 2, n - 1, n)})
        for (n, s) in splits:
            cost = (12 * n * n if wide else 2 * n)
            qs.append(_q("base/split/%s/n%d_s%d" % (name, n, s), ["H_SPLIT", "N=%d" % n, "S=%d" % s, f], fam="base/split",
                         core=((n, s) in ((2, 1), (4, 2))), weight=cost, witness=((n, s) in ((2, 1), (4, 2))), timeout=450 if quick else 900))
    # the *_norm flavours without catalogue entry are tied to their anchored *_refl twins (specification only)
    for fn in (5, 7, 9, 11):
        for n in ((1, 2) if quick else (1, 2, 3, 4)):
            qs.append(_q("base/dual/%s/n%d" % (FNS[fn].replace("_refl", ""), n), ["H_DUAL", "N=%d" % n, "FN=%d" % fn], units=[],
                         fam="base/dual", core=(n == 1), weight=2, flags=CADICAL))
    # Adler-32
    A = "FN=13"
    qs.append(_q("base/adler/anchor", ["H_ANCHOR", A], units=ADL, fam="base/adler", witness=False, core=True))
    qs.append(_q("base/adler/cs_step", ["H_ADLER_CS", "N=1", A], units=[], fam="base/adler", core=True))
    for n in ((0, 1, 2) if quick else (0, 1, 2, 3)):
        qs.append(_q("base/adler/direct/n%d" % n, ["H_ADLER", "N=%d" % n, A], units=ADL, fam="base/adler", core=(n <= 1),
                     weight=1 + 50 * max(0, n - 2), timeout=None if quick else 900))
    # n = 3..6: exhaustive case split on the two quotients of adler32_base's final 64-bit "% 65521" (CA in {0,1}, CB in 0..n+1);
    # base/adler/cases/n decides that the rectangle covers every input.  Without the split: n=3 150 s, n>=4 undecided.
    for n in ((4,) if quick else (3, 4, 5, 6)):
        qs.append(_q("base/adler/cases/n%d" % n, ["H_ADLER_CASES", "N=%d" % n, A], units=[], fam="base/adler", core=True))
        for ca in (0, 1):
            for cb in range(0, n + 2):
                qs.append(_q("base/adler/direct/n%d_qa%d_qb%d" % (n, ca, cb), ["H_ADLER", "N=%d" % n, A, "CA=%d" % ca, "CB=%d" % cb], units=ADL,
                             fam="base/adler", core=(n == 4 and (ca, cb) in ((0, 0), (1, 4))), witness=((ca, cb) in ((0, 0), (1, n))),
                             weight=(n - 2) ** 3 * (1 + ca + cb), flags=CADICAL, timeout=None if quick else 1200))
    for (n, s) in ([(2, 1), (3, 1), (3, 2)] if quick else [(2, 1), (3, 1), (3, 2), (4, 1), (4, 2), (4, 3)]):
        qs.append(_q("base/adler/split/n%d_s%d" % (n, s), ["H_ADLER_SPLIT", "N=%d" % n, "S=%d" % s, A], units=ADL, fam="base/adler",
                     core=((n, s) == (2, 1)), weight=5 * n * n, timeout=None if quick else 900))
    bam_units = ["igzip/igzip.c", "igzip/hufftables_c.c", "igzip/adler32_base.c", "crc/crc_base.c", "crc/crc_base_aliases.c"]
    for n in ((0, 1, 2) if quick else (0, 1, 2, 3)):
        qs.append(_q("base/adler/bam1/n%d" % n, ["H_BAM1", "N=%d" % n, A], units=bam_units, vunits=["harness/C19/link_stubs.c"],
                     fam="base/adler", core=(n == 1), weight=20, timeout=None if quick else 900))
    info = dict(
        functions_encoded=["%s_base" % n for n in FNS] + ["adler32_base (igzip/adler32_base.c)", "isal_adler32_bam1 (igzip/igzip.c)",
                                                            "tables crc16tab, crc32_table_*, crc64_*_table (through the step lemma: every index)"],
        bounds={"step": "1 byte, seed full width symbolic (covers every table entry)", "len0": "symbolic seed",
                "direct": "n <= 3 (quick; crc64: 2) / 4 (thorough; crc64: 3, two flavours 4), seed + bytes symbolic",
                "split": "quick: (n,s) in {(4,2),(8,3)} (+(16,8) for crc32_gzip_refl, crc16_t10dif_copy) for 16/32-bit, (2,1) (+(3,2) for two flavours) for crc64; thorough: n in {1,2,3,4,5,8,12,16} x s in {0,1,n/2,n-1,n} "
                         "for 16/32-bit, n <= 8 for crc64 (cost grows steeply: duplicated 256x64-bit table look-ups)",
                "adler": "direct n <= 2 unsplit, n = 4 (thorough 3..6) by an exhaustive split on the quotients of the two final reductions; composition n <= 3 "
                         "(thorough 4); seed halves symbolic < 65521; bam1 n <= 2 (3)",
                "anchor": "\"123456789\" against the reveng catalogue values listed in spec/crc_spec.h; *_norm flavours of iso/jones/rocksoft have no "
                          "catalogue entry and are tied to the refl flavour by the bit-reversal duality (base/dual, spec-only, symbolic)"},
        stubs=["base/adler/bam1: igzip.c linked with harness/C19/link_stubs.c (unreachable compression kernels; isal_adler32 = adler32_base as in igzip_base_aliases.c)"],
        assumptions=["Adler-32 running values have both halves < 65521 (for other seeds adler32_base reduces them, the per-byte definition does not)",
                     "spec_adler32_cs (conditional subtraction) == spec_adler32 (modulo): decided per step (base/adler/cs_step) and extended by induction"],
        outside=["crc n > 16 for composition, > 4 for direct equality (the argument step lemma + composition => all n is an induction outside the solver)",
                 "Adler-32 n > 6 and the deferred-modulo schedule (MAX_ADLER_BUF = 2^28 bytes)"])
    return qs, info
