/* C19 (chunking clause) at the isal_inflate level: a gzip / zlib header delivered to isal_inflate()
 * in two calls must leave the decoder exactly where a one-shot delivery leaves it
 * (igzip_lib.h: isal_inflate "can be called repeatedly with more input"; property C19: "recover
 * the same field values ... for any chunking of the input").
 *
 * isal_inflate() parses the wrapper with isal_read_gzip_header / isal_read_zlib_header, whose own
 * resumability is decided by h_read.c.  What is added here is isal_inflate's glue: it keeps the
 * parsed-so-far header in a LOCAL isal_gzip_header / isal_zlib_header that is re-initialised on
 * every call.
 *
 * Concrete per query: header shape (EXTRA, NAMEL, COMML as in h_read.c; FDICT), SPLIT.  The stream
 * consists of the header only (no deflate data follows; both deliveries then stop in
 * read_header with ISAL_END_INPUT -> ISAL_BLOCK_HDR and return ISAL_DECOMP_OK).
 * Symbolic: MTIME, XFL, OS, extra bytes, DICTID.  Concrete: FLG, XLEN, string characters, CMF/FLG.
 */
#include "verif.h"
#include "rfc1950_1952.h"
#include "igzip_lib.h"

#define NZ(x) ((x) > 0 ? (x) : 1)
#ifndef EXTRA
#define EXTRA -1
#endif
#ifndef NAMEL
#define NAMEL -1
#endif
#ifndef COMML
#define COMML -1
#endif
#ifndef FDICT
#define FDICT 0
#endif
#define GZ_HL (10 + (EXTRA >= 0 ? 2 + EXTRA : 0) + (NAMEL >= 0 ? NAMEL + 1 : 0) + (COMML >= 0 ? COMML + 1 : 0))
#define Z_HL  (FDICT ? 6 : 2)
#ifdef I_GZIP
#define HL GZ_HL
#else
#define HL Z_HL
#endif

struct inputs {
        uint32_t time, xflags, os, dict_id;
        uint8_t extra[NZ(EXTRA)];
        uint32_t crc_ret[6];
};
DECLARE_INPUTS
#include "crc_hook.h"

static struct inflate_state s1, s2; /* one-shot, chunked */

void
harness(void)
{
        VERIF_INPUTS();
        uint8_t stream[HL];
        uint8_t whole[HL], chunk1[NZ(SPLIT)], chunk2[NZ(HL - SPLIT)];
        uint8_t out1[4], out2[4];
        uint32_t i;
        int r1, ra, rb;

#ifdef I_GZIP
        struct spec_gz_hdr sp;
        uint8_t name_c[NZ(NAMEL)], comment_c[NZ(COMML)];
        for (i = 0; i < NZ(NAMEL); i++)
                name_c[i] = (uint8_t) (0x61 + i);
        for (i = 0; i < NZ(COMML); i++)
                comment_c[i] = (uint8_t) (0x41 + i);
        memset(&sp, 0, sizeof(sp));
        sp.mtime = I.time;
        sp.xfl = (uint8_t) I.xflags;
        sp.os = (uint8_t) I.os;
#if EXTRA >= 0
        sp.has_extra = 1;
        sp.xlen = EXTRA;
        sp.extra = I.extra;
#endif
#if NAMEL >= 0
        sp.has_name = 1;
        sp.name_len = NAMEL;
        sp.name = name_c;
#endif
#if COMML >= 0
        sp.has_comment = 1;
        sp.comment_len = COMML;
        sp.comment = comment_c;
#endif
        VASSERT(spec_gz_hdr_build(stream, &sp, 0) == HL, "harness size arithmetic");
#define WRAP ISAL_GZIP
#else
        struct spec_zlib_hdr zp;
        zp.cinfo = 7;
        zp.flevel = 2;
        zp.fdict = FDICT;
        zp.dictid = I.dict_id;
        VASSERT(spec_zlib_hdr_build(stream, &zp) == HL, "harness size arithmetic");
#define WRAP ISAL_ZLIB
#endif
        for (i = 0; i < HL; i++)
                whole[i] = stream[i];
        for (i = 0; i < SPLIT; i++)
                chunk1[i] = stream[i];
        for (i = SPLIT; i < HL; i++)
                chunk2[i - SPLIT] = stream[i];

        /* one shot */
        isal_inflate_init(&s1);
        s1.crc_flag = WRAP;
        s1.next_in = whole;
        s1.avail_in = HL;
        s1.next_out = out1;
        s1.avail_out = 4;
        r1 = isal_inflate(&s1);

        /* two chunks */
        isal_inflate_init(&s2);
        s2.crc_flag = WRAP;
        s2.next_in = chunk1;
        s2.avail_in = SPLIT;
        s2.next_out = out2;
        s2.avail_out = 4;
        ra = isal_inflate(&s2);
        VASSERT(ra == ISAL_DECOMP_OK && s2.avail_in == 0, "incomplete header: ISAL_DECOMP_OK, all input consumed");
        s2.next_in = chunk2;
        s2.avail_in = HL - SPLIT;
        rb = isal_inflate(&s2);

        VASSERT(rb == r1, "chunked delivery: same return value as one-shot");
        VASSERT(s2.avail_in == s1.avail_in, "chunked delivery: same amount of input left");
        VASSERT(s2.block_state == s1.block_state, "chunked delivery: same block_state");
        VASSERT(s2.read_in_length == s1.read_in_length && s2.tmp_in_size == s1.tmp_in_size,
                "chunked delivery: no header byte handed to the deflate decoder");
        VASSERT(s2.total_out == s1.total_out && s2.avail_out == s1.avail_out, "chunked delivery: same output");
        VASSERT(s2.wrapper_flag == s1.wrapper_flag, "chunked delivery: wrapper parsed");
#if !defined(I_GZIP) && FDICT
        VASSERT(r1 == ISAL_NEED_DICT, "one-shot: FDICT => ISAL_NEED_DICT");
        VASSERT(s2.dict_id == s1.dict_id, "chunked delivery: same dict_id reported");
#endif
        VREACHED();
}
VERIF_MAIN
