/* Native reproducers (public API only, real library sources, no CBMC) for the genuine defects the
 * C19 queries expose on the unchanged tree.  Not part of any query; kept for the record.
 *
 *   R=/repo; S="$R/igzip/igzip.c $R/igzip/igzip_inflate.c $R/igzip/igzip_base_aliases.c $R/igzip/igzip_base.c \
 *     $R/igzip/encode_df.c $R/igzip/igzip_icf_base.c $R/igzip/igzip_icf_body.c $R/igzip/hufftables_c.c \
 *     $R/igzip/huff_codes.c $R/igzip/flatten_ll.c $R/igzip/adler32_base.c $R/igzip/proc_heap_base.c \
 *     $R/crc/crc_base.c $R/crc/crc_base_aliases.c $R/crc/crc64_base.c"
 *   gcc -O1 -g -w -fsanitize=address,undefined -I$R/include -I$R/igzip -I$R/crc -DAS_FEATURE_LEVEL=10 \
 *     -DHAVE_AS_KNOWS_AVX512=1 -Dx86_64 -D_GNU_SOURCE=1 harness/C19/repro_native.c $S -o /tmp/repro && /tmp/repro
 *
 * Output on the unchanged tree (commit fa3c78c):
 *   (1) isal_write_zlib_header(dict_id=0x11223344) -> 78 3f 44 33 22 11 ; RFC 1950: 78 3f 11 22 33 44 ;
 *       isal_read_zlib_header of the RFC bytes -> dict_id 0x44332211
 *   (2) isal_read_gzip_header, 10-byte header without FHCRC: one-shot hcrc field 0, split 4+6 hcrc 0x0c87e6bc
 *   (3) isal_inflate, gzip member with FNAME+FCOMMENT: one-shot ret 0 FINISH; first call ending after
 *       10, 11 or 12 bytes (inside the name) -> second call returns ISAL_INCORRECT_CHECKSUM, total_out 6
 *   (4) isal_inflate, zlib stream with FDICT: one-shot ISAL_NEED_DICT; first call ending after 2..5 bytes ->
 *       0,0 and ISAL_BLOCK_FINISH, ISAL_NEED_DICT never reported
 */
#include <stdio.h>
#include <string.h>
#include <stdlib.h>
#include "igzip_lib.h"

static void
hex(const char *t, const uint8_t *p, int n)
{
        int i;
        printf("%s", t);
        for (i = 0; i < n; i++)
                printf(" %02x", p[i]);
        printf("\n");
}

int
main(void)
{
        int s;
        { /* (1) zlib DICTID byte order */
                struct isal_zstream zs;
                struct isal_zlib_header z, zr;
                struct inflate_state st;
                uint8_t out[6], rfc[6] = { 0x78, 0x20, 0x11, 0x22, 0x33, 0x44 };
                memset(&zs, 0, sizeof(zs));
                zs.next_out = out;
                zs.avail_out = 6;
                isal_zlib_header_init(&z);
                z.info = 7;
                z.dict_flag = 1;
                z.dict_id = 0x11223344;
                printf("(1) isal_write_zlib_header ret=%u dict_id=0x11223344", isal_write_zlib_header(&zs, &z));
                hex(" bytes:", out, 6);
                rfc[1] += 31 - ((rfc[0] * 256 + rfc[1]) % 31);
                hex("    RFC 1950 bytes:", rfc, 6);
                isal_inflate_init(&st);
                st.next_in = rfc;
                st.avail_in = 6;
                isal_zlib_header_init(&zr);
                printf("    isal_read_zlib_header(RFC bytes) ret=%d", isal_read_zlib_header(&st, &zr));
                printf(" dict_id=0x%08x (RFC: 0x11223344)\n", zr.dict_id);
        }
        { /* (2) gz_hdr.hcrc after a chunked read of a header without FHCRC */
                uint8_t h[10] = { 0x1f, 0x8b, 8, 0, 1, 2, 3, 4, 0, 3 };
                struct inflate_state st;
                struct isal_gzip_header g;
                int r1, r2;
                isal_inflate_init(&st);
                isal_gzip_header_init(&g);
                st.next_in = h;
                st.avail_in = 10;
                r1 = isal_read_gzip_header(&st, &g);
                printf("(2) one-shot: ret=%d hcrc field=0x%08x\n", r1, g.hcrc);
                isal_inflate_init(&st);
                isal_gzip_header_init(&g);
                st.next_in = h;
                st.avail_in = 4;
                r1 = isal_read_gzip_header(&st, &g);
                st.next_in = h + 4;
                st.avail_in = 6;
                r2 = isal_read_gzip_header(&st, &g);
                printf("    split 4+6: ret=%d,%d hcrc field=0x%08x\n", r1, r2, g.hcrc);
        }
        { /* (3) isal_inflate: gzip header (FNAME+FCOMMENT) over two calls */
                uint8_t m[] = { 0x1f, 0x8b, 8, 0x18, 0, 0, 0, 0, 0, 3, 'a', 'b', 0, 'c', 'd', 0, 0x01, 0x00, 0x00, 0xff, 0xff,
                                0, 0, 0, 0, 0, 0, 0, 0 };
                uint8_t out[16];
                struct inflate_state st;
                int r1, r2;
                isal_inflate_init(&st);
                st.crc_flag = ISAL_GZIP;
                st.next_in = m;
                st.avail_in = sizeof(m);
                st.next_out = out;
                st.avail_out = 16;
                r1 = isal_inflate(&st);
                printf("(3) one-shot isal_inflate: ret=%d block_state=%d total_out=%u avail_in=%u\n", r1, st.block_state, st.total_out,
                       st.avail_in);
                for (s = 1; s < 16; s++) {
                        isal_inflate_init(&st);
                        st.crc_flag = ISAL_GZIP;
                        st.next_out = out;
                        st.avail_out = 16;
                        st.next_in = m;
                        st.avail_in = s;
                        r1 = isal_inflate(&st);
                        st.next_in = m + s;
                        st.avail_in = sizeof(m) - s;
                        r2 = isal_inflate(&st);
                        printf("    split %2d: ret=%d,%d block_state=%d total_out=%u avail_in=%u%s\n", s, r1, r2, st.block_state,
                               st.total_out, st.avail_in, (r2 == 0 && st.block_state == ISAL_BLOCK_FINISH) ? "" : "   <-- differs");
                }
        }
        { /* (4) isal_inflate: zlib header with FDICT over two calls */
                uint8_t m[] = { 0x78, 0x20, 0x44, 0x33, 0x22, 0x11, 0x01, 0x00, 0x00, 0xff, 0xff, 0, 0, 0, 1 };
                uint8_t out[16];
                struct inflate_state st;
                int r1, r2;
                m[1] += 31 - ((m[0] * 256 + m[1]) % 31);
                isal_inflate_init(&st);
                st.crc_flag = ISAL_ZLIB;
                st.next_in = m;
                st.avail_in = sizeof(m);
                st.next_out = out;
                st.avail_out = 16;
                r1 = isal_inflate(&st);
                printf("(4) one-shot isal_inflate: ret=%d (ISAL_NEED_DICT=%d) avail_in=%u\n", r1, ISAL_NEED_DICT, st.avail_in);
                for (s = 1; s < 7; s++) {
                        isal_inflate_init(&st);
                        st.crc_flag = ISAL_ZLIB;
                        st.next_out = out;
                        st.avail_out = 16;
                        st.next_in = m;
                        st.avail_in = s;
                        r1 = isal_inflate(&st);
                        st.next_in = m + s;
                        st.avail_in = sizeof(m) - s;
                        r2 = isal_inflate(&st);
                        printf("    split %d: ret=%d,%d block_state=%d avail_in=%u%s\n", s, r1, r2, st.block_state, st.avail_in,
                               (r1 == ISAL_NEED_DICT || r2 == ISAL_NEED_DICT) ? "" : "   <-- NEED_DICT lost");
                }
        }
        return 0;
}
