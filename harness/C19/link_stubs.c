/* Link-completeness stubs for the header (C19) and trailer (C11) harnesses.
 *
 * igzip.c and igzip_inflate.c reference the compression kernels and the Huffman block decoder
 * through symbols that the library provides in other translation units (igzip_base_aliases.c,
 * igzip_base.c, encode_df.c, igzip_icf_*.c, huff_codes.c; each costs ~15 s of goto-cc because of
 * <x86intrin.h>).  None of them is reachable from isal_write_{gzip,zlib}_header,
 * isal_read_{gzip,zlib}_header, check_{gzip,zlib}_checksum, write_trailer or the
 * ISAL_CHECKSUM_CHECK / ISAL_BLOCK_INPUT_DONE entry of isal_inflate as driven by the harnesses.
 * The stubs below make that claim checkable instead of trusted: every stub fails an assertion,
 * under CBMC (VASSERT(0)) as well as natively (abort), so reaching one is reported, never hidden.
 *
 * isal_adler32 is the one real definition: it is what igzip_base_aliases.c defines
 * (return adler32_base(...)), and adler32_base.c is linked for real.
 */
#include "verif_stub.h"
#include <stddef.h>
#include "igzip_lib.h"

struct hufftables_icf;
struct deflate_icf;

uint32_t adler32_base(uint32_t init, uint8_t *buf, uint64_t len);

uint32_t
isal_adler32(uint32_t init, const unsigned char *buf, uint64_t len)
{
        return adler32_base(init, (uint8_t *) buf, len); /* = igzip_base_aliases.c */
}

#define UNREACHABLE(name) STUB_FAIL("link stub " name " reached: harness left the functions it claims to encode")

void isal_deflate_body(struct isal_zstream *s) { UNREACHABLE("isal_deflate_body"); }
void isal_deflate_finish(struct isal_zstream *s) { UNREACHABLE("isal_deflate_finish"); }
void isal_deflate_icf_body(struct isal_zstream *s) { UNREACHABLE("isal_deflate_icf_body"); }
void isal_deflate_icf_finish_lvl1(struct isal_zstream *s) { UNREACHABLE("isal_deflate_icf_finish_lvl1"); }
void isal_deflate_icf_finish_lvl2(struct isal_zstream *s) { UNREACHABLE("isal_deflate_icf_finish_lvl2"); }
void isal_deflate_icf_finish_lvl3(struct isal_zstream *s) { UNREACHABLE("isal_deflate_icf_finish_lvl3"); }
void isal_deflate_hash_lvl0(uint16_t *a, uint32_t b, uint32_t c, uint8_t *d, uint32_t e) { UNREACHABLE("isal_deflate_hash_lvl0"); }
void isal_deflate_hash_lvl1(uint16_t *a, uint32_t b, uint32_t c, uint8_t *d, uint32_t e) { UNREACHABLE("isal_deflate_hash_lvl1"); }
void isal_deflate_hash_lvl2(uint16_t *a, uint32_t b, uint32_t c, uint8_t *d, uint32_t e) { UNREACHABLE("isal_deflate_hash_lvl2"); }
void isal_deflate_hash_lvl3(uint16_t *a, uint32_t b, uint32_t c, uint8_t *d, uint32_t e) { UNREACHABLE("isal_deflate_hash_lvl3"); }

struct deflate_icf *
encode_deflate_icf(struct deflate_icf *next_in, struct deflate_icf *end_in, struct BitBuf2 *bb,
                   struct hufftables_icf *hufftables)
{
        UNREACHABLE("encode_deflate_icf");
        return next_in;
}

uint64_t
create_hufftables_icf(struct BitBuf2 *bb, struct hufftables_icf *hufftables, struct isal_mod_hist *hist,
                      uint32_t end_of_block)
{
        UNREACHABLE("create_hufftables_icf");
        return 0;
}

int
decode_huffman_code_block_stateless(struct inflate_state *s, uint8_t *start_out)
{
        UNREACHABLE("decode_huffman_code_block_stateless");
        return 0;
}

#ifndef REPLAY
/* libc model: CBMC 6.11 ships no body for strnlen (a body-less function returns an arbitrary
 * value).  POSIX semantics; reads s[i] only for i < n and only up to the first NUL, so an
 * over-read of an exact-size object is still reported.  Natively the real libc strnlen is used. */
/* No object in the header/trailer harnesses is larger than MODEL_MAX bytes.  A length/limit above it can
 * only come from corrupted cursor arithmetic (e.g. avail_in wrapped below zero); it is reported as a
 * failed assertion and the path is cut, instead of surfacing as an unwinding failure / time-out.
 * Natively the real libc function runs and AddressSanitizer reports the out-of-bounds access. */
#define MODEL_MAX 40
size_t
strnlen(const char *s, size_t n)
{
        size_t i;
        if (n > MODEL_MAX) {
                STUB_FAIL("strnlen limit exceeds every buffer of the harness (cursor arithmetic corrupted)");
                __CPROVER_assume(0);
        }
        for (i = 0; i < n && s[i] != 0; i++)
                ;
        return i;
}

/* libc model: memcpy as a bounded byte loop.  CBMC's built-in memcpy turns a copy of SYMBOLIC size
 * into one byte_update over the whole destination object; for the ~90 KB struct inflate_state
 * (fixed_size_read copying avail_in bytes into state->tmp_in_buffer after a string whose length the
 * symbolic executor cannot fold) that exhausted 24 GB during propositional reduction.  The loop
 * touches only d[i], s[i] for i < n, every access bounds-checked by CBMC, so an out-of-bounds copy
 * is still reported.  Not modelled: the overlap check of the built-in (memcpy with overlapping
 * regions is not reported).  Loop bound = the query's --unwind; unwinding assertions are on. */
void *
memcpy(void *dst, const void *src, size_t n)
{
        unsigned char *d = (unsigned char *) dst;
        const unsigned char *s = (const unsigned char *) src;
        size_t i;
        if (n > MODEL_MAX) {
                STUB_FAIL("memcpy size exceeds every buffer of the harness (size arithmetic corrupted)");
                __CPROVER_assume(0);
        }
        /* the fixed-size scalar copies of unaligned.h (load/store_{le,be}_u{16,32,64}) as one typed
         * access, so that constants still fold in the symbolic executor */
        if (n == 2) {
                *(uint16_t *) dst = *(const uint16_t *) src;
                return dst;
        }
        if (n == 4) {
                *(uint32_t *) dst = *(const uint32_t *) src;
                return dst;
        }
        if (n == 8) {
                *(uint64_t *) dst = *(const uint64_t *) src;
                return dst;
        }
        for (i = 0; i < n; i++)
                d[i] = s[i];
        return dst;
}
#endif
