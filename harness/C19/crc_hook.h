/* Recording model of crc32_gzip_refl for the header harnesses (CBMC and native replay alike).
 *
 * Why: with the real table-driven CRC on both sides (implementation and oracle) the solver has to
 * prove two CRC evaluations over equal-but-differently-constructed byte expressions equal; that
 * XOR miter took 80-200 s+ for 14-25 header bytes (and 4 bytes of table CRC vs a bitwise CRC 71 s,
 * see DESIGN 3).  What property C19 says about the header CRC is about WHICH bytes are summed, with
 * WHICH seed, and WHERE/HOW the low 16 bits are stored/compared - not about the CRC polynomial
 * (that is C04).  So crc32_gzip_refl is replaced by a function that
 *   - records (seed, pointer, length, the bytes) of every call,
 *   - returns seed for length 0 (true of CRC-32: ~(~seed)),
 *   - otherwise returns an ARBITRARY 32-bit value taken from the harness inputs.
 * The obligations are stated on the recorded arguments and on the returned values, hence they hold
 * for every function with crc(s,-,0)=s, in particular the real crc32_gzip_refl(_base).  Chained
 * calls (the resumable reader) are checked to form a seed chain over consecutive byte ranges of
 * the header; that this equals one CRC over the whole range is the composition law of CRC-32
 * (crc(crc(s,a),b) = crc(s,a||b)), which belongs to C04.
 *
 * The including harness must have `uint32_t crc_ret[6]` in struct inputs.
 */
#ifndef CRC_HOOK_H
#define CRC_HOOK_H
#define CRC_MAXCALLS 6
#define CRC_MAXLEN   40

struct crc_call {
        uint32_t seed, ret;
        const unsigned char *buf;
        uint64_t len;
        uint8_t bytes[CRC_MAXLEN];
};
static struct crc_call crc_calls[CRC_MAXCALLS];
static unsigned crc_ncalls;
static int crc_hook_overflow;

uint32_t
crc32_gzip_refl(uint32_t seed, const unsigned char *buf, uint64_t len)
{
        uint64_t i;
        uint32_t ret;
        if (crc_ncalls >= CRC_MAXCALLS || len > CRC_MAXLEN) {
                crc_hook_overflow = 1; /* asserted to stay 0 by the harness */
                return 0;
        }
        ret = len == 0 ? seed : I.crc_ret[crc_ncalls];
        crc_calls[crc_ncalls].seed = seed;
        crc_calls[crc_ncalls].ret = ret;
        crc_calls[crc_ncalls].buf = buf;
        crc_calls[crc_ncalls].len = len;
        for (i = 0; i < len; i++)
                crc_calls[crc_ncalls].bytes[i] = buf[i];
        crc_ncalls++;
        return ret;
}
#endif
