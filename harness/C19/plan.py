from vlib.core import Query, Plan

R = "vlib.cbmc:cbmc_query"
HW = "harness/C19/h_write.c"
STUBS = ["harness/C19/link_stubs.c"]
CRC = ["crc/crc_base.c", "crc/crc_base_aliases.c", "crc/crc64_base.c"]
U_W = ["igzip/igzip.c", "igzip/hufftables_c.c", "igzip/adler32_base.c"] + CRC
U_RW = ["igzip/igzip.c", "igzip/igzip_inflate.c", "igzip/hufftables_c.c", "igzip/adler32_base.c"] + CRC


def plan(tier, ctx):
    qs = []
    qs.append(Query("wr_gzip/t", R, dict(harness=HW, units=U_W, vunits=STUBS, hdefines=["W_GZIP", "AVAIL=20", "EXTRA=2", "NAMEB=3", "COMMB=2"], unwind=30, witness=True)))
    qs.append(Query("wr_zlib/t", R, dict(harness=HW, units=U_W, vunits=STUBS, hdefines=["W_ZLIB", "AVAIL=6"], unwind=30, witness=True)))
    qs.append(Query("zlib_dictid_order/wr", R, dict(harness=HW, units=U_W, vunits=STUBS, hdefines=["W_ZLIB", "AVAIL=6", "DICTID_ORDER"], unwind=30, witness=True, finding_key="'zlib-dictid-byte-order'")))
    return Plan("C19", "model_checking", qs)
