"""C19: gzip/zlib header writers and readers against the RFC 1952 / RFC 1950 layout.

Families
  wr_gzip, wr_zlib          isal_write_{gzip,zlib}_header: RFC layout, required-size contract
  rd_gzip_spec              isal_read_gzip_header on spec-generated headers, one-shot and two chunks
  rd_gzip_ovf               ... with undersized / NULL extra, name, comment buffers (overflow + resume)
  rd_gzip_rt                ... on the writer's own output
  rd_gzip_arb               ... on N arbitrary bytes (documented codes, bounds, exact verdict, contents)
  rd_zlib_spec / _rt / _arb the same for isal_read_zlib_header
  zlib_dictid_order         DICTID most-significant-byte first (was a genuine defect: repaired in /repo 12d0b86)
  rd_hcrc_field             gz_hdr.hcrc after a chunked read of a header without FHCRC
  inflate_hdr_chunked       isal_inflate(): header split over two calls == one-shot
"""
from concurrent.futures import ThreadPoolExecutor

from vlib.core import Query, Plan

R = "vlib.cbmc:cbmc_query"
HW = "harness/C19/h_write.c"
HR = "harness/C19/h_read.c"
HI = "harness/C19/h_inflate_hdr.c"
STUBS = ["harness/C19/link_stubs.c"]
# crc32_gzip_refl is the recording model of harness/C19/crc_hook.h => no crc units
U_W = ["igzip/igzip.c", "igzip/hufftables_c.c", "igzip/adler32_base.c"]
U_RW = ["igzip/igzip.c", "igzip/igzip_inflate.c", "igzip/hufftables_c.c", "igzip/adler32_base.c"]
FLAGS = ["--max-field-sensitivity-array-size", "400"]

K_DICTID = "'zlib-dictid-byte-order'"
K_HCRC = "'gzip-hcrc-field-after-chunked-read'"
K_INFL_GZ = "'isal_inflate-gzip-header-state-lost-between-calls'"
K_INFL_Z = "'isal_inflate-zlib-fdict-lost-between-calls'"


def _prepare(ctx):
    """goto-cc the two slow units (15-17 s each, <x86intrin.h>) concurrently instead of one after
    the other under the per-file build lock of the query workers."""
    from vlib import cbmc
    cd = ctx.as_dict()
    with ThreadPoolExecutor(max_workers=2) as ex:
        res = list(ex.map(lambda u: cbmc.gb_for(cd, "%s/%s" % (ctx.repo, u), []), ["igzip/igzip.c", "igzip/igzip_inflate.c"]))
    return {"prebuilt_units": [bool(r[0]) for r in res]}


def gz_hl(e, n, c, h):
    return 10 + (2 + e if e >= 0 else 0) + (n + 1 if n >= 0 else 0) + (c + 1 if c >= 0 else 0) + 2 * h


_TIER = ["quick"]


def q(qs, qid, harness, units, hdef, family, unwind=42, core=False, witness=True, key=None, weight=1.0):
    if not core and len(qs) % (2 if _TIER[0] == "quick" else 4):
        witness = False  # vacuity twin on all core queries and on every 2nd (quick) / 4th (thorough) other query
    p = dict(harness=harness, units=units, vunits=STUBS, hdefines=hdef, unwind=unwind, flags=FLAGS, witness=witness)
    if key:
        p["finding_key"] = key
    qs.append(Query(qid, R, p, core=core, family=family, weight=weight))


def plan(tier, ctx):
    quick = tier == "quick"
    _TIER[0] = tier
    qs = []

    # ------------------------------------------------------------------ writers
    if quick:
        wcfg = [(-1, -1, -1), (0, -1, -1), (3, -1, -1), (-1, 4, -1), (-1, -1, 3), (2, 3, 2), (3, 4, 4)]
    else:
        rng = [-1, 0, 1, 2, 3]
        srng = [-1, 1, 2, 3, 4]
        wcfg = [(e, n, c) for e in rng for n in srng for c in srng]
    for (e, n, c) in wcfg:
        lo = 10 + (2 + e if e >= 0 else 0) + (1 if n >= 0 else 0) + (1 if c >= 0 else 0)
        hi = 10 + (2 + e if e >= 0 else 0) + max(n, 0) + max(c, 0) + 2
        if quick:
            av = sorted({0, lo - 1, lo, (lo + hi) // 2, hi - 1, hi, hi + 1})
        else:
            av = sorted({0} | set(range(lo - 1, hi + 2)))
        for a in av:
            q(qs, "wr_gzip/e%d_n%d_c%d/avail%d" % (e, n, c, a), HW, U_W,
              ["W_GZIP", "AVAIL=%d" % a, "EXTRA=%d" % e, "NAMEB=%d" % n, "COMMB=%d" % c], "wr_gzip",
              core=((e, n, c) in ((2, 3, 2), (-1, -1, -1)) and a in (lo, hi)), weight=2)
    for a in range(0, 9):
        q(qs, "wr_zlib/avail%d" % a, HW, U_W, ["W_ZLIB", "AVAIL=%d" % a], "wr_zlib", core=(a in (2, 6)))
    for a in (6, 8):
        q(qs, "zlib_dictid_order/wr/avail%d" % a, HW, U_W, ["W_ZLIB", "AVAIL=%d" % a, "DICTID_ORDER"],
          "zlib_dictid_order", core=True)

    # ------------------------------------------------------------------ gzip reader, spec-generated headers
    if quick:
        shapes = [(-1, -1, -1, 0), (-1, -1, -1, 1), (2, -1, -1, 0), (-1, 2, -1, 0), (-1, -1, 1, 1), (2, 2, 1, 1),
                  (3, 3, 2, 1), (0, 0, 0, 0)]
        full_split = {(2, 2, 1, 1), (-1, -1, -1, 1)}
    else:
        shapes = [(e, n, c, h) for e in (-1, 0, 2, 3) for n in (-1, 0, 1, 3) for c in (-1, 0, 2) for h in (0, 1)]
        full_split = set(shapes)
    k = 0
    for sh in shapes:
        e, n, c, h = sh
        hl = gz_hl(e, n, c, h)
        base = ["R_GZ_SPEC", "EXTRA=%d" % e, "NAMEL=%d" % n, "COMML=%d" % c, "HCRC=%d" % h]
        tag = "e%d_n%d_c%d_h%d" % sh
        for text in (0, 1):
            for tail in (0, 1):
                if quick and text != tail:
                    continue
                q(qs, "rd_gzip_spec/%s/oneshot_t%d_tail%d" % (tag, text, tail), HR, U_RW,
                  base + ["TEXT=%d" % text, "TAIL=%d" % tail], "rd_gzip_spec", core=(sh == (2, 2, 1, 1)))
        # FTEXT symbolic (one query per shape; 14 s measured for the largest)
        if sh in ((2, 2, 1, 1), (-1, -1, -1, 0)) or not quick:
            q(qs, "rd_gzip_spec/%s/oneshot_textsym" % tag, HR, U_RW, base, "rd_gzip_spec", weight=8)
        if sh in full_split:
            splits = list(range(0, hl))
        else:
            splits = sorted({0, 1, 9, 10, 11, hl - 2, hl - 1} & set(range(0, hl)))
        for s in splits:
            k += 1
            q(qs, "rd_gzip_spec/%s/split%d" % (tag, s), HR, U_RW, base + ["TEXT=%d" % (k & 1), "SPLIT=%d" % s],
              "rd_gzip_spec", core=(sh == (2, 2, 1, 1) and s in (5, 13, 19)))

    # ------------------------------------------------------------------ overflow + resume, NULL buffers
    if quick:
        ovf = [((3, 3, 2, 1), caps, sp) for caps in
               [(1, -2, -2), (-2, 1, -2), (-2, 3, -2), (-2, -2, 1), (2, 2, 2), (1, 1, 1), (-1, -1, -1), (-1, 2, -2),
                (-2, -1, -2), (-2, -1, 1), (-1, -2, -1)]   # name skipped (NULL) but comment wanted, and the reverse
               for sp in (-1, 12, 16, 19)]
        ovf += [((2, 2, 1, 0), (1, 1, 1), sp) for sp in (-1, 13, 15)]
    else:
        ovf = []
        for sh in ((3, 3, 2, 1), (2, 2, 1, 0)):
            e, n, c, h = sh
            for ce in [-2, -1] + list(range(1, e)):
                for cn in [-2, -1] + list(range(1, n + 1)):
                    for cc in [-2, -1] + list(range(1, c + 1)):
                        if (ce, cn, cc) == (-2, -2, -2):
                            continue
                        for sp in [-1] + list(range(10, gz_hl(*sh))):
                            ovf.append((sh, (ce, cn, cc), sp))
    for sh, caps, sp in ovf:
        e, n, c, h = sh
        k += 1
        hd = ["R_GZ_SPEC", "EXTRA=%d" % e, "NAMEL=%d" % n, "COMML=%d" % c, "HCRC=%d" % h, "TEXT=%d" % (k & 1),
              "EXTRAB=%d" % caps[0], "NAMEB=%d" % caps[1], "COMMB=%d" % caps[2]]
        if sp >= 0:
            hd.append("SPLIT=%d" % sp)
        q(qs, "rd_gzip_ovf/e%d_n%d_c%d_h%d/cap%d_%d_%d/%s" % (sh + caps + ("split%d" % sp if sp >= 0 else "oneshot",)),
          HR, U_RW, hd, "rd_gzip_ovf", core=(caps == (1, 1, 1) and sp == -1))

    # ------------------------------------------------------------------ writer -> reader
    rt_shapes = [(-1, -1, -1, 0), (2, 2, 1, 1), (3, 3, 2, 1)] if quick else shapes
    for sh in rt_shapes:
        e, n, c, h = sh
        hl = gz_hl(*sh)
        base = ["R_GZ_RT", "EXTRA=%d" % e, "NAMEL=%d" % n, "COMML=%d" % c, "HCRC=%d" % h]
        for sp in [-1] + sorted(set([5, hl - 1] if quick else [3, 10, hl // 2 + 5, hl - 1])):
            if sp >= hl:
                continue
            k += 1
            q(qs, "rd_gzip_rt/e%d_n%d_c%d_h%d/%s" % (sh + ("split%d" % sp if sp >= 0 else "oneshot",)), HR, U_RW,
              base + ["TEXT=%d" % (k & 1)] + (["SPLIT=%d" % sp] if sp >= 0 else []), "rd_gzip_rt",
              core=(sh == (2, 2, 1, 1) and sp == -1))

    # ------------------------------------------------------------------ arbitrary bytes
    for nn in ([0, 1, 9, 10, 11, 12, 13, 14, 16] if quick else list(range(0, 17))):
        q(qs, "rd_gzip_arb/nobuf/n%d" % nn, HR, U_RW, ["R_GZ_ARB", "N=%d" % nn, "EXTRAB=-1", "NAMEB=-1", "COMMB=-1"],
          "rd_gzip_arb", core=(nn in (10, 12)), weight=10 if nn >= 12 else 1)
    for caps in ([(2, 2, 2), (1, 3, 1)] if quick else [(2, 2, 2), (1, 3, 1), (4, 1, 2), (1, 1, 4), (3, 4, 3)]):
        for nn in ([12, 14, 16] if quick else list(range(10, 17))):
            q(qs, "rd_gzip_arb/cap%d_%d_%d/n%d" % (caps + (nn,)), HR, U_RW,
              ["R_GZ_ARB", "N=%d" % nn, "EXTRAB=%d" % caps[0], "NAMEB=%d" % caps[1], "COMMB=%d" % caps[2]],
              "rd_gzip_arb", weight=6)

    # ------------------------------------------------------------------ gz_hdr.hcrc must not depend on chunking
    for sh, sps in (((-1, -1, -1, 0), (-1, 1, 5, 9)), ((-1, 2, -1, 0), (-1, 4, 11))):
        e, n, c, h = sh
        for sp in sps:
            # the known finding only concerns a first chunk that ends inside the 10 fixed bytes
            q(qs, "rd_hcrc_field/e%d_n%d_c%d_h%d/%s" % (sh + ("split%d" % sp if sp >= 0 else "oneshot",)), HR, U_RW,
              ["R_GZ_SPEC", "HCRC_FIELD", "EXTRA=%d" % e, "NAMEL=%d" % n, "COMML=%d" % c, "HCRC=0", "TEXT=0"] +
              (["SPLIT=%d" % sp] if sp >= 0 else []), "rd_hcrc_field", key=(K_HCRC if 1 <= sp <= 9 else None))

    # ------------------------------------------------------------------ zlib reader
    for fd in (0, 1):
        zhl = 6 if fd else 2
        for tail in (0, 1):
            q(qs, "rd_zlib_spec/fdict%d/oneshot_tail%d" % (fd, tail), HR, U_RW, ["R_Z_SPEC", "FDICT=%d" % fd, "TAIL=%d" % tail],
              "rd_zlib_spec", unwind=12, core=True)
            q(qs, "rd_zlib_rt/fdict%d/oneshot_tail%d" % (fd, tail), HR, U_RW, ["R_Z_RT", "FDICT=%d" % fd, "TAIL=%d" % tail],
              "rd_zlib_rt", unwind=12, core=(tail == 1))
        for (zi, zl) in ([(7, 2), (0, 0)] if quick else [(7, 2), (0, 0), (15, 3), (7, 0), (3, 1)]):
            for sp in range(0, zhl):
                for mode, fam in (("R_Z_SPEC", "rd_zlib_spec"), ("R_Z_RT", "rd_zlib_rt")):
                    q(qs, "%s/fdict%d/i%d_l%d/split%d" % (fam, fd, zi, zl, sp), HR, U_RW,
                      [mode, "FDICT=%d" % fd, "SPLIT=%d" % sp, "ZINFO=%d" % zi, "ZLEVEL=%d" % zl], fam, unwind=12,
                      core=(fd == 1 and sp == 3 and zi == 7))
    for nn in range(0, 9):
        q(qs, "rd_zlib_arb/n%d" % nn, HR, U_RW, ["R_Z_ARB", "N=%d" % nn], "rd_zlib_arb", unwind=12, core=(nn in (2, 6)))
    q(qs, "zlib_dictid_order/rd/oneshot", HR, U_RW, ["R_Z_SPEC", "FDICT=1", "DICTID_ORDER"], "zlib_dictid_order", unwind=12,
      core=True)
    q(qs, "zlib_dictid_order/rd/split3", HR, U_RW, ["R_Z_SPEC", "FDICT=1", "DICTID_ORDER", "SPLIT=3", "ZINFO=7", "ZLEVEL=2"],
      "zlib_dictid_order", unwind=12, core=True)

    # ------------------------------------------------------------------ isal_inflate(): header over two calls
    ish = [(-1, -1, -1), (-1, 2, -1), (-1, 2, 2), (2, 2, -1)] if quick else \
          [(-1, -1, -1), (-1, 2, -1), (-1, 2, 2), (2, 2, -1), (2, -1, 1), (3, 1, 1), (0, 0, 0)]
    for sh in ish:
        e, n, c = sh
        hl = gz_hl(e, n, c, 0)
        sps = range(1, hl) if (not quick or sh == (-1, 2, 2)) else sorted({4, 10, 11, hl - 1} & set(range(1, hl)))
        # optional fields in stream order with their [start, end) offsets
        fields, pos = [], 10
        for ln in ((2 + e) if e >= 0 else None, (n + 1) if n >= 0 else None, (c + 1) if c >= 0 else None):
            if ln is not None:
                fields.append((pos, pos + ln))
                pos += ln
        for sp in sps:
            # known finding (parse state lost between isal_inflate calls): only when the second call resumes inside
            # an optional field that is followed by another one; every other split must hold and is NOT keyed
            inside = [i for i, (a, b) in enumerate(fields) if a <= sp < b]
            affected = bool(inside) and inside[0] < len(fields) - 1
            q(qs, "inflate_hdr_chunked/gzip_e%d_n%d_c%d/split%d" % (sh + (sp,)), HI, U_RW,
              ["I_GZIP", "EXTRA=%d" % e, "NAMEL=%d" % n, "COMML=%d" % c, "SPLIT=%d" % sp], "inflate_hdr_chunked",
              key=(K_INFL_GZ if affected else None), weight=3)
    for fd in (0, 1):
        for sp in range(1, 6 if fd else 2):
            q(qs, "inflate_hdr_chunked/zlib_fdict%d/split%d" % (fd, sp), HI, U_RW, ["I_ZLIB", "FDICT=%d" % fd, "SPLIT=%d" % sp],
              "inflate_hdr_chunked", key=(K_INFL_Z if (fd and sp >= 2) else None), weight=3)

    return Plan(
        "C19", "model_checking", qs,
        functions_encoded=["isal_write_gzip_header", "isal_write_zlib_header", "isal_gzip_header_init", "isal_zlib_header_init",
                           "isal_read_gzip_header", "isal_read_zlib_header", "fixed_size_read", "buffer_header_copy",
                           "string_header_copy", "isal_inflate_init", "unaligned.h load/store helpers",
                           "isal_inflate (wrapper-parsing prologue + read_header_stateful/read_header on empty input; family inflate_hdr_chunked only)"],
        bounds={
            "writers": "extra NULL or xlen 0..3, name/comment NULL or buffer of 1..4 bytes with symbolic contents incl. NUL "
                       "position; all scalar fields symbolic 32-bit; avail_out concrete: 0 and every value from (min required-1) "
                       "to (max required+1) [quick: <= 7 values per shape, 7 of 125 shapes]; zlib avail_out 0..8",
            "readers_spec": "header shapes extra{absent,0,2,3} x name{absent,0,1,3 chars} x comment{absent,0,2} x FHCRC "
                            "[quick 8 shapes]; two chunks at every split point 0..len-1 [quick: every point for 2 shapes, "
                            "7 points otherwise]; MTIME/XFL/OS/extra bytes/stored CRC16/tail symbolic; FLG, XLEN and the "
                            "characters of name/comment concrete (FTEXT both values; symbolic in the *_textsym queries)",
            "overflow": "capacities 1..needed-1 or NULL or exact for each of extra/name/comment, with one-shot and split "
                        "delivery [quick: 8 capacity triples x 4 deliveries]; capacity 0 not swept",
            "arbitrary_bytes": "gzip N=0..16, zlib N=0..8, every byte symbolic; reader buffers NULL or small (1..4)",
            "zlib": "CINFO 0..15, FLEVEL 0..3 symbolic (one-shot); concrete (info,level) pairs for the split queries; "
                    "DICTID, tail symbolic; splits 0..5",
            "inflate_hdr_chunked": "header only (no deflate data), FHCRC absent, split at every point [quick: subset]",
        },
        stubs=["crc32_gzip_refl := recording model returning an ARBITRARY value per call (seed for len 0) - harness/C19/crc_hook.h; "
               "obligations are on the recorded (seed, range, bytes) and on how the returned value is stored/compared, so they "
               "hold for any CRC function; chained reader calls rely on CRC composition crc(crc(s,a),b)=crc(s,a||b) (C04)",
               "strnlen: POSIX loop model (CBMC has none)",
               "memcpy: typed copy for n in {2,4,8}, byte loop otherwise (CBMC's built-in turns a symbolic-size copy into a "
               "byte_update of the whole 90 KB inflate_state: 24 GB OOM); overlap check of the built-in lost",
               "isal_deflate_body/finish/hash/icf*, encode_deflate_icf, create_hufftables_icf, "
               "decode_huffman_code_block_stateless: assert-false link stubs (unreachable from the encoded functions; reaching "
               "one fails the query)",
               "isal_adler32 := adler32_base (as igzip_base_aliases.c)"],
        assumptions=["writer: name/comment, when non-NULL, contain a NUL inside name_buf_len/comment_buf_len bytes "
                     "(property text: NUL-terminated name and comment); without it isal_write_gzip_header emits an "
                     "unterminated string - not counted as a violation",
                     "writer: extra_len <= 65535 (concrete 0..3 here); zlib info <= 15, level <= 3 (field widths)",
                     "XFL/OS are compared modulo 256 (32-bit struct fields, 8-bit header fields)",
                     "reader: inflate_state from isal_inflate_init, isal_gzip_header from isal_gzip_header_init plus buffers; "
                     "on overflow the caller re-calls with a larger buffer that preserves the bytes already stored (realloc)",
                     "reserved FLG bits 5..7 are ignored by the oracle (RFC 1952 asks a compliant decompressor to reject "
                     "them; ISA-L does not; not part of property C19)"],
        outside=["extra fields > 3 bytes written / > 16 bytes read, names/comments > 4 characters",
                 "three or more chunks; split delivery combined with symbolic FLG/XLEN/string characters",
                 "the CRC-32 value itself (C04); asm crc32_gzip_refl variants",
                 "isal_zstream fields other than next_in/avail_in/total_in/next_out/avail_out/total_out in the "
                 "'stream untouched' check",
                 "isal_inflate beyond the wrapper prologue (C02/C07)"],
        trusted_base=["cbmc 6.11 C front end + SAT back end", "spec/rfc1950_1952.h (transcribed from RFC 1952 2.3, RFC 1950 2.2)"],
        prepare=_prepare,
        extra={"exhaustive": False,
               "finding_keys": {"gzip-hcrc-field-after-chunked-read": "family rd_hcrc_field",
                                "isal_inflate-gzip-header-state-lost-between-calls": "family inflate_hdr_chunked (gzip)",
                                "isal_inflate-zlib-fdict-lost-between-calls": "family inflate_hdr_chunked (zlib)"}})
