/* failing stub body usable from support units (no struct inputs there).
 * NOTE: goto-cc does not predefine __CPROVER__; the native replay build passes -DREPLAY to every
 * file, so REPLAY is the switch between the two worlds (as in spec/verif.h). */
#ifndef VERIF_STUB_H
#define VERIF_STUB_H
#ifdef REPLAY
#include <stdio.h>
#include <stdlib.h>
#define STUB_FAIL(msg) do { printf("ASSERT-FAIL: %s\n", msg); fflush(stdout); exit(1); } while (0)
#else
#define STUB_FAIL(msg) __CPROVER_assert(0, msg)
#endif
#endif
