/* C19 writers: isal_write_gzip_header / isal_write_zlib_header (igzip/igzip.c) against the
 * RFC 1952 / RFC 1950 layout of spec/rfc1950_1952.h.
 *
 * Concrete per query (swept by plan.py):  AVAIL (bytes at next_out; the output object has exactly
 * that size so any excess write is an out-of-bounds store), for gzip additionally
 *   EXTRA   -1: extra == NULL, else extra_len (0..3) and an extra[] object of exactly that size
 *   NAMEB   -1: name == NULL,  else name_buf_len (1..4), name[] object of exactly that size
 *   COMMB   -1: comment == NULL, else comment_buf_len (1..4)
 * Symbolic: every scalar field (text, time, xflags, os, hcrc as 32-bit values; info, level,
 * dict_flag, dict_id), all payload bytes incl. the position of the terminating NUL, the previous
 * contents of the output buffer, total_out.
 */
#include "verif.h"
#include "rfc1950_1952.h"
#include "igzip_lib.h"

#ifndef AVAIL
#error AVAIL
#endif
#define NZ(x) ((x) > 0 ? (x) : 1)

#if defined(W_GZIP)
struct inputs {
        uint32_t text, time, xflags, os, hcrc, flags, extra_buf_len;
        uint32_t total_out;
        uint32_t crc_ret[6];
        uint8_t extra[NZ(EXTRA)];
        uint8_t name[NZ(NAMEB)];
        uint8_t comment[NZ(COMMB)];
        uint8_t out0[NZ(AVAIL)];
};
#else
struct inputs {
        uint32_t info, level, dict_id, dict_flag;
        uint32_t total_out;
        uint32_t crc_ret[6];
        uint8_t out0[NZ(AVAIL)];
};
#endif
DECLARE_INPUTS
#include "crc_hook.h" /* also satisfies igzip.c's reference to crc32_gzip_refl in the zlib build */

static struct isal_zstream strm; /* zero-initialised; the writers use next_out/avail_out/total_out only */

/* exact-size objects: index of first NUL or len if none */
static uint32_t
first_nul(const uint8_t *s, uint32_t len)
{
        uint32_t i;
        for (i = 0; i < len; i++)
                if (s[i] == 0)
                        return i;
        return len;
}

void
harness(void)
{
        VERIF_INPUTS();
#if AVAIL > 0
        uint8_t out[AVAIL];
        memcpy(out, I.out0, AVAIL);
        uint8_t *outp = out;
#else
        uint8_t out_dummy[1];
        uint8_t *outp = out_dummy + 1; /* one-past pointer: no byte may be accessed */
#endif
        uint8_t expect[64];
        uint32_t need, ret, i;

        strm.next_out = outp;
        strm.avail_out = AVAIL;
        strm.total_out = I.total_out;

#if defined(W_GZIP)
        struct isal_gzip_header gz;
        struct spec_gz_hdr sp;
#if EXTRA >= 0
        uint8_t extra[NZ(EXTRA)];
        memcpy(extra, I.extra, NZ(EXTRA));
#endif
#if NAMEB >= 0
        char name[NZ(NAMEB)];
        memcpy(name, I.name, NZ(NAMEB));
        /* documented: name is a NUL-terminated string inside its buffer (property C19: "NUL-terminated
         * name and comment"; igzip_lib.h: name_buf_len = length of the name buffer) */
        VASSUME(first_nul(I.name, NAMEB) < NAMEB);
#endif
#if COMMB >= 0
        char comment[NZ(COMMB)];
        memcpy(comment, I.comment, NZ(COMMB));
        VASSUME(first_nul(I.comment, COMMB) < COMMB);
#endif
        isal_gzip_header_init(&gz);
        gz.text = I.text;
        gz.time = I.time;
        gz.xflags = I.xflags;
        gz.os = I.os;
        gz.hcrc = I.hcrc;
        gz.flags = I.flags;                 /* "internal data": must not matter */
        /* reader-side capacity: must not matter to the writer.  Bounded so that a writer that (wrongly)
         * copied extra_buf_len bytes stays inside the loop bound of the memcpy model and is reported as
         * an out-of-bounds access / layout violation rather than as an unwinding failure. */
        VASSUME(I.extra_buf_len <= 16);
        gz.extra_buf_len = I.extra_buf_len;
#if EXTRA >= 0
        gz.extra = extra;
        gz.extra_len = EXTRA;
#endif
#if NAMEB >= 0
        gz.name = name;
        gz.name_buf_len = NAMEB;
#endif
#if COMMB >= 0
        gz.comment = comment;
        gz.comment_buf_len = COMMB;
#endif
        struct isal_gzip_header gz0 = gz;

        memset(&sp, 0, sizeof(sp));
        sp.ftext = I.text != 0;
        sp.mtime = I.time;
        sp.xfl = (uint8_t) I.xflags; /* XFL and OS are one byte each in the RFC */
        sp.os = (uint8_t) I.os;
#if EXTRA >= 0
        sp.has_extra = 1;
        sp.xlen = EXTRA;
        sp.extra = I.extra;
#endif
#if NAMEB >= 0
        sp.has_name = 1;
        sp.name_len = first_nul(I.name, NAMEB);
        sp.name = I.name;
#endif
#if COMMB >= 0
        sp.has_comment = 1;
        sp.comment_len = first_nul(I.comment, COMMB);
        sp.comment = I.comment;
#endif
        /* header CRC: see crc_hook.h (crc32_gzip_refl is a recording, arbitrary-valued model) */
        sp.has_hcrc = 0;
        uint32_t pre = spec_gz_hdr_build(expect, &sp, 0);
        sp.has_hcrc = I.hcrc != 0;
        if (sp.has_hcrc)
                expect[3] |= SPEC_GZ_FHCRC;
        need = spec_gz_hdr_size(&sp);
        VASSERT(need == pre + (sp.has_hcrc ? 2u : 0u), "spec self-consistency");

        ret = isal_write_gzip_header(&strm, &gz);

        VASSERT(gz.text == gz0.text && gz.time == gz0.time && gz.xflags == gz0.xflags && gz.os == gz0.os &&
                        gz.extra == gz0.extra && gz.extra_buf_len == gz0.extra_buf_len && gz.extra_len == gz0.extra_len &&
                        gz.name == gz0.name && gz.name_buf_len == gz0.name_buf_len && gz.comment == gz0.comment &&
                        gz.comment_buf_len == gz0.comment_buf_len && gz.hcrc == gz0.hcrc && gz.flags == gz0.flags,
                "gzip header struct not modified by the writer");
#if EXTRA >= 0
        VASSERT(memcmp(extra, I.extra, NZ(EXTRA)) == 0, "extra payload not modified");
#endif
#elif defined(W_ZLIB)
        struct isal_zlib_header zh;
        struct spec_zlib_hdr sp;
        /* field domains: CINFO is a 4-bit field (RFC: <= 7 for CM=8), FLEVEL a 2-bit field */
        VASSUME(I.info <= 15 && I.level <= 3);
        zh.info = I.info;
        zh.level = I.level;
        zh.dict_id = I.dict_id;
        zh.dict_flag = I.dict_flag;
        sp.cinfo = (uint8_t) I.info;
        sp.flevel = (uint8_t) I.level;
        sp.fdict = I.dict_flag != 0;
        sp.dictid = I.dict_id;
        need = spec_zlib_hdr_size(&sp);

        ret = isal_write_zlib_header(&strm, &zh);
#else
#error W_GZIP or W_ZLIB
#endif

        if (need > AVAIL) {
                VASSERT(ret == need, "insufficient space: return value is the required size");
                VASSERT(strm.next_out == outp && strm.avail_out == AVAIL && strm.total_out == I.total_out,
                        "insufficient space: stream untouched");
                VASSERT(strm.next_in == 0 && strm.avail_in == 0 && strm.total_in == 0, "insufficient space: input side untouched");
                for (i = 0; i < AVAIL; i++)
                        VASSERT(outp[i] == I.out0[i], "insufficient space: output bytes untouched");
        } else {
                VASSERT(ret == 0, "enough space: returns 0");
                VASSERT(strm.next_out == outp + need, "next_out advanced by the header size");
                VASSERT(strm.avail_out == AVAIL - need, "avail_out reduced by the header size");
                VASSERT(strm.total_out == (uint32_t) (I.total_out + need), "total_out increased by the header size");
#if defined(W_GZIP)
                for (i = 0; i < pre; i++)
                        VASSERT(outp[i] == expect[i], "gzip header bytes == RFC 1952 layout");
                VASSERT(!crc_hook_overflow, "crc hook capacity");
                if (sp.has_hcrc) {
                        VASSERT(crc_ncalls == 1 && crc_calls[0].seed == 0 && crc_calls[0].buf == outp && crc_calls[0].len == pre,
                                "header CRC = CRC-32, seed 0, over exactly the header bytes before the CRC16");
                        for (i = 0; i < pre; i++)
                                VASSERT(crc_calls[0].bytes[i] == expect[i], "header CRC taken over the final header bytes");
                        uint32_t c = crc_calls[0].ret;
                        VASSERT(outp[pre] == (uint8_t) (c & 0xff) && outp[pre + 1] == (uint8_t) ((c >> 8) & 0xff),
                                "CRC16 = two least significant bytes of that CRC-32, LSB first");
                } else
                        VASSERT(crc_ncalls == 0, "no header CRC computed without FHCRC");
#else
                VASSERT(spec_zlib_cmf_flg_ok(outp, &sp), "zlib CMF/FLG: CM=8, CINFO, FLEVEL, FDICT, (CMF*256+FLG)%31==0");
#ifdef DICTID_ORDER
                /* separate query family (suspected defect): DICTID most significant byte first */
                if (sp.fdict)
                        VASSERT(spec_zlib_dictid_ok(outp, &sp), "zlib DICTID stored most-significant byte first (RFC 1950 2.1/2.2)");
#else
                if (sp.fdict) {
                        /* the four DICTID bytes are a permutation-free function of dict_id checked in the
                         * zlib_dictid_order family; here: all-equal-bytes ids are order independent */
                        uint8_t b0 = (uint8_t) I.dict_id;
                        if (I.dict_id == b0 * 0x01010101u)
                                VASSERT(outp[2] == b0 && outp[3] == b0 && outp[4] == b0 && outp[5] == b0, "DICTID bytes (order-free case)");
                }
#endif
#endif
                for (i = need; i < AVAIL; i++)
                        VASSERT(outp[i] == I.out0[i], "bytes after the header untouched");
        }
        VREACHED();
}
VERIF_MAIN
