"""Engine-B queries for the erasure-code kernels (C03 dot products, C13 multiply-accumulate and gf_vect_mul).

Structural specification (tables are fully symbolic bytes T):
   32-byte form:  lookup(T, s) = T[s & 15] ^ T[16 + (s >> 4)]
   GFNI form   :  lookup(M, s) = GF2P8AFFINEQB(M, s)  (8-byte matrix M)
   dot_prod:  dest_r[i] = XOR_j lookup(T[r*k+j], src_j[i])
   mad     :  dest_r[i] = dest_r[i] ^ lookup(T[r*k+vec_i], src[i])
That lookup(T_c, s) = c*s in GF(2^8) for the tables built by gf_vect_mul_init / ec_init_tables_gfni is C12's
(CBMC, exhaustive) lemma.
"""
import random
import time
import z3
from vlib.core import HOLDS, VIOLATED, UNDECIDED, ERROR
from vlib.x86sym import loader, bv
from vlib.x86sym.interp import Exec
from vlib.x86sym.machine import Violation, Unsupported
from vlib.x86sym.vecops import affine_byte
from vlib.x86sym.runner import Setup, build_native_driver, validate_concrete, run_native, native_crash_replay, smt_check

MINLEN = {"sse": 16, "avx": 16, "avx2": 32, "avx512": 64, "avx512_gfni": 0, "avx2_gfni": 0}


def kernel_name(kind, nv, isa):
    pre = "gf_vect" if nv == 1 else "gf_%dvect" % nv
    return "%s_%s_%s" % (pre, kind, isa)


def lookup(T, s, gfni, cache):
    if gfni:
        return affine_byte(T, s, 0)
    lo = bv.mux16(T[:16], bv.and_(8, s, 0x0F), cache)
    hi = bv.mux16(T[16:32], bv.lshr(8, s, 4), cache)
    return bv.xor(8, lo, hi)


def c_lookup(T, s, gfni):
    if gfni:
        return affine_byte(T, s, 0)
    return T[s & 15] ^ T[16 + (s >> 4)]


def mk_setup(img, func, kind, nv, k, n, tbl, srcs, dests, vec_i=0, guard=None, off=0, tsz=32):
    s = Setup(img, func, guard)
    tb = s.region("gftbls", len(tbl), r=True, w=False, init=tbl, offset=(off * 7) % 64)
    if kind == "dot_prod":
        sb = [s.region("src%d" % j, n, r=True, w=False, init=srcs[j], offset=off) for j in range(k)]
        ptrs = []
        for b in sb:
            ptrs.extend(bv.split_bytes(64, b))
        sarr = s.region("src_array", 8 * k, r=True, w=False, init=ptrs)
    else:
        sarr = s.region("src", n, r=True, w=False, init=srcs[0], offset=off)
    db = [s.region("dest%d" % r, n, r=True, w=True, init=dests[r], offset=(off * 3) % 64) for r in range(nv)]
    s.dest_bases = db
    if kind == "mul":
        s.args = [n, tb, sarr, db[0]]
        return s
    if nv == 1:
        darg = db[0]
    else:
        ptrs = []
        for b in db:
            ptrs.extend(bv.split_bytes(64, b))
        darg = s.region("dest_array", 8 * nv, r=True, w=False, init=ptrs)
    if kind == "dot_prod":
        s.args = [n, k, tb, sarr, darg]
    else:
        s.args = [n, k, vec_i, tb, sarr, darg]
    return s


def expected(kind, nv, k, n, tbl, srcs, dests, vec_i, gfni, lk):
    """expected destination bytes [r][i]"""
    tsz = 8 if gfni else 32
    out = []
    for r in range(nv):
        row = []
        for i in range(n):
            if kind == "dot_prod":
                v = 0
                for j in range(k):
                    T = tbl[(r * k + j) * tsz:(r * k + j + 1) * tsz]
                    v = bv.xor(8, v, lk(T, srcs[j][i]))
            elif kind == "mad":
                T = tbl[(r * k + vec_i) * tsz:(r * k + vec_i + 1) * tsz]
                v = bv.xor(8, dests[r][i], lk(T, srcs[0][i]))
            else:
                v = lk(tbl[:32], srcs[0][i])
            row.append(v)
        out.append(row)
    return out


def ec_one(kind, nv, isa, k, n, vec_i, off, ctx, img, exe):
    func = kernel_name(kind, nv, isa) if kind != "mul" else "gf_vect_mul_" + isa
    gfni = isa.endswith("gfni")
    tsz = 8 if gfni else 32
    ntbl = (nv * k if kind != "mul" else 1) * tsz
    nsrc = k if kind == "dot_prod" else 1
    stats = {"variables": 0, "clauses": 0, "paths": 0}
    rnd = random.Random(nv * 100000 + k * 1000 + n)
    validated = 0
    # ---- translator validation, concrete
    for trial in range(2):
        tbl = [rnd.randrange(256) for _ in range(ntbl)]
        srcs = [[rnd.randrange(256) for _ in range(n)] for _ in range(nsrc)]
        dests = [[rnd.randrange(256) for _ in range(n)] for _ in range(nv)]
        ok, msg = validate_concrete(img, mk_setup(img, func, kind, nv, k, n, tbl, srcs, dests, vec_i, off=off), exe)
        if ok is False:
            return {"status": ERROR, "detail": "translator validation failed (%s k=%d len=%d): %s" % (func, k, n, msg)}
        validated += 1
    # ---- symbolic
    tbl = [z3.BitVec("t%d" % i, 8) for i in range(ntbl)]
    srcs = [[z3.BitVec("s%d_%d" % (j, i), 8) for i in range(n)] for j in range(nsrc)]
    dests = [[z3.BitVec("d%d_%d" % (r, i), 8) for i in range(n)] for r in range(nv)]
    ex = Exec(img)
    setup = mk_setup(img, func, kind, nv, k, n, tbl, srcs, dests, vec_i, off=off)
    finals = ex.run(setup.initial_state())
    stats["paths"] = len(finals)
    stats["variables"] = ex.n_insns
    allv = tbl + [b for s_ in srcs for b in s_] + [b for d in dests for b in d]

    def concretize(m):
        f = lambda v: m.eval(v, model_completion=True).as_long()
        return [f(b) for b in tbl], [[f(b) for b in s_] for s_ in srcs], [[f(b) for b in d] for d in dests]

    def viol(detail, st, extra=None, crash=False):
        _, m = smt_check(list(st.path) + ([extra] if extra is not None else []))
        ct, cs, cd = concretize(m)
        mk = lambda g=None: mk_setup(img, func, kind, nv, k, n, ct, cs, cd, vec_i, guard=g, off=off)
        if crash:
            ok, rlog = native_crash_replay(mk, exe)
            rep = True if ok else None
        else:
            s2 = mk()
            rax, regs = run_native(exe, func, s2.args, s2.regions)
            rlog = "native rax=%s" % (rax,)
            rep = None
            if rax is not None:
                exp = expected(kind, nv, k, n, ct, cs, cd, vec_i, gfni, lambda T, s: c_lookup(T, s, gfni))
                names = [rg["name"] for rg in s2.regions]
                got = [regs[names.index("dest%d" % r)] for r in range(nv)]
                rep = (got != exp) if (rax & 0xffffffff) == 0 else (got != cd or n >= MINLEN[isa])
        return {"status": VIOLATED, "detail": detail + " | " + rlog, "replay_ok": rep, "replay_log": rlog, "stats": stats,
                "cex": {"kernel": func, "k": k, "len": n, "vec_i": vec_i, "off": off, "tbl": ct, "src": cs, "dest_in": cd},
                "validated_traces": validated}

    cache = {}
    for st, out in finals:
        if isinstance(out, Violation):
            return viol("%s at %r (k=%d len=%d off=%d)" % (out, out.insn, k, n, off), st, crash=True)
        abi = setup.abi_check(st)
        if abi:
            return viol("ABI: " + abi, st)
        ret = bv.extract(st.r["rax"], 31, 0)
        if not bv.is_c(ret):
            return {"status": ERROR, "detail": "symbolic return value"}
        got = [[st.mem.b[setup.dest_bases[r] + i] for i in range(n)] for r in range(nv)]
        if gfni:
            ret = 0  # the *_gfni kernels are declared void in ec_highlevel_func.c: rax carries no meaning
        if ret != 0:
            # failure return: allowed only below the documented minimum length (mul: len % 32 != 0), and nothing stored
            legal = (n % 32 != 0) if kind == "mul" else (n < MINLEN[isa])
            if not legal:
                return viol("kernel refused a valid length (ret=%d, k=%d len=%d)" % (ret, k, n), st)
            if st.mem.written:
                return viol("kernel returned failure but stored %d bytes" % len(st.mem.written), st)
            continue
        if kind == "mul" and n % 32 != 0:
            return viol("gf_vect_mul accepted len %% 32 != 0", st)
        exp = expected(kind, nv, k, n, tbl, srcs, dests, vec_i, gfni, lambda T, s: lookup(T, s, gfni, cache))
        diffs = []
        for r in range(nv):
            for i in range(n):
                g, e = got[r][i], exp[r][i]
                if bv.is_c(g) and bv.is_c(e):
                    if g != e:
                        diffs.append(z3.BoolVal(True))
                elif not (not bv.is_c(g) and not bv.is_c(e) and g.eq(e)):
                    diffs.append(bv.z(8, g) != bv.z(8, e))
        stats["clauses"] += len(diffs)
        B = 16
        for q in range(0, len(diffs), B):
            c = z3.Or(*diffs[q:q + B])
            r_, _m = smt_check(st.path + [c])
            if r_ == z3.unknown:
                return {"status": UNDECIDED, "detail": "z3 unknown", "stats": stats}
            if r_ == z3.sat:
                return viol("output bytes differ from the GF(2^8) table-lookup specification (k=%d len=%d off=%d)" % (k, n, off), st, c)
    return {"status": HOLDS, "stats": stats, "validated_traces": validated}


def ec_query(qid, params, ctx):
    """params: kind (dot_prod|mad|mul), nv, isa, cases: [[k, len, vec_i, off], ...]"""
    kind, nv, isa = params["kind"], params["nv"], params["isa"]
    func = kernel_name(kind, nv, isa) if kind != "mul" else "gf_vect_mul_" + isa
    t0 = time.time()
    try:
        img = loader.build_image(ctx["repo"], ["erasure_code/%s.asm" % func], ctx["scratch"])
        exe = build_native_driver(img, [func], ctx["scratch"] + "/x86", func)
        agg = {"variables": 0, "clauses": 0, "paths": 0}
        val = 0
        for k, n, vec_i, off in params["cases"]:
            r = ec_one(kind, nv, isa, k, n, vec_i, off, ctx, img, exe)
            for kk in agg:
                agg[kk] += r.get("stats", {}).get(kk, 0)
            val += r.get("validated_traces", 0)
            if r["status"] != HOLDS:
                return r
    except Unsupported as e:
        return {"status": ERROR, "detail": "outside encodable class: %s" % e}
    return {"status": HOLDS, "stats": agg, "validated_traces": val, "solver_time_s": time.time() - t0, "witness_ok": agg["paths"] > 0}


def update_algebra_lemma(qid, params, ctx):
    """C13 algebra over the structural multiply-accumulate specification (what every kernel was proved equal to):
    with arbitrary table bytes and source bytes, (i) applying the single-source update for all k sources in ANY order
    starting from zero parity equals the dot-product specification of C03, (ii) applying one update twice cancels it.
    Decided by z3 for every permutation of k <= 4 sources (one symbolic byte position; positions are independent)."""
    import itertools
    t0 = time.time()
    k = params["k"]
    gfni = params.get("gfni", False)
    tsz = 8 if gfni else 32
    tbl = [z3.BitVec("t%d" % i, 8) for i in range(k * tsz)]
    src = [z3.BitVec("s%d" % j, 8) for j in range(k)]
    d0 = z3.BitVec("d0", 8)
    cache = {}
    term = [lookup(tbl[j * tsz:(j + 1) * tsz], src[j], gfni, cache) for j in range(k)]
    full = 0
    for j in range(k):
        full = bv.xor(8, full, term[j])
    n = 0
    for perm in itertools.permutations(range(k)):
        acc = 0
        for j in perm:
            acc = bv.xor(8, acc, term[j])     # mad spec: dest' = dest ^ lookup(T[vec_i], src)
        r, m = smt_check([bv.z(8, acc) != bv.z(8, full)])
        n += 1
        if r != z3.unsat:
            return {"status": VIOLATED if r == z3.sat else UNDECIDED, "detail": "update order %s differs from the full encode" % (perm,), "cex": None, "replay_ok": None}
    for j in range(k):
        twice = bv.xor(8, bv.xor(8, d0, term[j]), term[j])
        r, m = smt_check([bv.z(8, twice) != d0])
        n += 1
        if r != z3.unsat:
            return {"status": VIOLATED if r == z3.sat else UNDECIDED, "detail": "double update does not cancel", "cex": None, "replay_ok": None}
    return {"status": HOLDS, "stats": {"clauses": n, "variables": k * tsz + k + 1, "paths": 1}, "solver_time_s": time.time() - t0, "witness_ok": True}
