from vlib.core import Query

R = "harness.ec_common.x86ec:ec_query"
W = {"sse": 16, "avx": 16, "avx2": 32, "avx512": 64, "avx512_gfni": 64, "avx2_gfni": 32}
NV = {"dot_prod": {"sse": 6, "avx": 6, "avx2": 6, "avx512": 6, "avx512_gfni": 6, "avx2_gfni": 3},
      "mad": {"sse": 6, "avx": 6, "avx2": 6, "avx512": 6, "avx512_gfni": 6, "avx2_gfni": 5}}


def lens_for(w, tier):
    if tier == "quick":
        s = set(range(0, w + 2)) | {w + w // 2, 2 * w - 1, 2 * w, 2 * w + 1, 2 * w + w // 2 + 1, 3 * w, 3 * w + 1}
    else:
        s = set(range(0, 4 * w + 18))
    return sorted(s)


def cases_for(kind, nv, isa, tier):
    w = W[isa]
    cases = []
    lens = lens_for(w, tier)
    for n in lens:
        cases.append([2, n, 1, 0])
    edge = [w - 1, w, w + 1, 2 * w + 1, 3 * w + 1]
    for n in edge:
        cases.append([3, n, 2, 1])
        cases.append([1, n, 0, 31])
    if tier != "quick":
        for n in edge + [4 * w + 3]:
            for k in (4, 5, 8):
                cases.append([k, n, k - 1, 15])
            cases.append([2, n, 0, 63])
    return cases


def build(kind, tier):
    qs = []
    target = 60.0 if tier == "quick" else 240.0   # rough cost units per query
    for isa, maxnv in NV[kind].items():
        for nv in range(1, maxnv + 1):
            cs = cases_for(kind, nv, isa, tier)
            cost = lambda c: 0.004 * nv * c[0] * (c[1] + 20)
            chunk, acc, idx = [], 0.0, 0
            for c in cs:
                chunk.append(c)
                acc += cost(c)
                if acc >= target:
                    qs.append(mkq(kind, nv, isa, chunk, idx, acc))
                    chunk, acc, idx = [], 0.0, idx + 1
            if chunk:
                qs.append(mkq(kind, nv, isa, chunk, idx, acc))
    return qs


def mkq(kind, nv, isa, chunk, idx, acc):
    return Query("x86/%s/%dvect_%s/c%d" % (kind, nv, isa, idx), R, dict(kind=kind, nv=nv, isa=isa, cases=list(chunk)),
                 core=(idx == 0), family="x86/%s_%s" % (kind, isa), weight=acc)


def mul_queries(tier):
    qs = []
    for isa in ("sse", "avx"):
        lens = [0, 32, 64, 96, 128, 160] if tier == "quick" else [32 * i for i in range(0, 21)]
        bad = [1, 16, 31, 33, 48, 63]
        cases = [[1, n, 0, off] for n in lens for off in (0, 32)] + [[1, n, 0, 0] for n in bad]
        qs.append(Query("x86/mul/gf_vect_mul_%s" % isa, R, dict(kind="mul", nv=1, isa=isa, cases=cases), core=True,
                        family="x86/mul_" + isa, weight=50))
    return qs


INFO_COMMON = dict(
    stubs=[],
    assumptions=["x86 instruction semantics of vlib/x86sym (validated every run against native execution of the same object on concrete inputs)",
                 "structural specification: table bytes are arbitrary; that tables built by gf_vect_mul_init/ec_init_tables_gfni make the lookup equal c*s is C12 (CBMC, exhaustive)",
                 "int arguments arrive sign-extended; *_gfni kernels are void (rax ignored)"],
    outside=["k beyond the swept values (API allows up to 255)", "lengths beyond the swept set (loop periodicity not proved)",
             "EC_ALIGNED_ADDR build variant"])
