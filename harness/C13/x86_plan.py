from harness.ec_common import x86_plan as P


def x86_queries(tier):
    from vlib.core import Query
    qs = P.build("mad", tier) + P.mul_queries(tier)
    for k in (1, 2, 3, 4):
        for g in (False, True):
            qs.append(Query("lemma/update-algebra/k%d%s" % (k, "_gfni" if g else ""), "harness.ec_common.x86ec:update_algebra_lemma", dict(k=k, gfni=g),
                            core=True, family="lemma/update-algebra", weight=5))
    info = dict(P.INFO_COMMON)
    info["functions_encoded"] = ["gf_{1..6}vect_mad_{sse,avx,avx2,avx512,avx512_gfni}", "gf_{1..5}vect_mad_avx2_gfni", "gf_vect_mul_{sse,avx} (machine code)"]
    info["bounds"] = {"len": "quick: every 0..W+1 plus residues around 2W,3W; thorough: every 0..4W+17 (W = 16/16/32/64/64/32); gf_vect_mul: multiples of 32 up to 160 (640) and six non-multiples",
                      "k / vec_i": "k=2 vec_i=1 everywhere; (1,0),(3,2) at block-boundary lengths (thorough also k=4,5,8)",
                      "data": "source bytes, table bytes and initial parity bytes symbolic"}
    return qs, info
