"""C13, engine A half: (glue/) ec_encode_data_update_<isa> row batching with recording stubs,
(base/) gf_vect_mad_base, ec_encode_data_update_base, gf_vect_mul_base against the specification,
order-independence / cancellation of updates."""
from vlib.core import Query
from harness.C03.base_plan import glue_queries, GLUE_INFO, CADICAL

R = "vlib.cbmc:cbmc_query"
HB = "harness/C03/h_ec_base.c"


def base_queries(tier):
    quick = tier == "quick"
    qs = glue_queries(tier, update=True)
    qs.append(Query("base/mad/real_leaf/len1_k2", R,
                    dict(harness=HB, units=["erasure_code/ec_base.c"], hdefines=["H_MAD", "REAL_LEAF", "LEN=1", "KK=2"], unwind=65,
                         witness=True, flags=CADICAL), core=True, family="base/mad", weight=10))
    mads = [(0, 1), (1, 1), (2, 3), (4, 3)] if quick else [(l, k) for l in range(0, 5) for k in range(1, 4)] + [(8, 4), (16, 2)]
    for (l, k) in mads:
        qs.append(Query("base/mad/len%d_k%d" % (l, k), R,
                        dict(harness=HB, units=[], hdefines=["H_MAD", "LEN=%d" % l, "KK=%d" % k], unwind=max(33, 32 * k + 1, l + 2),
                             witness=(l > 0), flags=CADICAL), core=(l, k) in ((2, 3), (4, 3)), family="base/mad", weight=2 + l))
    upds = [(0, 2, 2), (1, 1, 1), (2, 3, 2), (2, 2, 3), (4, 3, 3)] if quick else \
        [(l, k, r) for l in (0, 1, 2, 3, 4) for k in (1, 2, 3) for r in (1, 2, 3)] + [(8, 4, 4), (4, 2, 7)]
    for (l, k, r) in upds:
        qs.append(Query("base/upd/len%d_k%d_r%d" % (l, k, r), R,
                        dict(harness=HB, units=[], hdefines=["H_UPD", "LEN=%d" % l, "KK=%d" % k, "ROWS=%d" % r],
                             unwind=max(33, k * r + 1, l + 2), witness=(l > 0), timeout=None if quick else 1200, flags=CADICAL),
                        core=(l, k, r) in ((2, 3, 2), (4, 3, 3)), family="base/upd", weight=2 + l * r))
    # gf_vect_mul_base: error path (no store) for every residue class sampled, success for len 0 and 32
    bad = [1, 16, 31, 33, 48] if quick else [1, 2, 8, 16, 24, 31, 33, 48, 63, 65, 95, 97]
    for l in bad:
        qs.append(Query("base/vect_mul/badlen%d" % l, R,
                        dict(harness=HB, units=[], hdefines=["H_MUL", "LEN=%d" % l], unwind=max(33, l + 2), witness=True, flags=CADICAL),
                        core=(l == 31), family="base/vect_mul", weight=2))
    for l in [0, 32] + ([] if quick else [64]):
        qs.append(Query("base/vect_mul/len%d" % l, R,
                        dict(harness=HB, units=[], hdefines=["H_MUL", "LEN=%d" % l], unwind=max(33, l + 2), witness=False,
                             timeout=450 if quick else 1200, flags=CADICAL), core=(l == 32), family="base/vect_mul", weight=40 if l else 2))
    # order independence / cancellation on the real update + encode functions
    orders = [(1, 2, 2), (2, 3, 2)] if quick else [(1, 2, 2), (1, 3, 1), (1, 3, 2), (2, 3, 2), (2, 2, 3), (4, 3, 3)]
    for (l, k, r) in orders:
        qs.append(Query("base/order/len%d_k%d_r%d" % (l, k, r), R,
                        dict(harness=HB, units=[], hdefines=["H_ORDER", "LEN=%d" % l, "KK=%d" % k, "ROWS=%d" % r],
                             unwind=max(33, k * r + 1), witness=True, timeout=None if quick else 1200, flags=CADICAL),
                        core=(l, k, r) == (1, 2, 2), family="base/order", weight=2 * l * k * r))
    info = {k: (list(v) if isinstance(v, list) else dict(v)) for k, v in GLUE_INFO.items()}
    info["functions_encoded"] = ["ec_encode_data_update_{sse,avx,avx2,avx512,avx512_gfni,avx2_gfni} (erasure_code/ec_highlevel_func.c, real text)",
                                 "gf_vect_mad_base", "ec_encode_data_update_base", "gf_vect_mul_base", "ec_encode_data_base (order lemma)",
                                 "ec_init_tables_base", "gf_vect_mul_init"]
    info["bounds"]["base"] = "len 0..4, k 1..3 (vec_i symbolic < k), rows 1..3 concrete; gf_vect_mul_base len in {0,32,(64)} and non-multiples " \
                             "{1,31,33,...}; order lemma: symbolic permutation of k <= 3 updates, len <= 2, rows <= 3"
    info["stubs"] += ["base/* queries except */real_leaf/*: gf_mul body computes spec_gf_mul (spec/ec_base_leaf.h, lemma C12:H_MUL)"]
    info["assumptions"] += ["C12 holds (lemma used by the leaf substitution)", "vec_i < k"]
    info["outside"] += ["len > 4, k > 3, rows > 3 for the portable functions; gf_vect_mul_base len > 64"]
    return qs, info
