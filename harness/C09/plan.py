"""C09 -- gf_invert_matrix exactness, generator matrices, erasure recovery (erasure_code/ec_base.c)."""
from vlib.core import Query, Plan

R = "vlib.cbmc:cbmc_query"
H = "harness/C09/h_ec.c"
U = ["erasure_code/ec_base.c"]


def rs_documented_safe(m, k):
    """include/erasure_code.h, doc of gf_gen_rs_matrix."""
    return k <= 3 or (k == 4 and m <= 25) or (k == 5 and m <= 10) or (k <= 21 and m - k == 4) or (m - k <= 3)


def plan(tier, ctx):
    quick = tier == "quick"
    qs = []
    # (0) the entry sets are subfields of GF(2^8)/0x11D
    for f in (2, 4, 16):
        qs.append(Query("SUBFIELD/gf%d" % f, R, dict(harness=H, units=[], hdefines=["H_SUBFIELD", "FIELD=%d" % f], unwind=17, witness=True),
                        core=True, family="SUBFIELD"))
    # (a) inversion: ALL n x n matrices with entries in a subfield, real log/antilog tables
    # core = decided with >= 3x margin under the quick cap; 3x3/GF(4) and 4x4/GF(2) need ~2 min each on an idle machine
    inv = [(2, 16, True), (3, 2, True), (2, 4, True), (2, 2, False), (1, 16, False)]
    if not quick:
        inv += [(3, 4, False), (4, 2, False)]
    for (n, f, core) in inv:
        qs.append(Query("INVERT/n%d_gf%d" % (n, f), R,
                        dict(harness=H, units=U, hdefines=["H_INVERT", "N=%d" % n, "FIELD=%d" % f, "DETMAX=4"], unwind=max(17, n * n + 1),
                             witness=core, timeout=900), core=core, family="INVERT", weight=30 if core else 5))
    if not quick:
        # larger instances with the scalar leaves replaced by the specification (lemma: C12)
        for (n, f) in ((5, 2), (3, 16), (4, 4)):
            qs.append(Query("INVERT/leaf/n%d_gf%d" % (n, f), R,
                            dict(harness=H, units=[], hdefines=["H_INVERT", "N=%d" % n, "FIELD=%d" % f, "DETMAX=5", "LEAF"], unwind=max(17, n * n + 1),
                                 witness=False, timeout=1800, mem_gb=24), core=False, family="INVERT", weight=60))
    # (b) generator matrices: identity top block and the documented coefficient formula at a symbolic (i,j)
    cau = [(12, 8), (32, 16), (256, 2), (256, 10), (255, 3)] if quick else [(12, 8), (32, 16), (64, 32), (128, 8), (256, 2), (256, 10), (256, 16), (255, 3), (200, 100)]
    rsm = [(14, 4), (20, 3), (11, 2), (30, 10)] if quick else [(14, 4), (20, 3), (11, 2), (30, 10), (40, 20), (64, 3), (25, 4), (32, 16)]
    for kind, lst in (("CAUCHY", cau), ("RS", rsm)):
        for (m, k) in lst:
            qs.append(Query("GEN/%s/m%d_k%d" % (kind, m, k), R,
                            dict(harness=H, units=U, hdefines=["H_GEN_" + kind, "M=%d" % m, "K=%d" % k], unwind=m * k + 2, witness=(m, k) in ((12, 8), (14, 4)),
                                 timeout=600), core=(m, k) in ((12, 8), (14, 4)), family="GEN/" + kind, weight=m * k / 50.0))
    # (c) recovery: k symbolic strictly increasing survivor rows (the erasure pattern), decode matrix built as
    #     examples/ec/ec_simple_example.c does, real gf_invert_matrix: success and inv*B == I
    rec_c = [(4, 2), (5, 3), (6, 3), (6, 4), (8, 4), (9, 3)] if quick else [(4, 2), (5, 3), (6, 3), (6, 4), (8, 4), (9, 3), (10, 5), (12, 4), (10, 6), (12, 6), (16, 3)]
    rec_r = [(m, k) for (m, k) in ([(4, 2), (6, 3), (8, 4), (9, 5), (7, 4)] if quick else [(4, 2), (6, 3), (8, 4), (9, 5), (10, 5), (7, 4), (12, 3), (12, 8), (25, 4)]) if rs_documented_safe(m, k)]
    for gen, lst in (("GEN_CAUCHY", rec_c), ("GEN_RS", rec_r)):
        for (m, k) in lst:
            big = m >= 9
            qs.append(Query("RECOVER/%s/m%d_k%d" % (gen[4:], m, k), R,
                            dict(harness=H, units=[] if big else U, hdefines=["H_RECOVER", "M=%d" % m, "K=%d" % k, gen] + (["LEAF"] if big else []),
                                 unwind=m * k + 2, witness=(m, k) == (6, 3), timeout=900, mem_gb=16), core=(m, k) == (6, 3), family="RECOVER/" + gen[4:], weight=m * k))
    return Plan("C09", "model_checking", qs, engine="cbmc-c",
                functions_encoded=["gf_invert_matrix", "gf_gen_cauchy1_matrix", "gf_gen_rs_matrix", "gf_mul", "gf_inv (erasure_code/ec_base.c)"],
                bounds={"inversion": "ALL n x n matrices with entries in a subfield: quick 2x2/GF(16), 2x2/GF(4), 3x3/GF(2); thorough also 3x3/GF(4), 4x4/GF(2), 5x5/GF(2), 3x3/GF(16), 4x4/GF(4); "
                                     "ret in {0,-1}; ret==0 <=> det != 0 (cofactor determinant); ret==0 => A*out == out*A == I; nothing written past n*n",
                        "generators": {"cauchy (m,k)": cau, "rs (m,k)": rsm, "position": "symbolic (i,j)"},
                        "recovery": {"cauchy (m,k)": rec_c, "rs (m,k), documented-safe only": rec_r, "erasure pattern": "k symbolic strictly increasing survivor indices"}},
                stubs=["for m >= 9 in RECOVER (and the thorough INVERT/leaf queries) gf_mul/gf_inv are computed by spec/gf256.h through spec/ec_base_leaf.h; justified by C12's exhaustive lemmas; native replay uses the unmodified ec_base.c"],
                assumptions=["the three entry sets are subfields (checked: SUBFIELD queries)", "C12 (for the LEAF-abstracted queries)"],
                outside=["inversion over all of GF(2^8) for n >= 2 (measured: 2x2 undecided in 900 s on five back ends)", "n up to 128, m up to 256 in recovery, the full documented-safe (m,k) table",
                         "block contents (the recovery of data bytes then follows from C03/C12 linearity)"],
                trusted_base=["cbmc 6.11", "spec/gf256.h"])
