"""C09 -- gf_invert_matrix exactness, generator matrices, erasure recovery (erasure_code/ec_base.c)."""
from vlib.core import Query, Plan

R = "vlib.cbmc:cbmc_query"
RNEG = "harness.C09.negctl:negctl_query"
H = "harness/C09/h_ec.c"
U = ["erasure_code/ec_base.c"]
# XOR-heavy GF(2^8) miters: cadical decides 3x3/GF(4) in ~60-120 s where minisat needs >600 s (measured)
CADICAL = ["--sat-solver", "cadical"]


def rs_documented_safe(m, k):
    """include/erasure_code.h, doc of gf_gen_rs_matrix."""
    return k <= 3 or (k == 4 and m <= 25) or (k == 5 and m <= 10) or (k <= 21 and m - k == 4) or (m - k <= 3)


def _rec_cost(m, k):
    from math import comb
    return comb(m, k) * k * k * k / 400.0


def plan(tier, ctx):
    quick = tier == "quick"
    qs = []
    # (0) the entry sets are subfields of GF(2^8)/0x11D
    for f in (2, 4, 16):
        qs.append(Query("SUBFIELD/gf%d" % f, R, dict(harness=H, units=[], hdefines=["H_SUBFIELD", "FIELD=%d" % f], unwind=17, witness=True),
                        core=True, family="SUBFIELD"))
    # (a) inversion: ALL n x n matrices with entries in a subfield, the REAL log/antilog tables of ec_base.c
    # (the vacuity twin re-solves the whole instance, so it is attached to the cheap members of the family only)
    inv = [(2, 16, True), (3, 4, True), (4, 2, True), (3, 2, True), (2, 4, True), (2, 2, False), (1, 16, False)]
    for (n, f, core) in inv:
        qs.append(Query("INVERT/n%d_gf%d" % (n, f), R,
                        dict(harness=H, units=U, hdefines=["H_INVERT", "N=%d" % n, "FIELD=%d" % f, "DETMAX=4"], unwind=max(17, n * n + 1),
                             witness=(n, f) in ((3, 2), (2, 4)), timeout=600 if quick else 1200, flags=CADICAL), core=core, family="INVERT",
                        weight=100 if (n, f) in ((2, 16), (3, 4), (4, 2)) else 5))
    if not quick:
        # 5x5 over GF(2): scalar leaves replaced by the specification (lemma: C12); measured 803 s on a loaded machine
        qs.append(Query("INVERT/leaf/n5_gf2", R,
                        dict(harness=H, units=[], hdefines=["H_INVERT", "N=5", "FIELD=2", "DETMAX=5", "LEAF", "LEAF_INV_BY_CONSTRAINT"], unwind=26,
                             witness=False, timeout=2400, mem_gb=24, flags=CADICAL), core=False, family="INVERT", weight=400))
    # (b) generator matrices: identity top block and the documented coefficient formula at a symbolic (i,j)
    if quick:
        cau = [(2, 1), (5, 3), (12, 8), (17, 16), (32, 16), (32, 1), (24, 9), (256, 10)]
        rsm = [(2, 1), (5, 3), (14, 4), (17, 16), (32, 16), (32, 1), (24, 9), (30, 10)]
    else:
        allp = [(m, k) for k in range(1, 17) for m in range(k, 33)]
        cau = allp + [(64, 32), (128, 8), (256, 2), (256, 10), (255, 3)]
        rsm = allp + [(40, 20), (64, 3)]
    for kind, lst in (("CAUCHY", cau), ("RS", rsm)):
        for (m, k) in lst:
            core = (m, k) in ((12, 8), (14, 4))
            qs.append(Query("GEN/%s/m%d_k%d" % (kind, m, k), R,
                            dict(harness=H, units=U, hdefines=["H_GEN_" + kind, "M=%d" % m, "K=%d" % k], unwind=max(17, m * k + 2), witness=core,
                                 timeout=600), core=core, family="GEN/" + kind, weight=m * k / 50.0))
    # (c) recovery: k symbolic strictly increasing survivor rows (= the erasure pattern), decode matrix built as
    #     examples/ec/ec_simple_example.c does, real gf_invert_matrix: success and inv*B == B*inv == I
    if quick:
        rec_c = [(2, 1), (4, 2), (5, 3), (6, 3), (6, 4), (8, 4), (9, 3), (10, 2), (10, 5), (10, 8)]
        rec_r = [(4, 2), (6, 3), (8, 4), (7, 4), (9, 5), (10, 5), (10, 7)]
    else:
        rec_c = [(m, k) for m in range(2, 13) for k in range(1, m)]
        rec_r = [(m, k) for m in range(2, 13) for k in range(1, m)] + [(25, 4), (16, 3)]
    rec_r = [(m, k) for (m, k) in rec_r if rs_documented_safe(m, k)]
    for gen, lst in (("GEN_CAUCHY", rec_c), ("GEN_RS", rec_r)):
        for (m, k) in lst:
            big = m >= 9 and k >= 3
            core = (m, k) in ((6, 3), (8, 4))
            qs.append(Query("RECOVER/%s/m%d_k%d" % (gen[4:], m, k), R,
                            dict(harness=H, units=[] if big else U, hdefines=["H_RECOVER", "M=%d" % m, "K=%d" % k, gen] + (["LEAF"] if big else []),
                                 unwind=max(17, m * k + 2), witness=core, timeout=450 if quick else 1800, mem_gb=16,
                                 flags=CADICAL if big else []), core=core, family="RECOVER/" + gen[4:], weight=_rec_cost(m, k)))
    # negative control: a documented-UNSAFE Vandermonde pair must have a singular survivor set (solver finds it, native replay confirms)
    for (m, k) in ([(11, 5)] if quick else [(11, 5), (12, 5)]):
        qs.append(Query("NEGCTL/RS/m%d_k%d" % (m, k), RNEG,
                        dict(harness=H, units=U, hdefines=["H_RECOVER", "M=%d" % m, "K=%d" % k, "GEN_RS", "NEGCTL"], unwind=max(27, m * k + 2),
                             timeout=600 if quick else 1200, mem_gb=16, flags=CADICAL), core=(m == 11), family="NEGCTL", weight=150))
    return Plan("C09", "model_checking", qs, engine="cbmc-c",
                functions_encoded=["gf_invert_matrix", "gf_gen_cauchy1_matrix", "gf_gen_rs_matrix", "gf_mul", "gf_inv (erasure_code/ec_base.c)"],
                bounds={"inversion": "ALL n x n matrices with entries in a subfield: 2x2/GF(16), 3x3/GF(4), 4x4/GF(2), 3x3/GF(2), 2x2/GF(4) (+ 5x5/GF(2) thorough); "
                                     "ret in {0,-1}; ret==0 <=> det != 0 (cofactor determinant over spec_gf_mul, n <= 4(5)); ret==0 => A*out == out*A == I; "
                                     "nothing written past n*n",
                        "generators": {"(m,k)": "quick: 8 pairs each; thorough: every 1 <= k <= 16, k <= m <= 32 plus a few up to m = 256", "position": "symbolic (i,j)"},
                        "recovery": {"cauchy (m,k)": "quick %s; thorough every k < m <= 12" % rec_c if quick else "every k < m <= 12",
                                     "rs (m,k), documented-safe only": "quick %s" % rec_r if quick else "every k < m <= 12 that the header documents as safe, (25,4), (16,3)",
                                     "erasure pattern": "k symbolic strictly increasing survivor indices (every subset of k of the m rows)",
                                     "negative control": "gf_gen_rs_matrix (11,5) [thorough also (12,5)], documented unsafe: solver must exhibit a singular survivor set"}},
                stubs=["RECOVER for m >= 9, k >= 3 and INVERT/leaf: gf_mul/gf_inv are computed by spec/gf256.h through spec/ec_base_leaf.h (justified by C12's exhaustive "
                       "lemmas gf_mul == spec_gf_mul, a*gf_inv(a) == 1); native replay uses the unmodified ec_base.c. All other queries link the real ec_base.c."],
                assumptions=["the three entry sets are subfields of GF(2^8)/0x11D (decided: SUBFIELD queries)", "C12 (for the LEAF-abstracted queries)",
                             "survivor indices are distinct and in range (ec_simple_example.c builds decode_index[] that way)"],
                outside=["inversion over all of GF(2^8) for n >= 2 (measured: 2x2 undecided in 900 s on five back ends, and in 600 s with spec leaves / cadical / "
                         "a case split on the pivot)", "3x3/GF(16) and 4x4/GF(4) (undecided in 1500 s)", "n up to 128, m up to 256 in recovery, the full documented-safe (m,k) table",
                         "block contents: inv*B == I is decided; that encoding the survivors with inv then reproduces the erased bytes follows from C03/C13 (kernels compute the "
                         "matrix product) and C12 (field laws) outside this check"],
                trusted_base=["cbmc 6.11 (cadical / minisat back ends)", "spec/gf256.h"],
                extra={"negative_control": "NEGCTL/* use harness/C09/negctl.py: status holds iff CBMC reports the NEGCTL assertion violated and the native replay reproduces ret == -1"})
