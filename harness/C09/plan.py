"""C09 -- gf_invert_matrix exactness, generator matrices, erasure recovery (erasure_code/ec_base.c)."""
from vlib.core import Query, Plan

R = "vlib.cbmc:cbmc_query"
RNEG = "harness.C09.negctl:negctl_query"
H = "harness/C09/h_ec.c"
U = ["erasure_code/ec_base.c"]


def rs_documented_safe(m, k):
    """include/erasure_code.h, doc of gf_gen_rs_matrix."""
    return k <= 3 or (k == 4 and m <= 25) or (k == 5 and m <= 10) or (k <= 21 and m - k == 4) or (m - k <= 3)


def plan(tier, ctx):
    quick = tier == "quick"
    qs = []
    # (0) the entry sets are subfields
    for f in (2, 4, 16):
        qs.append(Query("SUBFIELD/gf%d" % f, R, dict(harness=H, units=[], hdefines=["H_SUBFIELD", "FIELD=%d" % f],
                                                    unwind=17, witness=True), core=True, family="SUBFIELD"))
    # (a) inversion over subfields
    inv = [(2, 16, 2, True), (3, 4, 3, True), (4, 2, 4, True), (2, 4, 2, False), (3, 2, 3, False), (2, 2, 2, False), (1, 16, 1, False)]
    if not quick:
        inv += [(5, 2, 5, False), (3, 16, 3, False), (4, 4, 4, False)]
    for (n, f, detmax, core) in inv:
        qs.append(Query("INVERT/n%d_gf%d" % (n, f), R,
                        dict(harness=H, units=U, hdefines=["H_INVERT", "N=%d" % n, "FIELD=%d" % f, "DETMAX=%d" % detmax],
                             unwind=max(17, n * n + 1), witness=True, timeout=None if quick else 1200),
                        core=core, family="INVERT", weight=20))
    return Plan("C09", "model_checking", qs)
