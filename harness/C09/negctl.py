"""Negative control runner for C09: a query whose harness assertion is EXPECTED to be violated.

The harness (h_ec.c -DH_RECOVER -DGEN_RS -DNEGCTL) asserts "every survivor set of the Vandermonde
matrix gives an invertible decode matrix" for an (m,k) pair that include/erasure_code.h documents as
NOT safe.  The control succeeds (status 'holds') iff the solver FINDS a singular erasure pattern and the
native replay against the real ec_base.c confirms that gf_invert_matrix returns -1 for it.  If the
solver proves that no singular pattern exists, either the harness/recovery encoding has gone blind or
gf_invert_matrix no longer reports singular matrices: reported as 'violated' (no pass)."""
from vlib.cbmc import cbmc_query
from vlib.core import HOLDS, VIOLATED, ERROR


def negctl_query(qid, params, ctx):
    p = dict(params)
    p["witness"] = False
    p["replay"] = True
    r = cbmc_query(qid, p, ctx)
    st = r.get("status")
    if st == VIOLATED:
        if "NEGCTL" not in (r.get("detail") or ""):
            return r  # some other check failed (bounds, overflow ...): a real violation
        if r.get("replay_ok") is True:
            r["status"] = HOLDS
            r["detail"] = "negative control fired: singular survivor set %s (replayed natively: gf_invert_matrix == -1)" % (
                (r.get("cex") or {}).get("surv"),)
            r["negctl_pattern"] = (r.get("cex") or {}).get("surv")
            r["witness_ok"] = True
            r.pop("finding_key", None)
            return r
        r["status"] = ERROR
        r["detail"] = "negative control: solver's singular pattern did not reproduce natively: " + (r.get("detail") or "")
        return r
    if st == HOLDS:
        r["status"] = VIOLATED
        r["cex"] = None
        r["replay_ok"] = None
        r["detail"] = ("negative control did NOT fire: the solver proved every survivor set of a documented-unsafe (m,k) invertible "
                       "-- gf_invert_matrix no longer reports singular matrices or the recovery harness is blind")
    return r
