/* C09: matrix inversion, generator matrices and erasure recovery of erasure_code/ec_base.c.
 *
 * Selected by -D:
 *   H_SUBFIELD  FIELD=q          the stated q-element set is a subfield of GF(2^8)/0x11D
 *   H_INVERT    N=n FIELD=q      gf_invert_matrix on ALL n x n matrices with entries in that subfield
 *   H_GEN_CAUCHY / H_GEN_RS  M=m K=k   generator formulas at a symbolic (i,j)
 *   H_RECOVER   M=m K=k GEN_RS|GEN_CAUCHY [NEGCTL] [FIRST=r]
 *                                 k symbolic strictly increasing survivor rows; decode matrix built as
 *                                 examples/ec/ec_simple_example.c does; real gf_invert_matrix
 */
#include "verif.h"
#include "gf256.h"
#include "erasure_code.h"
#ifdef LEAF
/* ec_base.c with gf_mul/gf_inv computed by the specification (lemmas of C12); the plan then passes
 * units=[] -- see spec/ec_base_leaf.h.  Native replay uses the unmodified ec_base.c. */
#include "ec_base_leaf.h"
#endif

/* ---- specification helpers (only spec_gf_mul; no library table) ---- */
static uint8_t
spec_pow(uint8_t b, unsigned e)
{
        uint8_t r = 1;
        for (unsigned t = 0; t < e; t++)
                r = spec_gf_mul(r, b);
        return r;
}

#if defined(H_SUBFIELD) || defined(H_INVERT)
#if FIELD == 2
static const uint8_t FS[2] = { 0, 1 };
#elif FIELD == 4
static const uint8_t FS[4] = { 0, 1, 214, 215 };
#elif FIELD == 16
static const uint8_t FS[16] = { 0, 1, 10, 11, 68, 69, 78, 79, 146, 147, 152, 153, 214, 215, 220, 221 };
#elif FIELD == 256
#define FS_ALL
#else
#error FIELD must be 2, 4, 16 or 256
#endif
#ifndef FS_ALL
static int
in_fs(uint8_t v)
{
        int f = 0;
        for (int t = 0; t < FIELD; t++)
                if (FS[t] == v)
                        f = 1;
        return f;
}
#define ENTRY(x) FS[(x) % FIELD]
#else
#define ENTRY(x) (x)
#endif
#endif

#if defined(H_INVERT)
#define NN (N * N)
/* Laplace expansion along the first row (characteristic 2: no signs) */
static uint8_t
spec_det(const uint8_t *m, int n)
{
        if (n == 1)
                return m[0];
        uint8_t sub[(N - 1) * (N - 1) + 1];
        uint8_t d = 0;
        for (int c = 0; c < n; c++) {
                int p = 0;
                for (int r = 1; r < n; r++)
                        for (int cc = 0; cc < n; cc++)
                                if (cc != c)
                                        sub[p++] = m[r * n + cc];
                d ^= spec_gf_mul(m[c], spec_det(sub, n - 1));
        }
        return d;
}
struct inputs {
        uint8_t idx[NN];
};
#elif defined(H_SUBFIELD)
struct inputs {
        uint8_t a, b;
};
#elif defined(H_GEN_CAUCHY) || defined(H_GEN_RS)
struct inputs {
        uint8_t i, j;
};
#elif defined(H_RECOVER)
struct inputs {
        uint8_t surv[K];
        uint8_t r, c;
};
#else
#error no harness selected
#endif
DECLARE_INPUTS

void
harness(void)
{
        VERIF_INPUTS();
#if defined(H_SUBFIELD)
        uint8_t a = FS[I.a % FIELD], b = FS[I.b % FIELD];
        VASSERT(in_fs(0) && in_fs(1), "0,1 in set");
        VASSERT(in_fs(a ^ b), "closed under addition");
        VASSERT(in_fs(spec_gf_mul(a, b)), "closed under multiplication");
        if (a != 0) {
                int hasinv = 0;
                for (int t = 0; t < FIELD; t++)
                        if (spec_gf_mul(a, FS[t]) == 1)
                                hasinv = 1;
                VASSERT(hasinv, "non-zero element has its inverse inside the set");
        }
        /* distinct elements */
        if ((I.a % FIELD) != (I.b % FIELD))
                VASSERT(a != b, "set elements distinct");
#elif defined(H_INVERT)
        uint8_t A[NN], in[NN], out[NN + 1];
        for (int t = 0; t < NN; t++)
                A[t] = in[t] = ENTRY(I.idx[t]);
#ifdef SPLIT0
        VASSUME(I.idx[0] % FIELD == SPLIT0); /* case split on entry [0][0]; all FIELD cases are swept by the plan */
#endif
        out[NN] = 0x5A; /* canary */
        int ret = gf_invert_matrix(in, out, N);
        VASSERT(ret == 0 || ret == -1, "ret in {0,-1}");
        VASSERT(out[NN] == 0x5A, "nothing written past n*n");
#if N <= DETMAX && !defined(NO_DET)
        uint8_t det = spec_det(A, N);
        VASSERT((ret == 0) == (det != 0), "ret==0 <=> det != 0");
#endif
#ifndef NO_PROD
        if (ret == 0) {
                for (int r = 0; r < N; r++)
                        for (int c = 0; c < N; c++) {
                                uint8_t s = 0, s2 = 0;
                                for (int t = 0; t < N; t++) {
                                        s ^= spec_gf_mul(A[r * N + t], out[t * N + c]);
                                        s2 ^= spec_gf_mul(out[r * N + t], A[t * N + c]);
                                }
                                VASSERT(s == (r == c), "A*out == I");
                                VASSERT(s2 == (r == c), "out*A == I");
                        }
        }
#endif
#elif defined(H_GEN_CAUCHY) || defined(H_GEN_RS)
        uint8_t a[M * K + 1];
        a[M * K] = 0x5A;
#ifdef H_GEN_CAUCHY
        gf_gen_cauchy1_matrix(a, M, K);
#else
        gf_gen_rs_matrix(a, M, K);
#endif
        VASSERT(a[M * K] == 0x5A, "nothing written past m*k");
        VASSUME(I.i < M && I.j < K);
        uint8_t v = a[I.i * K + I.j];
        if (I.i < K)
                VASSERT(v == (I.i == I.j), "identity top block");
        else {
#ifdef H_GEN_CAUCHY
                /* i >= k > j so i^j != 0; v is THE inverse iff v*(i^j)==1 */
                VASSERT(spec_gf_mul(v, (uint8_t) (I.i ^ I.j)) == 1, "cauchy[i][j] == inv(i^j)");
#else
#ifdef DOC_FORMULA
                /* NOT in the plan: the formula as printed in include/erasure_code.h ("2^{i*(j-k+1)} i:{0,k-1}
                 * j:{k,m-1}", i = column, j = row).  Violated on the unchanged tree: the code generates
                 * 2^{i*(j-k)} (first parity row all ones), which is also what gen_rs_matrix_limits.c -- the
                 * source of the documented-safe table -- analyses.  Reported as a documentation finding. */
                VASSERT(v == spec_pow(2, (unsigned) I.j * (I.i - K + 1)), "DOC rs[row][col] == 2^(col*(row-k+1))");
#else
                VASSERT(v == spec_pow(spec_pow(2, I.i - K), I.j), "rs[i][j] == (2^(i-k))^j");
#endif
#endif
        }
#elif defined(H_RECOVER)
        uint8_t enc[M * K], b[K * K], bsave[K * K], inv[K * K];
#ifdef GEN_RS
        gf_gen_rs_matrix(enc, M, K);
#else
        gf_gen_cauchy1_matrix(enc, M, K);
#endif
        /* erasure pattern: the k surviving fragment indices, strictly increasing (as
         * gf_gen_decode_matrix_simple produces them in decode_index[]) */
        for (int t = 0; t < K; t++) {
                VASSUME(I.surv[t] < M);
                if (t)
                        VASSUME(I.surv[t - 1] < I.surv[t]);
        }
#ifdef FIRST
        VASSUME(I.surv[0] == FIRST); /* case split swept by the plan */
#endif
        for (int t = 0; t < K; t++)
                for (int j = 0; j < K; j++)
                        bsave[K * t + j] = b[K * t + j] = enc[K * I.surv[t] + j];
        int ret = gf_invert_matrix(b, inv, K);
#ifdef NEGCTL
        /* documented-unsafe (m,k): the solver is expected to FIND a pattern with ret == -1 */
        VASSERT(ret == 0, "NEGCTL every survivor set gives an invertible decode matrix");
#else
        VASSERT(ret == 0, "decode matrix invertible for every survivor set");
        VASSUME(I.r < K && I.c < K);
        uint8_t s = 0, s2 = 0;
        for (int t = 0; t < K; t++) {
                s ^= spec_gf_mul(inv[I.r * K + t], bsave[t * K + I.c]);
                s2 ^= spec_gf_mul(bsave[I.r * K + t], inv[t * K + I.c]);
        }
        VASSERT(s == (I.r == I.c), "inv*B == I (recovers erased sources)");
        VASSERT(s2 == (I.r == I.c), "B*inv == I");
#endif
#endif
        VREACHED();
}
VERIF_MAIN
