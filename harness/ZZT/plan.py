import os
from vlib.core import Plan
def plan(tier, ctx):
    which = os.environ.get("ZZT", "C15")
    mod = __import__("harness.%s.cbmc_plan" % which, fromlist=["cbmc_queries"])
    qs, info = mod.cbmc_queries(tier)
    return Plan("ZZT", "model_checking", qs, **{k: info.get(k, []) for k in ("functions_encoded", "stubs", "assumptions", "outside")}, bounds=info.get("bounds", {}))
