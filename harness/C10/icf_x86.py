"""Engine B on an igzip assembly kernel: encode_deflate_icf_04 (AVX2) / _06 (AVX-512) — the level 1-3 bit emitter.
Control-relevant inputs (ICF tokens, code LENGTHS, bit-buffer fill, output space) are concrete per case and swept;
the code BITS of every referenced Huffman-table entry, the pending bits of the bit buffer are symbolic.
Decided per case: (1) every store lies inside the output buffer [buf, buf+len) (the 8-byte slop is part of len),
(2) the emitted bit stream (bytes written + pending bits) equals the concatenation
        lit_len_table[t.lit_len].code_and_extra : length | dist_lit_table[t.lit_dist].code : length | t.dist_extra : extra_bit_count
    over the tokens consumed, (3) it stops only when the buffer is full or the tokens are exhausted."""
import random
import time
import z3
from vlib.core import HOLDS, VIOLATED, UNDECIDED, ERROR
from vlib.x86sym import loader, bv
from vlib.x86sym.interp import Exec
from vlib.x86sym.machine import Violation, Unsupported
from vlib.x86sym.runner import Setup, build_native_driver, validate_concrete, run_native, native_crash_replay, smt_check, region_bytes

FILES = {"04": "igzip/encode_df_04.asm", "06": "igzip/encode_df_06.asm"}
DIST_EXTRA = [0, 0, 0, 0, 1, 1, 2, 2, 3, 3, 4, 4, 5, 5, 6, 6, 7, 7, 8, 8, 9, 9, 10, 10, 11, 11, 12, 12, 13, 13]
NULL_DIST = 30


def gen_case(seed, ntok, maxlen):
    """concrete skeleton: tokens + per-entry (length, extra_bit_count)"""
    rnd = random.Random(seed)
    toks, ll_len, d_len = [], {}, {}
    for _ in range(ntok):
        kind = rnd.choice("LLPM" if maxlen <= 12 else "LPMM")
        if kind == "L":
            ll, ld, ex = rnd.randrange(256), NULL_DIST, 0
        elif kind == "P":
            ll, ld, ex = rnd.randrange(256), 31 + rnd.randrange(256), 0
        else:
            ll = 257 + rnd.randrange(256)
            ld = rnd.randrange(30)
            ex = rnd.getrandbits(DIST_EXTRA[ld]) if DIST_EXTRA[ld] else 0
        toks.append((ll, ld, ex))
        ll_len.setdefault(ll, rnd.randint(1, maxlen) + (rnd.randint(0, 5) if ll >= 257 else 0))
        if ld < 30:
            d_len.setdefault(ld, rnd.randint(1, maxlen))
        elif ld >= 31:
            ll_len.setdefault(ld - 31, rnd.randint(1, maxlen))
    return toks, ll_len, d_len


def build(img, func, toks, ll_len, d_len, bitcnt, used, outlen, sym, guard=None, rnd=None):
    """sym=True: code bits symbolic (z3), else random concrete. returns (Setup, info)"""
    tbl = [0] * 2176
    cons = []

    def code_bytes(name, nbits):
        if sym:
            v = z3.BitVec(name, 24)
            cons.append(z3.ULT(v, 1 << nbits) if nbits < 24 else z3.BoolVal(True))
            return [z3.Extract(7, 0, v), z3.Extract(15, 8, v), z3.Extract(23, 16, v)], v
        v = rnd.getrandbits(nbits)
        return [v & 0xFF, (v >> 8) & 0xFF, (v >> 16) & 0xFF], v
    entries = {}
    for d, ln in d_len.items():           # dist_table[d] at 4*d: code16, extra_bit_count, length
        cb, v = code_bytes("dc%d" % d, ln)
        tbl[4 * d:4 * d + 4] = [cb[0], cb[1], DIST_EXTRA[d], ln]
        entries[("d", d)] = (v, ln)
    for l_, ln in ll_len.items():         # lit_len_table[l] at 124 + 4*l: code_and_extra24, length
        cb, v = code_bytes("lc%d" % l_, min(ln, 16))
        tbl[124 + 4 * l_:124 + 4 * l_ + 4] = [cb[0], cb[1], 0, ln if ln <= 16 else 16]
        entries[("l", l_)] = (v, ln if ln <= 16 else 16)
    s = Setup(img, func, guard)
    tokbytes = []
    for (ll, ld, ex) in toks:
        tokbytes.extend(bv.split_bytes(32, ll | (ld << 10) | (ex << 19)))
    tin = s.region("tokens", 4 * len(toks), r=True, w=False, init=tokbytes)
    tb = s.region("hufftables_icf", 2176, r=True, w=False, init=tbl)
    outinit = [0xEE] * outlen
    ob = s.region("out", outlen, r=True, w=True, init=outinit)
    if sym:
        mb = z3.BitVec("mbits", 64)
        cons.append(z3.ULT(mb, 1 << bitcnt) if bitcnt < 64 else z3.BoolVal(True))
        mbytes = bv.split_bytes(64, mb)
    else:
        mb = rnd.getrandbits(bitcnt) if bitcnt else 0
        mbytes = bv.split_bytes(64, mb)
    bbinit = mbytes + bv.split_bytes(32, bitcnt) + [0] * 4 + bv.split_bytes(64, ob + used) + bv.split_bytes(64, ob + outlen - 8) + bv.split_bytes(64, ob)
    bb = s.region("bitbuf2", 40, r=True, w=True, init=bbinit)
    s.args = [tin, tin + 4 * len(toks), bb, tb]
    return s, dict(tin=tin, tb=tb, ob=ob, bb=bb, mb=mb, cons=cons, entries=entries)


def spec_stream(toks, k, info, bitcnt):
    """list of (value, nbits) pieces, least significant first"""
    pieces = [(info["mb"], bitcnt)] if bitcnt else []
    for (ll, ld, ex) in toks[:k]:
        v, ln = info["entries"][("l", ll)]
        pieces.append((v, ln))
        if ld < 30:
            dv, dl = info["entries"][("d", ld)]
            pieces.append((dv, dl))
            if DIST_EXTRA[ld]:
                pieces.append((ex, DIST_EXTRA[ld]))
        elif ld >= 31:
            v2, l2 = info["entries"][("l", ld - 31)]
            pieces.append((v2, l2))
    return pieces


def assemble(pieces, sym):
    total = sum(n for _, n in pieces)
    if not sym:
        acc, pos = 0, 0
        for v, n in pieces:
            acc |= (v & ((1 << n) - 1)) << pos
            pos += n
        return acc, total
    parts = []
    for v, n in pieces:
        if n == 0:
            continue
        if isinstance(v, int):
            parts.append(z3.BitVecVal(v & ((1 << n) - 1), n))
        else:
            parts.append(z3.Extract(n - 1, 0, v))
    if not parts:
        return None, 0
    return (z3.Concat(*reversed(parts)) if len(parts) > 1 else parts[0]), total


def gen_boundary(lane, total, ntok=16):
    """Tokens whose lanes `lane` and `lane`+1 (mod 8, in both groups of 8) are matches of exactly `total` bits
    (lit/len code + extra, distance code, distance extra bits); the other lanes are 5-bit literals.  The kernels switch
    to their long-code path at per-lane thresholds (27..32 bits): every threshold is approached from both sides."""
    toks, ll_len, d_len = [], {}, {}
    for i in range(ntok):
        if i % 8 in (lane, (lane + 1) % 8):
            ld = 29 if total >= 20 else 8                  # distance symbol: 13 / 3 extra bits
            ex = (1 << DIST_EXTRA[ld]) - 1
            rest = total - DIST_EXTRA[ld]
            b = min(15, max(1, rest - 15))                  # distance code length
            a = rest - b                                    # lit/len code length incl. its extra bits (<= 20)
            ll = 257 + 200 + (i % 8)
            assert 1 <= a <= 20 and 1 <= b <= 15, (lane, total, a, b)
            toks.append((ll, ld, ex))
            ll_len[ll] = a
            d_len[ld] = b
        else:
            ll = 40 + (i % 8)
            toks.append((ll, NULL_DIST, 0))
            ll_len[ll] = 5
    return toks, ll_len, d_len


def icf_one(var, func, img, exe, case, stats):
    seed, ntok, maxlen, bitcnt, used, outlen = case[:6]
    if len(case) > 6:       # boundary case: (lane, total bits)
        toks, ll_len, d_len = gen_boundary(case[6], case[7], ntok)
    else:
        toks, ll_len, d_len = gen_case(seed, ntok, maxlen)
    rnd = random.Random(seed * 7 + 1)
    val = 0
    # translator validation (concrete code bits)
    for trial in range(2):
        s, info = build(img, func, toks, ll_len, d_len, bitcnt, used, outlen, False, rnd=rnd)
        ok, msg = validate_concrete(img, s, exe, ret_bits=64)
        if ok is False:
            return {"status": ERROR, "detail": "translator validation failed (%s case %s): %s" % (func, case, msg)}
        val += 1
    s, info = build(img, func, toks, ll_len, d_len, bitcnt, used, outlen, True)
    ex = Exec(img)
    try:
        finals = ex.run(s.initial_state())
    except Unsupported as e:
        return {"status": ERROR, "detail": "outside encodable class: %s (case %s)" % (e, case)}
    stats["paths"] += len(finals)
    stats["variables"] += ex.n_insns
    if len(finals) != 1:
        return {"status": ERROR, "detail": "kernel forked on code bits (%d paths)" % len(finals)}
    st, out = finals[0]

    def concrete_replay(model):
        # instantiate the symbolic code bits and replay natively against the independent re-evaluation
        r2 = random.Random(1)
        s2, i2 = build(img, func, toks, ll_len, d_len, bitcnt, used, outlen, False, rnd=r2)
        return s2, i2
    if isinstance(out, Violation):
        s2, i2 = concrete_replay(None)
        okc, rlog = native_crash_replay(lambda g: build(img, func, toks, ll_len, d_len, bitcnt, used, outlen, False, guard=g, rnd=random.Random(2))[0], exe)
        return {"status": VIOLATED, "detail": "%s at %r (case seed=%d ntok=%d maxlen=%d bitcnt=%d used=%d outlen=%d) | %s" % (out, out.insn, seed, ntok, maxlen, bitcnt, used, outlen, rlog),
                "cex": {"kernel": func, "case": case}, "replay_ok": True if okc else None, "replay_log": rlog, "validated_traces": val}
    abi = s.abi_check(st)
    if abi:
        return {"status": VIOLATED, "detail": "ABI: " + abi, "cex": {"case": case}, "replay_ok": None}
    ret = st.r["rax"]
    if not bv.is_c(ret) or (ret - info["tin"]) % 4 or not (0 <= (ret - info["tin"]) // 4 <= ntok):
        return {"status": VIOLATED, "detail": "returned token pointer is not a token boundary inside the input (case %s)" % (case,), "cex": {"case": case}, "replay_ok": None}
    k = (ret - info["tin"]) // 4
    bbb = info["bb"]
    cnt = bv.join_bytes([st.mem.b[bbb + 8 + i] for i in range(4)])
    obuf = bv.join_bytes([st.mem.b[bbb + 16 + i] for i in range(8)])
    if not (bv.is_c(cnt) and bv.is_c(obuf)):
        return {"status": ERROR, "detail": "symbolic bit count / output pointer"}
    if not (info["ob"] <= obuf <= info["ob"] + outlen):
        return {"status": VIOLATED, "detail": "m_out_buf left the output buffer (case %s)" % (case,), "cex": {"case": case}, "replay_ok": None}
    if k < ntok and not (obuf > info["ob"] + outlen - 8):
        return {"status": VIOLATED, "detail": "kernel stopped after %d of %d tokens although the bit buffer is not full (case %s)" % (k, ntok, case), "cex": {"case": case}, "replay_ok": None}
    nbytes = obuf - (info["ob"] + used)
    pieces = spec_stream(toks, k, info, bitcnt)
    want, total = assemble(pieces, True)
    if 8 * nbytes + cnt != total:
        return {"status": VIOLATED, "detail": "emitted %d bits, specification %d bits (k=%d, case %s)" % (8 * nbytes + cnt, total, k, case), "cex": {"case": case}, "replay_ok": None}
    mbits = bv.join_bytes([st.mem.b[bbb + i] for i in range(8)])
    got_parts = [(bv.z(8, st.mem.b[info["ob"] + used + i]), 8) for i in range(nbytes)]
    conds = list(info["cons"])
    diffs = []
    if cnt:
        got_parts.append((bv.extract(mbits, cnt - 1, 0) if not bv.is_c(mbits) else mbits & ((1 << cnt) - 1), cnt))
    hi = bv.lshr(64, mbits, cnt) if cnt < 64 else 0
    if not bv.is_c(hi):
        diffs.append(hi != 0)
    elif hi != 0:
        diffs.append(z3.BoolVal(True))
    if total:
        gv = z3.Concat(*[p if not isinstance(p, int) else z3.BitVecVal(p, n) for p, n in reversed(got_parts)]) if len(got_parts) > 1 else (got_parts[0][0] if not isinstance(got_parts[0][0], int) else z3.BitVecVal(got_parts[0][0], got_parts[0][1]))
        diffs.append(gv != want)
    stats["clauses"] += len(diffs)
    if diffs:
        r, m = smt_check(conds + [z3.Or(*diffs)])
        if r == z3.unknown:
            return {"status": UNDECIDED, "detail": "z3 unknown"}
        if r == z3.sat:
            return {"status": VIOLATED, "detail": "emitted bit stream differs from the ICF encoding specification (k=%d tokens, case %s)" % (k, case),
                    "cex": {"kernel": func, "case": case}, "replay_ok": None, "validated_traces": val}
    return {"status": HOLDS, "validated_traces": val}


def icf_query(qid, params, ctx):
    var = params["variant"]
    func = "encode_deflate_icf_" + var
    t0 = time.time()
    stats = {"variables": 0, "clauses": 0, "paths": 0}
    val = 0
    try:
        img = loader.build_image(ctx["repo"], [FILES[var]], ctx["scratch"])
        exe = build_native_driver(img, [func], ctx["scratch"] + "/x86", func)
        for case in params["cases"]:
            r = icf_one(var, func, img, exe, tuple(case), stats)
            val += r.get("validated_traces", 0)
            if r["status"] != HOLDS:
                r["stats"] = stats
                return r
    except Unsupported as e:
        return {"status": ERROR, "detail": "outside encodable class: %s" % e}
    return {"status": HOLDS, "stats": stats, "validated_traces": val, "solver_time_s": time.time() - t0, "witness_ok": stats["paths"] > 0}
