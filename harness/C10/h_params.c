/* C10(c): invalid level / flush / level buffer is rejected with a documented error code before any
 * output is produced.
 *
 * Symbolic: level (all 32 bits), flush (all 16 bits of the field), level_buf in {NULL, valid object}, level_buf_size
 * (all 32 bits), end_of_stream, the input and the prior contents of the output buffer.
 * Concrete: API (0 stateless / 1 isal_deflate), WRAP (gzip_flag 0..4), N = avail_in, AVAIL_OUT.
 * Precondition: the combination is INVALID according to include/igzip_lib.h (written down below
 * independently of check_level_req).  Valid combinations are other properties' business.
 *
 * Compression itself is not explored here: see the wmemset stub below.
 */
#include "verif.h"
#include <stdlib.h>
#include <wchar.h>
#include "igzip_lib.h"

#ifndef N
#define N 2
#endif
#ifndef WRAP
#define WRAP 0
#endif
#ifndef AVAIL_OUT
#define AVAIL_OUT 40
#endif

struct inputs {
        uint32_t level, level_buf_size;
        uint16_t flush; /* the field is 16 bits wide */
        uint8_t buf_is_null, eos;
        uint8_t data[N ? N : 1];
        uint8_t out0[AVAIL_OUT];
};
DECLARE_INPUTS

#ifndef REPLAY
/* Every compression path starts by initialising the hash table (reset_match_history -> wmemset, which CBMC
 * has no model of anyway).  Under the precondition "parameters invalid" reaching it means the validation let
 * the combination through: report that and stop the path instead of exploring level 1-3 compression with a
 * symbolic level. */
wchar_t *
wmemset(wchar_t *s, wchar_t c, size_t n)
{
        __CPROVER_assert(0, "compression started (hash table initialised) although the parameters are invalid");
        __CPROVER_assume(0);
        return s;
}
#endif

/* documented minimum level buffer sizes (igzip_lib.h: ISAL_DEF_LVLx_MIN) */
static uint32_t
lvl_min(uint32_t level)
{
        return level == 1 ? ISAL_DEF_LVL1_MIN : level == 2 ? ISAL_DEF_LVL2_MIN : ISAL_DEF_LVL3_MIN;
}

void
harness(void)
{
        VERIF_INPUTS();
        static struct isal_zstream S;
        struct isal_zstream *s = &S;
        uint8_t *in = malloc(N ? N : 1);
        uint8_t *out = malloc(AVAIL_OUT);
        static uint8_t lbuf[64]; /* a valid (non-NULL) level buffer; its real size is irrelevant: it must not be touched */
        if (!in || !out)
                return;
        for (int i = 0; i < N; i++)
                in[i] = I.data[i];
        for (int i = 0; i < AVAIL_OUT; i++)
                out[i] = I.out0[i];
        VASSUME(I.eos <= 1 && I.buf_is_null <= 1);

#if API == 0
        isal_deflate_stateless_init(s);
        int flush_ok = (I.flush == NO_FLUSH || I.flush == FULL_FLUSH);
        /* stateless: "When the compression level is set to 1, unlike in isal_deflate(), level_buf may be
         * optionally set" -> level 1 with a NULL buffer is valid */
        int level_ok = I.level == 0 || (I.level == 1 && I.buf_is_null) ||
                       (I.level >= 1 && I.level <= 3 && !I.buf_is_null && I.level_buf_size >= lvl_min(I.level));
#else
        isal_deflate_init(s);
        int flush_ok = (I.flush == NO_FLUSH || I.flush == SYNC_FLUSH || I.flush == FULL_FLUSH);
        int level_ok = I.level == 0 || (I.level >= 1 && I.level <= 3 && !I.buf_is_null && I.level_buf_size >= lvl_min(I.level));
#endif
        VASSUME(!(flush_ok && level_ok)); /* the invalid combinations, all of them */

        s->level = I.level;
        s->flush = I.flush;
        s->level_buf = I.buf_is_null ? (uint8_t *) 0 : lbuf;
        s->level_buf_size = I.level_buf_size;
        s->gzip_flag = WRAP;
        s->end_of_stream = I.eos;
        s->next_in = in;
        s->avail_in = N;
        s->next_out = out;
        s->avail_out = AVAIL_OUT;

#if API == 0
        int ret = isal_deflate_stateless(s);
#else
        int ret = isal_deflate(s);
#endif
        VASSERT(ret != COMP_OK, "invalid parameters are not accepted");
        VASSERT(ret == INVALID_FLUSH || ret == ISAL_INVALID_LEVEL || ret == ISAL_INVALID_LEVEL_BUF,
                "the return value is one of the documented error codes");
        if (!flush_ok)
                VASSERT(ret == INVALID_FLUSH || !level_ok, "invalid flush (valid level): INVALID_FLUSH");
        if (flush_ok && (I.level > 3))
                /* with a NULL buffer the code reports the buffer first; both answers name a real defect of the call */
                VASSERT(ret == ISAL_INVALID_LEVEL || (I.buf_is_null && ret == ISAL_INVALID_LEVEL_BUF),
                        "level outside 0..3: ISAL_INVALID_LEVEL (ISAL_INVALID_LEVEL_BUF if the buffer is missing as well)");
        if (flush_ok && I.level >= 1 && I.level <= 3)
                /* igzip_lib.h documents ISAL_INVALID_LEVEL_BUF for "level buffer not large enough"; the code
                 * answers ISAL_INVALID_LEVEL for an undersized buffer and ISAL_INVALID_LEVEL_BUF for NULL. Both
                 * are accepted here (see the report); which one is asserted only for the NULL case. */
                VASSERT(I.buf_is_null ? ret == ISAL_INVALID_LEVEL_BUF : (ret == ISAL_INVALID_LEVEL_BUF || ret == ISAL_INVALID_LEVEL),
                        "missing / undersized level buffer: ISAL_INVALID_LEVEL_BUF (or ISAL_INVALID_LEVEL)");
        VASSERT(s->total_out == 0 && s->next_out == out && s->avail_out == AVAIL_OUT, "no output produced: counters untouched");
        VASSERT(s->total_in == 0 && s->next_in == in && s->avail_in == N, "no input consumed");
        for (int i = 0; i < AVAIL_OUT; i++)
                VASSERT(out[i] == I.out0[i], "output buffer untouched");
        VREACHED();
}
VERIF_MAIN
