"""C10 — output-space contract, termination and parameter validation of level-0 compression.

Families
  AV     (a) isal_deflate_stateless with avail_out swept 0..bound+9 (harness deflate_common/h_oneshot.c)
  STORED (b) stored-block fallback with symbolic n <= 200000 and a range-recording memcpy
  PARAM  (c) invalid level / flush / level buffer, all 32-bit values symbolic
(d) streaming termination is decided in C07 (bounded call loop reaches ZSTATE_END).
"""
from vlib.core import Query, Plan
from harness.deflate_common import dflplan as D

STORED_UNITS = ["igzip/igzip_base_aliases.c", "igzip/igzip_base.c", "igzip/hufftables_c.c", "crc/crc_base.c", "crc/crc64_base.c",
                "crc/crc_base_aliases.c", "igzip/adler32_base.c"]


def _av(n, wrap, flush, table, avail, cls, witness=False, core=False):
    tag, classes, toklens, feasible = cls
    b = D.bound(n, wrap)
    hdef = ["N=%d" % n, "API=0", "WRAP=%d" % wrap, "FLUSH=%d" % flush, "EOS=0", "TABLE=%d" % table,
            "AVAIL_OUT=%d" % avail, "EXPECT_OK=%d" % (1 if avail >= b else 0), "ORACLE=1",
            "RFC_MAXBLOCKS=%d" % (3 if flush else 1),
            D.cdef("DFL_CLASSES", classes), D.cdef("DFL_TOKLENS", toklens), D.cdef("DFL_CLASS_SET", D.STATIC_LIT_CLASSES)]
    qid = "AV/%s/n%d/%s/f%d/a%d(%+d)/%s" % ("static" if table else "default", n, D.WRAPS[wrap], flush, avail, avail - b, tag)
    params = dict(harness=D.ONESHOT, units=D.UNITS, vunits=D.VUNITS, hdefines=hdef, unwind=3,
                  unwindset=D.unwindset(n, avail=max(avail, 1), nblk=(3 if flush else 2)), witness=witness,
                  flags=D.fs_flags(avail))
    return Query(qid, D.R, params, core=core, family="AV/" + ("static" if table else "default"),
                 weight=(8.0 if table else 1.0))


def asmfinish_query(n, ao, cls=8, hist=0, pend=3, core=False, witness=False, timeout=900):
    """isal_deflate_finish_01 (assembly) lifted to C at check time: memory safety and accounting on n symbolic input bytes."""
    p = dict(harness="harness/C10/h_asmfinish.c", units=D.UNITS + ["igzip/igzip_base.c"], vunits=D.VUNITS,
             defines=["_X86INTRIN_H_INCLUDED=1", "_IMMINTRIN_H_INCLUDED=1"], hdefines=["N=%d" % n, "AVAIL_OUT=%d" % ao, "PEND=%d" % pend, "CLS=%d" % cls, "HIST=%d" % hist],
             instrument=[["@gen", "harness.inflate_common.lift_gen:gen_asmfinish", "lift_asmfinish.c", {}]],
             unwind=n + 4, unwindset=["LIFT_RD.0:9", "LIFT_WR.0:9", "harness.0:%d" % (n + 2), "harness.1:%d" % (n + 2), "harness.2:%d" % (n + 2), "wmemset.0:4100", "lift_ctz.0:65", "lift_clz.0:65",
                        "lift_popcnt.0:65", "lift_crc32c.0:65", "lift_rep_movs.0:260"],
             flags=["--slice-formula"], witness=witness, timeout=timeout, mem_gb=16, hunt_unwind=1)
    return Query("x86lift/isal_deflate_finish_01/n%d_ao%d_c%d_h%d" % (n, ao, cls, hist), D.R, p, core=core, family="x86lift/isal_deflate_finish_01", weight=4 ** min(n, 6))


def plan(tier, ctx):
    quick = tier == "quick"
    qs = []
    nocls = ("c-", [], [], True)
    # ---------------------------------------------------------------- (a)
    for n in ([0, 1, 2] if quick else [0, 1, 2, 3]):
        for wrap in (0, 1, 2, 3, 4):
            b = D.bound(n, wrap)
            for flush in ((0,) if quick else (0, 2)):
                for av in range(0, b + 10):
                    # default table: stored fallback whenever it fits
                    if not (quick and wrap in (2, 4) and n == 1):
                        core = (n == 2 and wrap == 1 and flush == 0 and av in (b - 1, b))
                        qs.append(_av(n, wrap, flush, 0, av, nocls, witness=core or (av == b + 3 and n == 1), core=core))
                    # static table: fixed-Huffman attempt, stored fallback
                    if quick and not ((wrap == 0) or (wrap in (1, 3) and n <= 1 and av >= b - 8)):
                        continue
                    for cls in D.class_vectors(n, D.STATIC_LIT_CLASSES, with_other=False):
                        core = (n == 1 and wrap == 0 and flush == 0 and av in (b - 1, b) and cls[1] == [9])
                        qs.append(_av(n, wrap, flush, 1, av, cls, witness=core, core=core))
    # ---------------------------------------------------------------- (b)
    for nmax in ([200000] if quick else [200000, 70000]):
        qs.append(Query("STORED/nmax%d" % nmax, D.R,
                        dict(harness="harness/C10/h_stored.c", units=STORED_UNITS, vunits=D.VUNITS, hdefines=["NMAX=%du" % nmax],
                             unwind=2, unwindset=["write_stored_block.0:6", "harness.0:6", "harness.1:6", "rec_memcpy.0:9",
                                                  "wmemset.0:3", "reset_match_history.0:3"],
                             flags=["--slice-formula"], witness=True, timeout=600),
                        core=(nmax == 200000), family="STORED", weight=30))
    # ---------------------------------------------------------------- (c)
    for api in (0, 1):
        for wrap in (0, 1, 2, 3, 4):
            for n in ((2,) if quick else (0, 2)):
                qs.append(Query("PARAM/%s/%s/n%d" % ("stateless" if api == 0 else "isal_deflate", D.WRAPS[wrap], n), D.R,
                                dict(harness="harness/C10/h_params.c", units=D.UNITS + ["igzip/igzip_base.c"], vunits=D.VUNITS,
                                     hdefines=["API=%d" % api, "N=%d" % n, "WRAP=%d" % wrap, "AVAIL_OUT=40"], unwind=3,
                                     unwindset=["harness.%d:42" % i for i in range(6)] + ["crc32_gzip_refl_base.0:4", "adler32_base.2:4", "write_stored_block.0:3"],
                                     witness=True, timeout=600),
                                core=(wrap == 1), family="PARAM", weight=30))
    # ---------------------------------------------------------------- stored bound at the 65535 boundaries (lead)
    # real stored_len arithmetic + real fallback of isal_deflate_stateless with the compression attempt replaced by
    # a failing stub (--replace-calls): avail_out around the documented bound on an exact-size output object
    sl_units = ["igzip/igzip.c", "igzip/igzip_base.c", "igzip/igzip_base_aliases.c", "igzip/hufftables_c.c",
                "crc/crc_base.c", "crc/crc64_base.c", "crc/crc_base_aliases.c", "igzip/adler32_base.c"]
    # (thorough run of 2026-10-03: gzip/zlib success paths time out -- CRC/Adler over 64 KiB of symbolic payload -- and n = 1 breaks the
    #  harness' own first/last-byte bookkeeping: both removed, raw wrapper only)
    for n in ([65535, 65536, 131071] if quick else [65534, 65535, 65536, 65537, 131070, 131071, 131072, 196606]):
        for wrap in [0]:
            b = D.bound(n, wrap)
            for av in ([b - 5, b - 1, b] if quick else [b - 6, b - 5, b - 1, b, b + 1]):
                qs.append(Query("STOREDLEN/n%d/%s/av%+d" % (n, D.WRAPS[wrap], av - b), D.R,
                                dict(harness="harness/C10/h_storedlen.c", units=sl_units, vunits=D.VUNITS,
                                     defines=["_X86INTRIN_H_INCLUDED=1", "_IMMINTRIN_H_INCLUDED=1"],
                                     hdefines=["N=%d" % n, "WRAP=%d" % wrap, "AVAIL_OUT=%d" % av],
                                     replace_calls=["isal_deflate_int_stateless:verif_attempt_fails", "memcpy:verif_memcpy"],
                                     unwindset=["write_stored_block.0:5", "crc32_gzip_refl_base.0:%d" % (n + 2), "adler32_base.0:40", "adler32_base.1:5560", "adler32_base.2:20",
                                                ],
                                     unwind=66, object_bits=10, witness=(n == 65536 and av == b), timeout=600, mem_gb=16, replay=False),
                                core=False, family="STOREDLEN", weight=n / 1000.0))
    # ---------------------------------------------------------------- engine B on the igzip ICF bit emitters (lead)
    shapes = [(40, 15, 100), (64, 15, 150), (48, 15, 64), (33, 15, 90), (100, 9, 120), (24, 15, 300), (17, 12, 40), (8, 15, 64), (1, 15, 16)]
    seeds = range(1, 9) if quick else range(1, 41)
    for var in ("04", "06"):
        # per-lane long-code thresholds: two adjacent match tokens of exactly T bits in every lane pair, several bit-buffer fills
        bcases = [[1, 16, 15, fill, 0, 200, lane, T] for lane in range(8) for T in range(26, 34) for fill in ((7,) if quick else (0, 3, 7))]
        for i in range(0, len(bcases), 16):
            qs.append(Query("x86/icf_%s/lanes/c%d" % (var, i // 16), "harness.C10.icf_x86:icf_query", dict(variant=var, cases=bcases[i:i + 16]),
                            core=False, family="x86/encode_deflate_icf_" + var, weight=30))
        cases = [[sd, nt, ml, sd % 8, (sd * 3) % 7, ol] for sd in seeds for (nt, ml, ol) in shapes]
        for i in range(0, len(cases), 18):
            qs.append(Query("x86/icf_%s/c%d" % (var, i // 18), "harness.C10.icf_x86:icf_query", dict(variant=var, cases=cases[i:i + 18]),
                            core=(i == 0), family="x86/encode_deflate_icf_" + var, weight=30))
    # ---------------------------------------------------------------- engine C (lead): the assembly finish kernel lifted to C
    fin = [(4, 3), (5, 1), (6, 7), (3, 64), (1, 64), (2, 9)] if quick else [(n, ao) for n in (1, 2, 3) for ao in (0, 1, 3, 7, 8, 9, 10, 64)] + [(n, ao) for n in (4, 5, 6, 8, 16) for ao in (0, 1, 3, 7)]
    for (n, ao) in fin:
        for cls in (8, 9):
            for hist in (0, 1):
                qs.append(asmfinish_query(n, ao, cls, hist, core=False, witness=((n, ao, cls, hist) == (3, 64, 8, 0))))
    return Plan("C10", "model_checking", qs,
                functions_encoded=["isal_deflate_stateless", "isal_deflate_int_stateless", "write_stream_header_stateless",
                                   "write_deflate_header_stateless", "write_stored_block", "write_type0_header", "write_trailer",
                                   "isal_deflate_finish_base", "bitbuf2.h (is_full / 8-byte slop)", "check_level_req",
                                   "isal_deflate (validation prologue)"],
                bounds={"(a)": "n 0..2 quick / 0..3 thorough, every avail_out in 0..bound+9, wrappers all 5, NO_FLUSH (+FULL_FLUSH thorough), "
                               "default table (stored path) and static table (all code-length class vectors); all data symbolic",
                        "(b)": "n symbolic 0..200000, avail_out symbolic >= n+5*blocks, end_of_stream symbolic, total_in before the call symbolic < 2^31; raw deflate",
                        "(c)": "level, level_buf_size: all 2^32 values each; flush all 2^16; level_buf NULL / valid; end_of_stream 0/1; gzip_flag 0..4 and avail_in 2 (0 thorough) swept; avail_out 40"},
                stubs=["wmemset: loop (a) / 'compression reached' marker that stops the path (c)",
                       "(b) memcpy inside igzip.c replaced by a range-recording stub: payload bytes do not move; header copies are logged",
                       "get_lit_code class split (see C01)",
                       "(b) --slice-formula: drops the initialisation of the 200 KB dummy objects from the formula"],
                assumptions=["(b) the fallback is entered in the state isal_deflate_stateless establishes (transcribed from igzip.c lines 1447-1466)",
                             "(c) validity of a parameter combination written from include/igzip_lib.h; undersized level buffer may answer ISAL_INVALID_LEVEL or ISAL_INVALID_LEVEL_BUF",
                             "(a) on STATELESS_OVERFLOW only the counters' mutual consistency and 'no write beyond avail_out' are asserted"],
                outside=["levels 1-3", "incompressible inputs > 3 bytes through the compress attempt itself (only the fallback is covered at size)",
                         "(b) wrappers gzip/zlib at large n (header/trailer arithmetic is covered at n <= 3 in (a))",
                         "streaming termination: C07"],
                trusted_base=["cbmc 6.11", "spec/rfc1951.h", "harness/deflate_common"])
