/* C10(b): the stored-block fallback of isal_deflate_stateless for LARGE symbolic lengths.
 *
 * The fallback is entered as igzip.c:isal_deflate_stateless enters it after a failed compression attempt
 * (lines "stream->next_in = next_in + avail_in ... write_stored_block(stream) ... write_trailer(stream)"),
 * with the real static functions write_stream_header_stateless, write_stored_block, write_type0_header
 * (this file #includes igzip.c).  n is SYMBOLIC in 0..NMAX (200000: crosses 65535, 65536, 131070, 196605),
 * avail_out symbolic >= the stored bound (the precondition under which igzip.c takes this path).
 *
 * Payload bytes are not modelled: memcpy is interposed (for igzip.c only) by a recorder that
 *   - for copies from the input object: checks both ranges lie inside the declared in/out objects and
 *     logs (dst offset, src offset, len); no bytes move
 *   - for the <= 8-byte block-header copies: logs dst offset and the header bytes
 * Oracle (RFC 1951 3.2.4 + property text): blocks = max(1, ceil(n/65535)); block k carries
 * LEN = min(65535, n - 65535k), NLEN = ~LEN, BTYPE = 00 in a byte whose other bits are 0, BFINAL only on the
 * last block (iff end_of_stream); payload copies tile in[0..n) in order, each placed right after its 5-byte
 * header; total_out = hdr + n + 5*blocks; counters consistent; no arithmetic wrap (CBMC overflow checks +
 * the exact formula).
 */
#ifndef REPLAY
/* speed: skip the x86 intrinsic headers (13 s of goto-cc); igzip.c uses none (a use would not compile) */
#define _X86INTRIN_H_INCLUDED 1
#define _IMMINTRIN_H_INCLUDED 1
#endif
#include "verif.h"
#include <stdlib.h>
#include <string.h>
#include <wchar.h>
#include <assert.h>
#include "unaligned.h"

#ifndef NMAX
#define NMAX 200000u
#endif
#define MAXBLK 5

struct inputs {
        uint32_t n;
        uint32_t avail_out;
        uint8_t eos;
        uint32_t total_in0; /* stream->total_in before the call (the API adds to it) */
};
DECLARE_INPUTS

static uint8_t *g_in, *g_out;
static uint32_t g_in_len, g_out_len;
static int g_ncopy, g_nhdr;
static uint32_t g_dst[MAXBLK], g_src[MAXBLK], g_len[MAXBLK];
static uint32_t g_hdst[MAXBLK], g_hlen[MAXBLK];
static uint8_t g_hbytes[MAXBLK][8];
static int g_bad;

#ifndef REPLAY
#define IN_OBJECT(p, base, len) (__CPROVER_POINTER_OBJECT(p) == __CPROVER_POINTER_OBJECT(base))
#else
#define IN_OBJECT(p, base, len) ((p) >= (base) && (p) <= (base) + (len))
#endif

/* elem = sizeof(*src) at the call site: 8 for the block header (a local uint64_t), 1 for byte buffers; it is
 * a compile-time constant, so symbolic execution follows exactly one branch per call site and never
 * dereferences the 200 KB input object */
static void *
rec_memcpy(void *dst, const void *src, size_t len, size_t elem)
{
        const uint8_t *s = (const uint8_t *) src;
        uint8_t *d = (uint8_t *) dst;
        if (elem == 1) { /* payload */
                VASSERT(IN_OBJECT(s, g_in, g_in_len), "byte copy reads from the input buffer");
                size_t so = (size_t) (s - g_in), dof = (size_t) (d - g_out);
                VASSERT(IN_OBJECT(d, g_out, g_out_len) && dof <= g_out_len && len <= g_out_len - dof, "payload copy destination inside the output buffer");
                VASSERT(len <= g_in_len - so, "payload copy source inside the input buffer");
                if (g_ncopy < MAXBLK) {
                        g_dst[g_ncopy] = (uint32_t) dof;
                        g_src[g_ncopy] = (uint32_t) so;
                        g_len[g_ncopy] = (uint32_t) len;
                } else
                        g_bad = 1;
                g_ncopy++;
        } else { /* block header written from a local uint64_t */
                size_t dof = (size_t) (d - g_out);
                VASSERT(len <= 8, "non-payload copy is header sized");
                VASSERT(IN_OBJECT(d, g_out, g_out_len) && dof <= g_out_len && len <= g_out_len - dof, "header copy destination inside the output buffer");
                if (g_nhdr < MAXBLK) {
                        g_hdst[g_nhdr] = (uint32_t) dof;
                        g_hlen[g_nhdr] = (uint32_t) len;
                        for (size_t i = 0; i < 8; i++)
                                g_hbytes[g_nhdr][i] = i < len ? s[i] : 0;
                } else
                        g_bad = 1;
                g_nhdr++;
        }
        return dst;
}

#ifndef REPLAY
wchar_t *
wmemset(wchar_t *s, wchar_t c, size_t n)
{
        for (size_t i = 0; i < n; i++)
                s[i] = c;
        return s;
}
#endif

#define memcpy(d, s, n) rec_memcpy((d), (s), (n), sizeof(*(s)))
#include "igzip.c"
#undef memcpy

void
harness(void)
{
        VERIF_INPUTS();
        uint32_t n = I.n;
        VASSUME(n <= NMAX);
        uint64_t blocks = n == 0 ? 1 : ((uint64_t) n + 65534) / 65535;
        uint64_t bound = (uint64_t) n + 5 * blocks; /* raw deflate: no wrapper bytes */
        VASSUME(I.avail_out >= bound && I.avail_out <= NMAX + 64);
        VASSUME(I.eos <= 1);
        VASSUME(I.total_in0 <= 0x7fffffffu);

        g_in_len = NMAX;
        g_out_len = NMAX + 64;
        /* zero-initialised static objects (contents are irrelevant: no byte is moved or read) */
        static uint8_t in_obj[NMAX], out_obj[NMAX + 64];
        g_in = in_obj;
        g_out = out_obj;
        static struct isal_zstream S;
        struct isal_zstream *stream = &S;
        if (!g_in || !g_out)
                return;
        isal_deflate_stateless_init(stream);
        stream->gzip_flag = IGZIP_DEFLATE;
        stream->end_of_stream = I.eos;
        stream->flush = I.eos ? NO_FLUSH : FULL_FLUSH;

        /* the state isal_deflate_stateless establishes before the fallback (igzip.c, after the failed attempt) */
        uint8_t *next_in = g_in;
        uint32_t avail_in = n, total_in = I.total_in0;
        stream->next_in = next_in + avail_in;
        stream->avail_in = 0;
        stream->total_in = avail_in;
        stream->internal_state.block_next = stream->total_in - avail_in;
        stream->internal_state.block_end = stream->total_in;
        stream->next_out = g_out;
        stream->avail_out = I.avail_out;
        stream->total_out = 0;
        stream->internal_state.has_wrap_hdr = 0;
        stream->internal_state.has_eob_hdr = 0;
        stream->internal_state.has_eob = 0;
        init(&stream->internal_state.bitbuf);
        stream->internal_state.count = 0;
        stream->internal_state.state = ZSTATE_TYPE0_HDR;

        uint32_t left = write_stored_block(stream);

        stream->total_in = total_in + avail_in;

        VASSERT(!g_bad, "no more than ceil(n/65535) (+1) copies");
        VASSERT(left == 0, "write_stored_block reports nothing left");
        VASSERT(g_ncopy == (int) blocks && g_nhdr == (int) blocks, "one header and one payload copy per started 65535-byte block (one for n = 0)");
        uint32_t pos_in = 0, pos_out = 0;
        for (int k = 0; k < MAXBLK; k++) {
                if (k >= (int) blocks)
                        break;
                uint32_t len = (n - pos_in > 65535) ? 65535 : n - pos_in;
                int last = (k == (int) blocks - 1);
                VASSERT(g_hdst[k] == pos_out && g_hlen[k] == 5, "5-byte block header placed directly after the previous block");
                VASSERT(g_hbytes[k][0] == ((last && I.eos) ? 1 : 0), "header byte: BFINAL only on the last block of a finished stream, BTYPE 00, padding 0");
                VASSERT((uint32_t) (g_hbytes[k][1] | (g_hbytes[k][2] << 8)) == len, "LEN little endian");
                VASSERT((uint32_t) (g_hbytes[k][3] | (g_hbytes[k][4] << 8)) == (~len & 0xffff), "NLEN == ~LEN");
                VASSERT(g_dst[k] == pos_out + 5 && g_src[k] == pos_in && g_len[k] == len, "payload copy tiles the input in order right after its header");
                pos_in += len;
                pos_out += 5 + len;
        }
        VASSERT(pos_in == n, "payload copies cover in[0..n) exactly");
        VASSERT(stream->total_out == bound && pos_out == bound, "total_out == n + 5*blocks");
        VASSERT(stream->next_out == g_out + bound && stream->avail_out == I.avail_out - bound, "output counters consistent");
        VASSERT(stream->internal_state.block_next == stream->internal_state.block_end, "block fully consumed");
        VASSERT(stream->internal_state.state == (I.eos ? ZSTATE_TRL : ZSTATE_NEW_HDR), "next state: trailer iff end_of_stream");
        VASSERT(stream->total_in == I.total_in0 + n, "total_in advanced by n");
        VREACHED();
}
VERIF_MAIN
