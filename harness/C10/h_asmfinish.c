/* C10 / C05 (lead): the ASSEMBLY level-0 kernel isal_deflate_finish_01 (igzip/igzip_finish.asm -- what isal_deflate_finish
 * resolves to on every x86 CPU), lifted instruction by instruction to C at check time (vlib/x86lift.py) and run on an
 * explicit address-space model: the stream object (typed field access), the Huffman tables (typed), the input chunk
 * (exactly N bytes), the output window (exactly AVAIL_OUT bytes), the kernel's stack.  ANY access outside these regions is
 * reported -- in particular a store past next_out + avail_out (C10) or a load outside next_in .. next_in + avail_in (C05).
 *
 * Entered as isal_deflate_int enters it for the last bytes of a stream: static Huffman table selected, the block header
 * already in the bit buffer (PEND pending bits, value symbolic), no match history yet (has_hist symbolic: NO_HIST or
 * HIST with all hash heads at the start of the input), end_of_stream = 1.  N, AVAIL_OUT, PEND concrete per query; the
 * input bytes are symbolic (within one code-length class per query, see CLS).
 *
 * Asserted besides memory safety: counters move together (next_in/avail_in/total_in, next_out/avail_out/total_out),
 * total_out never exceeds avail_out, the kernel either consumes all input and leaves ZSTATE_TRL/…SYNC_FLUSH (end of
 * block written) or stops for lack of output space with the state unchanged.  The VALUE of the emitted bits is not
 * compared here (the portable kernel is decided against RFC 1951 in C01; an asm-vs-RFC bit oracle is future work). */
#ifndef REPLAY
#define _X86INTRIN_H_INCLUDED 1
#define _IMMINTRIN_H_INCLUDED 1
#endif
#include "verif.h"
#include <stdlib.h>
#include "igzip_lib.h"

#ifndef PEND
#define PEND 3
#endif

struct inputs {
        uint8_t in[N ? N : 1];
        uint8_t pend;
        uint8_t hist;
};
DECLARE_INPUTS

extern const struct isal_hufftables hufftables_static;

static struct isal_zstream S;
static uint8_t outw[AVAIL_OUT ? AVAIL_OUT : 1];
static uint8_t inb[N ? N : 1];

#define STREAM_BASE 0x10000000ULL
#define IN_BASE 0x20000000ULL
#define OUT_BASE 0x30000000ULL
#define STACK_BASE 0x40000000ULL
#define HUFF_BASE 0x50000000ULL
#define STACK_SIZE 256
/* 8-byte slots (<= 64 of them): CBMC keeps small arrays field-sensitive, so saved registers and spilled loop bounds stay
 * concrete for the symbolic executor (as a byte array the spilled loop bound became symbolic and every loop was unrolled
 * to its limit); the kernels only use aligned 8-byte stack accesses, anything else is reported */
static uint64_t lift_stack[STACK_SIZE / 8];
static uint64_t v_next_in, v_next_out, v_out_buf, v_out_end, v_out_start;
#define OFF(f) offsetof(struct isal_zstream, f)
#define HOFF(f) offsetof(struct isal_hufftables, f)
static uint64_t LIFT_RD(uint64_t a, int n);
static void LIFT_WR(uint64_t a, int n, uint64_t v);
#define LIFT_UNREACHABLE() VASSERT(0, "lifted code: fell through the end of a basic block that cannot fall through")
#ifndef REPLAY
/* The crc32 instruction is only the hash function of the match finder (its value selects a hash head).  For the memory-safety
 * and accounting assertions made here ANY hash value is a sound over-approximation; an arbitrary value per execution of the
 * instruction keeps 32-round CRC circuits over symbolic data out of the formula.  The native replay uses the real CRC. */
uint32_t nondet_u32(void);
#define LIFT_CRC32C(c, d, n) ((uint64_t) nondet_u32())
#endif
#include "lift_asmfinish.c"

static uint64_t
stream_rd(uint64_t off, int n)
{
        struct isal_zstate *z = &S.internal_state;
        if (n == 8) {
                if (off == OFF(next_in))
                        return v_next_in;
                if (off == OFF(next_out))
                        return v_next_out;
                if (off == OFF(hufftables))
                        return HUFF_BASE;
                if (off == OFF(internal_state.bitbuf.m_bits))
                        return z->bitbuf.m_bits;
                if (off == OFF(internal_state.bitbuf.m_out_buf))
                        return v_out_buf;
                if (off == OFF(internal_state.bitbuf.m_out_end))
                        return v_out_end;
                if (off == OFF(internal_state.bitbuf.m_out_start))
                        return v_out_start;
        }
        if (n == 4) {
                if (off == OFF(avail_in))
                        return S.avail_in;
                if (off == OFF(total_in))
                        return S.total_in;
                if (off == OFF(avail_out))
                        return S.avail_out;
                if (off == OFF(total_out))
                        return S.total_out;
                if (off == OFF(internal_state.dist_mask))
                        return z->dist_mask;
                if (off == OFF(internal_state.hash_mask))
                        return z->hash_mask;
                if (off == OFF(internal_state.state))
                        return (uint32_t) z->state;
                if (off == OFF(internal_state.bitbuf.m_bit_count))
                        return z->bitbuf.m_bit_count;
        }
        if (n == 2) {
                if (off == OFF(end_of_stream))
                        return S.end_of_stream;
                if (off == OFF(flush))
                        return S.flush;
                if (off >= OFF(internal_state.head) && off < OFF(internal_state.head) + sizeof(z->head) && !(off & 1))
                        return z->head[(off - OFF(internal_state.head)) / 2];
        }
        if (n == 1) {
                if (off == OFF(internal_state.has_eob))
                        return z->has_eob;
                if (off == OFF(internal_state.has_hist))
                        return z->has_hist;
                if (off == OFF(internal_state.has_eob_hdr))
                        return z->has_eob_hdr;
        }
        VASSERT(0, "kernel reads a stream field / width outside the modelled set");
        return 0;
}

static void
stream_wr(uint64_t off, int n, uint64_t v)
{
        struct isal_zstate *z = &S.internal_state;
        if (n == 8 && off == OFF(next_in))
                v_next_in = v;
        else if (n == 8 && off == OFF(next_out))
                v_next_out = v;
        else if (n == 8 && off == OFF(internal_state.bitbuf.m_bits))
                z->bitbuf.m_bits = v;
        else if (n == 8 && off == OFF(internal_state.bitbuf.m_out_buf))
                v_out_buf = v;
        else if (n == 8 && off == OFF(internal_state.bitbuf.m_out_end))
                v_out_end = v;
        else if (n == 8 && off == OFF(internal_state.bitbuf.m_out_start))
                v_out_start = v;
        else if (n == 4 && off == OFF(avail_in))
                S.avail_in = (uint32_t) v;
        else if (n == 4 && off == OFF(total_in))
                S.total_in = (uint32_t) v;
        else if (n == 4 && off == OFF(avail_out))
                S.avail_out = (uint32_t) v;
        else if (n == 4 && off == OFF(total_out))
                S.total_out = (uint32_t) v;
        else if (n == 4 && off == OFF(internal_state.state))
                z->state = (uint32_t) v;
        else if (n == 4 && off == OFF(internal_state.bitbuf.m_bit_count))
                z->bitbuf.m_bit_count = (uint32_t) v;
        else if (n == 2 && off >= OFF(internal_state.head) && off < OFF(internal_state.head) + sizeof(z->head) && !(off & 1))
                z->head[(off - OFF(internal_state.head)) / 2] = (uint16_t) v;
        else if (n == 1 && off == OFF(internal_state.has_eob))
                z->has_eob = (uint8_t) v;
        else if (n == 1 && off == OFF(internal_state.has_hist))
                z->has_hist = (uint8_t) v;
        else if (n == 1 && off == OFF(internal_state.has_eob_hdr))
                z->has_eob_hdr = (uint8_t) v;
        else
                VASSERT(0, "kernel writes a stream field / width outside the modelled set");
}

static uint64_t
huff_rd(uint64_t off, int n)
{
        const struct isal_hufftables *h = &hufftables_static;
        if (n == 4 && off >= HOFF(len_table) && off < HOFF(len_table) + sizeof(h->len_table) && !((off - HOFF(len_table)) & 3))
                return h->len_table[(off - HOFF(len_table)) / 4];
        /* the kernel looks up len_table[len - 3] speculatively before it knows that len >= 3: the three words in front of
         * len_table (still inside the tables object) */
        if (n == 4 && off == HOFF(deflate_hdr_extra_bits))
                return h->deflate_hdr_extra_bits;
        if (n == 4 && off >= HOFF(dist_table) && off < HOFF(dist_table) + sizeof(h->dist_table) && !((off - HOFF(dist_table)) & 3))
                return h->dist_table[(off - HOFF(dist_table)) / 4];
        if (n == 2 && off >= HOFF(lit_table) && off < HOFF(lit_table) + sizeof(h->lit_table) && !((off - HOFF(lit_table)) & 1))
                return h->lit_table[(off - HOFF(lit_table)) / 2];
        if (n == 1 && off >= HOFF(lit_table_sizes) && off < HOFF(lit_table_sizes) + sizeof(h->lit_table_sizes)) {
                uint8_t v = h->lit_table_sizes[off - HOFF(lit_table_sizes)];
#ifdef CLS
                /* case split over the code length of the data literals (static table: 8 bits for 0..143, 9 bits for 144..255;
                 * CLS swept by the plan): keeps every shift count and output address concrete, as the class vectors of the
                 * C harnesses do (DESIGN 5b C01).  Mixed-class inputs are outside these queries. */
                if (off - HOFF(lit_table_sizes) != 256) {
                        VASSUME(v == CLS);
                        return CLS;
                }
#endif
                return v;
        }
        if (n == 2 && off >= HOFF(dcodes) && off < HOFF(dcodes) + sizeof(h->dcodes) && !((off - HOFF(dcodes)) & 1))
                return h->dcodes[(off - HOFF(dcodes)) / 2];
        if (n == 1 && off >= HOFF(dcodes_sizes) && off < HOFF(dcodes_sizes) + sizeof(h->dcodes_sizes))
                return h->dcodes_sizes[off - HOFF(dcodes_sizes)];
        VASSERT(0, "kernel reads the Huffman tables at an offset / width outside the modelled set");
        return 0;
}

static uint64_t
LIFT_RD(uint64_t a, int n)
{
        if (a - STREAM_BASE < sizeof(struct isal_zstream))
                return stream_rd(a - STREAM_BASE, n);
        if (a - HUFF_BASE < sizeof(struct isal_hufftables))
                return huff_rd(a - HUFF_BASE, n);
        if (a - STACK_BASE < STACK_SIZE) {
                VASSERT(n == 8 && !(a & 7), "stack access is an aligned 8-byte slot");
                return lift_stack[(a - STACK_BASE) / 8];
        }
        uint64_t v = 0;
        for (int i = 0; i < n; i++) {
                uint64_t p = a + i;
                uint8_t b = 0;
                if (p - IN_BASE < N)
                        b = inb[p - IN_BASE];
                else if (p - OUT_BASE < AVAIL_OUT)
                        b = outw[p - OUT_BASE];
                else if (!lift_img_byte(p, &b))
                        VASSERT(0, "kernel reads outside next_in .. next_in + avail_in (and its stack / constants)");
                v |= (uint64_t) b << (8 * i);
        }
        return v;
}

static void
LIFT_WR(uint64_t a, int n, uint64_t v)
{
        if (a - STREAM_BASE < sizeof(struct isal_zstream)) {
                stream_wr(a - STREAM_BASE, n, v);
                return;
        }
        if (a - STACK_BASE < STACK_SIZE) {
                VASSERT(n == 8 && !(a & 7), "stack access is an aligned 8-byte slot");
                lift_stack[(a - STACK_BASE) / 8] = v;
                return;
        }
        for (int i = 0; i < n; i++) {
                uint64_t p = a + i;
                uint8_t b = (uint8_t) (v >> (8 * i));
                if (p - OUT_BASE < AVAIL_OUT)
                        outw[p - OUT_BASE] = b;
                else
                        VASSERT(0, "kernel writes outside next_out .. next_out + avail_out (and its stack)");
        }
}

void
harness(void)
{
        VERIF_INPUTS();
        for (int i = 0; i < N; i++)
                inb[i] = I.in[i];
        isal_deflate_init(&S);
        S.hufftables = (struct isal_hufftables *) &hufftables_static;
        S.end_of_stream = 1;
        S.flush = NO_FLUSH;
        S.avail_in = N;
        S.avail_out = AVAIL_OUT;
        S.total_in = 0;
        S.total_out = 0;
        S.internal_state.state = ZSTATE_FLUSH_READ_BUFFER; /* the state in which isal_deflate_int calls the finish kernel */
        S.internal_state.dist_mask = IGZIP_HIST_SIZE - 1;
        S.internal_state.hash_mask = IGZIP_LVL0_HASH_SIZE - 1;
#ifdef HIST /* concrete per query: keeps the first-byte path decision out of the symbolic state */
        S.internal_state.has_hist = HIST;
#else
        VASSUME(I.hist == IGZIP_NO_HIST || I.hist == IGZIP_HIST);
        S.internal_state.has_hist = I.hist;
#endif
        VASSUME(I.pend < (1u << PEND));
        S.internal_state.bitbuf.m_bits = I.pend;
        S.internal_state.bitbuf.m_bit_count = PEND;
        /* heads: as reset_match_history leaves them for a stream that starts here (all point at position 0) */
        v_next_in = IN_BASE;
        v_next_out = OUT_BASE;

        lift_isal_deflate_finish_01(STREAM_BASE, 0, 0, 0, STACK_BASE + STACK_SIZE - 64);

        uint64_t cin = v_next_in - IN_BASE, cout = v_next_out - OUT_BASE;
        VASSERT(cin <= N, "next_in stays inside the input");
        VASSERT(S.avail_in == N - cin && S.total_in == cin, "next_in / avail_in / total_in move together");
        VASSERT(cout <= AVAIL_OUT, "next_out stays inside the output window");
        VASSERT(S.avail_out == AVAIL_OUT - cout && S.total_out == cout, "next_out / avail_out / total_out move together");
        VASSERT(S.internal_state.bitbuf.m_bit_count < 64, "bit count sane");
        if (S.internal_state.state != ZSTATE_FLUSH_READ_BUFFER) {
                VASSERT(S.avail_in == 0, "the kernel leaves its state only after all input is consumed");
                VASSERT(S.internal_state.state == ZSTATE_TRL || S.internal_state.state == ZSTATE_SYNC_FLUSH || S.internal_state.state == ZSTATE_END,
                        "next state: trailer / flush");
                VASSERT(S.internal_state.has_eob == 1, "end of block written");
        }
        VREACHED();
}
VERIF_MAIN
