/* C10 (lead): the stored-block bound arithmetic of isal_deflate_stateless at the 65535-byte block boundaries.
 * The compression attempt (isal_deflate_int_stateless) is replaced (goto-instrument --replace-calls) by a
 * stub that fails without side effects, i.e. the incompressible-input case; the real stored_len computation,
 * the real fallback (write_stream_header_stateless, write_stored_block, write_trailer) and the real
 * overflow decision run on an exact-size output object.  N, WRAP, AVAIL_OUT concrete and swept; data symbolic. */
#ifndef REPLAY
#define _X86INTRIN_H_INCLUDED 1
#define _IMMINTRIN_H_INCLUDED 1
#endif
#include "verif.h"
#include <stdlib.h>
#include "igzip_lib.h"

struct inputs {
        uint8_t first, last;
};
DECLARE_INPUTS

int
verif_attempt_fails(struct isal_zstream *s)
{
        (void) s;
        return STATELESS_OVERFLOW;
}

/* payload copies: exact for header-sized copies, end bytes only for large ones (both ends inside their
 * objects <=> the whole contiguous range is; CBMC checks the two accesses).  Installed for the library units
 * with goto-instrument --replace-calls memcpy:verif_memcpy. */
void *
verif_memcpy(void *d, const void *s, size_t n)
{
        uint8_t *dd = d;
        const uint8_t *ss = s;
        if (n <= 64) {
                for (size_t i = 0; i < n; i++)
                        dd[i] = ss[i];
        } else {
                dd[0] = ss[0];
                dd[n - 1] = ss[n - 1];
        }
        return d;
}

static const int hdr_len[5] = { 0, 10, 0, 2, 0 };
static const int trl_len[5] = { 0, 8, 8, 4, 4 };

void
harness(void)
{
        VERIF_INPUTS();
        static uint8_t in_obj[N];   /* zero bytes except the two symbolic end bytes */
        uint8_t *in = in_obj;
        uint8_t *out = malloc(AVAIL_OUT ? AVAIL_OUT : 1);
        struct isal_zstream *s = malloc(sizeof(*s));
        if (!in || !out || !s)
                return;
        in[0] = I.first;
        in[N - 1] = I.last;
        isal_deflate_stateless_init(s);
        s->level = 0;
        s->gzip_flag = WRAP;
        s->flush = NO_FLUSH;
        s->end_of_stream = 1;
        s->next_in = in;
        s->avail_in = N;
        s->next_out = out;
        s->avail_out = AVAIL_OUT;
        int ret = isal_deflate_stateless(s);
        uint32_t blocks = (N + 65534u) / 65535u;
        uint32_t bound = N + 5 * blocks + hdr_len[WRAP] + trl_len[WRAP];
        VASSERT(ret == COMP_OK || ret == STATELESS_OVERFLOW, "COMP_OK or STATELESS_OVERFLOW");
        if (AVAIL_OUT >= bound)
                VASSERT(ret == COMP_OK, "succeeds whenever avail_out >= n + 5*blocks + wrapper");
        else
                VASSERT(ret == STATELESS_OVERFLOW, "incompressible input with less than the stored bound: overflow is reported, not success");
        if (ret == COMP_OK) {
                VASSERT(s->total_out == bound, "stored output is exactly the documented bound");
                VASSERT(s->total_out <= AVAIL_OUT && s->avail_out == AVAIL_OUT - s->total_out && s->next_out == out + s->total_out, "output counters");
                VASSERT(s->avail_in == 0 && s->total_in == N, "input counters");
                const uint8_t *b = out + hdr_len[WRAP];
                /* first block header: BFINAL only if it is the last block, BTYPE 00, LEN/NLEN */
                uint32_t len0 = N > 65535 ? 65535 : N;
                VASSERT(b[0] == (blocks == 1 ? 1 : 0), "first stored block header byte");
                VASSERT((b[1] | (b[2] << 8)) == len0 && ((b[3] | (b[4] << 8)) ^ 0xffff) == len0, "first block LEN/NLEN");
                VASSERT(b[5] == I.first, "payload starts right after the 5-byte header");
                VASSERT(out[s->total_out - trl_len[WRAP] - 1] == I.last, "last payload byte directly before the trailer");
        }
        VREACHED();
}
VERIF_MAIN
