/* Shared by the inflate unit harnesses (C02, C06): pulls the real igzip/igzip_inflate.c into the
 * harness translation unit (so `static` functions, macros and structs are the repo's own), and
 * supplies the externals that unit references but the unit-level harnesses must never reach. */
#ifndef INFLATE_COMMON_H
#define INFLATE_COMMON_H
#include "verif.h"
#include "rfc1951.h"

#include "igzip_inflate.c"

/* ---- externals of igzip_inflate.c that are outside every unit harness: reaching one is a
 * harness error and is reported (same behaviour under CBMC and native replay) ---- */
#ifndef INFLATE_COMMON_NO_GLUE
uint32_t
crc32_gzip_refl(uint32_t init_crc, const unsigned char *buf, uint64_t len)
{
        (void) buf;
        (void) len;
        VASSERT(0, "harness glue: crc32_gzip_refl unexpectedly reached");
        return init_crc;
}
uint32_t
isal_adler32_bam1(uint32_t adler32, const unsigned char *start, uint64_t length)
{
        (void) start;
        (void) length;
        VASSERT(0, "harness glue: isal_adler32_bam1 unexpectedly reached");
        return adler32;
}
void
isal_gzip_header_init(struct isal_gzip_header *gz_hdr)
{
        (void) gz_hdr;
        VASSERT(0, "harness glue: isal_gzip_header_init unexpectedly reached");
}
void
isal_zlib_header_init(struct isal_zlib_header *z_hdr)
{
        (void) z_hdr;
        VASSERT(0, "harness glue: isal_zlib_header_init unexpectedly reached");
}
int
decode_huffman_code_block_stateless(struct inflate_state *s, uint8_t *start_out)
{
#ifdef IC_NO_HUFFMAN /* stored-block harnesses: a Huffman block must never be entered */
        (void) s;
        (void) start_out;
        VASSERT(0, "harness glue: Huffman block decoder unexpectedly reached");
        return ISAL_INVALID_BLOCK;
#else
        return decode_huffman_code_block_stateless_base(s, start_out);
#endif
}
#endif

/* -DIC_LOOP_MEMCPY (CBMC only): memcpy as a plain byte loop (unwind bound memcpy.0 set by the plan).
 * CBMC's built-in memcpy model with a symbolic length/offset into the output arena costs 10x the
 * formula (measured on the fixed-Huffman unit, N=1: 11.1 M variables / 186 s vs 1.2 M / 27 s). Bounds of
 * every byte access are still checked by CBMC's pointer checks inside the loop. */
#if defined(IC_LOOP_MEMCPY) && !defined(REPLAY)
void *
memcpy(void *dst, const void *src, size_t n)
{
        unsigned char *d = dst;
        const unsigned char *s = src;
        for (size_t i = 0; i < n; i++)
                d[i] = s[i];
        return dst;
}
#endif

/* bit position (in the caller's input) of the next unread bit */
static inline size_t
ic_bitpos(const struct inflate_state *s, const uint8_t *in_start)
{
        return (size_t) (s->next_in - in_start) * 8 - (size_t) s->read_in_length;
}

/* bit i (LSB-first numbering of RFC 1951) of the caller's input */
static inline unsigned
ic_bit(const uint8_t *in, size_t pos)
{
        return (in[pos >> 3] >> (pos & 7)) & 1u;
}

#endif
