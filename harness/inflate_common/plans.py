"""Query builders shared by the C02 and C06 plans (inflate unit harnesses)."""
from vlib.core import Query

R = "vlib.cbmc:cbmc_query"

# Build-speed only: the include guards of gcc's <x86intrin.h>/<immintrin.h>.  igzip's headers pull
# them in but (without -mlzcnt/-mbmi/-msse4.2, exactly like the Makefile build) use none of their
# contents; parsing them costs goto-cc 13-17 s per harness.  With the guards predefined the
# translation unit is otherwise identical.
FAST = ["_X86INTRIN_H_INCLUDED", "_IMMINTRIN_H_INCLUDED"]


def stored_query(prop, n, avail_out, valid_only, core=False, witness=False, timeout=None):
    """C02(a)/C06(a): real isal_inflate_stateless on n arbitrary bytes restricted to stored blocks."""
    hdef = ["N=%d" % n, "AVAIL_OUT=%d" % avail_out] + (["VALID_ONLY"] if valid_only else [])
    blocks = n // 5 + 2
    p = dict(harness="harness/C02/h_stored.c", units=["igzip/hufftables_c.c"], defines=FAST, hdefines=hdef,
             remove=["setup_static_header", "setup_dynamic_header"],
             unwind=2,
             unwindset=["isal_inflate_stateless.0:%d" % (blocks + 1), "inflate_in_load.0:9",
                        "reaches_coded_block.0:%d" % (blocks + 1),
                        "rfc1951_inflate.0:9", "rfc1951_inflate.1:%d" % (n + 1), "rfc_bits.0:17",
                        "harness.0:%d" % (avail_out + 2), "harness.1:%d" % (avail_out + 2)],
             witness=witness)
    if timeout:
        p["timeout"] = timeout
    fam = "stored_valid" if valid_only else "stored_arbitrary"
    return Query("%s/n%d_ao%d" % (fam, n, avail_out), R, p, core=core, family=fam, weight=1 + n)


def fixed_query(prop, n, avail_out, valid_only, core=False, witness=False, timeout=None, mem_gb=None):
    """C02(b)/C06(b): decode_huffman_code_block_stateless_base with the in-tree static tables on n arbitrary bytes."""
    hdef = ["N=%d" % n, "AVAIL_OUT=%d" % avail_out] + (["VALID_ONLY"] if valid_only else [])
    syms = 8 * n // 7 + 3           # shortest code is 7 bits; +1 for the attempt that runs out of input
    syms2 = 8 * (n + 2) // 7 + 3    # reference run on the 2-byte continuation
    cp = max(8, avail_out) + 1
    p = dict(harness="harness/C02/h_fixed.c", units=["igzip/hufftables_c.c"], defines=FAST, hdefines=hdef,
             unwind=max(9, n + 3),
             # CBMC numbers the inner loop first: .0 = per-symbol-pack loop / reference copy loop, .1 = outer symbol loop
             unwindset=["decode_huffman_code_block_stateless_base.1:%d" % syms,
                        "decode_huffman_code_block_stateless_base.0:3", "byte_copy.0:%d" % (avail_out + 2),
                        "rfc_codes.1:%d" % syms2, "rfc_codes.0:%d" % (avail_out + 3), "rfc_bits.0:17",
                        "rfc_code_bits.0:9", "inflate_in_load.0:9", "memcpy.0:%d" % cp,
                        ] + ["harness.%d:%d" % (k, max(9, avail_out + 2, n + 1)) for k in range(6)],
             flags=["--slice-formula"], witness=witness)
    if timeout:
        p["timeout"] = timeout
    if mem_gb:
        p["mem_gb"] = mem_gb
    fam = "fixed_valid" if valid_only else "fixed_arbitrary"
    return Query("%s/n%d_ao%d" % (fam, n, avail_out), R, p, core=core, family=fam, weight=10 * 4 ** n)


def setcodes_query(nsym, core=False, witness=False, timeout=None):
    p = dict(harness="harness/C02/h_setcodes.c", units=["igzip/hufftables_c.c"], defines=FAST, hdefines=["NSYM=%d" % nsym],
             unwind=max(17, nsym + 2), witness=witness)
    if timeout:
        p["timeout"] = timeout
    return Query("set_codes/nsym%d" % nsym, R, p, core=core, family="set_codes", weight=nsym)


def dynprefix_query(core=True):
    p = dict(harness="harness/C02/h_setcodes.c", units=["igzip/hufftables_c.c"], defines=FAST, hdefines=["H_DYNPREFIX"],
             remove=["make_inflate_huff_code_lit_len", "make_inflate_huff_code_dist", "make_inflate_huff_code_header",
                     "set_and_expand_lit_len_huffcode", "setup_static_header", "decode_next_header"],
             unwind=2, unwindset=["setup_dynamic_header.0:5", "setup_dynamic_header.1:20", "inflate_in_load.0:9",
                                  "rfc_bits.0:17", "rfc_dynamic.0:20", "rfc_dynamic.1:20", "rfc1951_inflate.0:2",
                                  "set_codes.0:17", "set_codes.1:20"],
             witness=True)
    return Query("dyn_header_prefix/n3", R, p, core=core, family="dyn_header_prefix", weight=3)


# ---------------------------------------------------------------- plan descriptions shared by C02 / C06
FUNCS = ["isal_inflate_stateless (driver loop + final read-ahead undo, crc_flag = ISAL_DEFLATE)", "read_header",
         "decode_literal_block", "inflate_in_load", "inflate_in_read_bits(_unsafe)",
         "decode_huffman_code_block_stateless_base", "decode_next_lit_len", "decode_next_dist", "byte_copy",
         "static_lit_huff_code / static_dist_huff_code (igzip/static_inflate.h)", "rfc_lookup_table",
         "set_codes", "bit_reverse2", "setup_dynamic_header (prefix up to the code-length-code lengths)",
         "setup_dynamic_header code-length decoding loop: symbols 0-15, repeat codes 16/17/18, literal->distance table switch, "
         "lit_count/dist_count/lit_expand_count histograms (C02 family dyn_header_lengths; instrumented copy of the current source)",
         "make_inflate_huff_code_header + decode_next_header (C02 family mkhdr, 12 concrete code-length-code shapes)",
         "make_inflate_huff_code_dist + decode_next_dist (C06 only, concrete code-length shapes)",
         "check_zlib_checksum, check_gzip_checksum, fixed_size_read (C02 only: trailer consumption / end position)"]
STUBS = ["dyn_header_lengths: VERIF_DYNHDR_CAPTURE line inserted before the post-loop set_codes() call and the call of decode_next_header "
         "replaced by VERIF_DECODE_NEXT_HEADER in a scratch COPY of the current igzip_inflate.c (nothing committed to /repo); bodies of "
         "make_inflate_huff_code_header/_lit_len/_dist, set_and_expand_lit_len_huffcode, header_matches_pregen removed (results unused)",
         "stored family: bodies of setup_static_header/setup_dynamic_header removed and the Huffman block decoder replaced by an "
         "assert-unreachable glue (both unreachable under the stated assumption)",
         "dynamic-header prefix: bodies of make_inflate_huff_code_*, set_and_expand_lit_len_huffcode, decode_next_header removed "
         "(unreachable with 3 input bytes: CBMC reports a call to a body-less function as a failure)",
         "fixed-Huffman family: memcpy is a plain byte loop (CBMC's built-in model costs 10x the formula); --slice-formula",
         "externals of igzip_inflate.c never reached by the units (crc32_gzip_refl, isal_adler32_bam1, *_header_init) assert-unreachable",
         "include guards _X86INTRIN_H_INCLUDED/_IMMINTRIN_H_INCLUDED predefined (build speed only)"]
ASSUMPTIONS = ["stored family: decoding never arrives at a block header with BTYPE 01/10 (harness-side walk over the stored-block structure)",
               "fixed-Huffman family: decoder entered as isal_inflate_stateless enters it after setup_static_header "
               "(block_state CODED, tables = static_inflate.h by struct assignment, empty bit buffer, start_out = next_out); "
               "for n >= 3 inputs that try to reach more than 256 bytes before the start of output are excluded (CBMC cannot "
               "evaluate `next_out - dist < start_out` outside the 256-byte arena prefix; a 32 KiB arena is > 17 GB)",
               "truncated fixed-Huffman input whose present bits only continue to undefined symbols (1100011x, 1111x): both "
               "END_INPUT and INVALID_SYMBOL accepted (ambiguous fault)",
               "set_codes: count[] is the histogram of the length fields, as setup_dynamic_header builds it",
               "spec/rfc1951.h is the reference semantics (self-tested against zlib at setup)"]
OUTSIDE = ["dyn_header_lengths: only the last 1-2 bytes of the code-length sequence are arbitrary (everything before is a concrete "
           "prefix of zero runs), one fixed complete code-length code, decode_next_header replaced by a direct decoder of that code",
           "whole isal_inflate_stateless / isal_inflate on Huffman-coded data (20 KB tables memcpy'd per block: no verdict at 2 bytes)",
           "dynamic blocks: make_inflate_huff_code_lit_len, set_and_expand_lit_len_huffcode on symbolic lengths (multi-symbol and long-code paths, code lengths up to 15) - measured out of reach",
           "Huffman data longer than 2 bytes quick / 3-4 bytes thorough; distances > 256 before start of output for n >= 3",
           "assembly decoders igzip_decode_block_stateless_01/_04; gzip/zlib wrappers and trailers (C11/C19)",
           "set_codes on more than 4 symbols quick / 8 thorough (12, 19: no verdict in 2400 s)"]


def bounds(valid_only):
    return {"stored": "input length 5..12 quick / 0..12 thorough, avail_out 0..8, all bytes symbolic",
            "fixed_huffman": "input 1-2 bytes quick, 1-3 (4 attempted) thorough; avail_out in {0,3} quick, {0,1,2,3,16} thorough; bfinal symbolic",
            "set_codes": "alphabets of 2..4 symbols quick, 1..8 thorough (12 and 19 attempted: no verdict in 2400 s); all length vectors over 0..15",
            "dyn_header_prefix": "3 arbitrary bytes with BTYPE=10 or 11",
            "dyn_header_lengths": "(HLIT,HDIST,lengths left before the boundary,arbitrary tail bytes): (5,3,1,1) quick; + (0,0,2,1) (29,29,3,1) "
                                  "(0,0,2,2) (2,1,1,2) (0,4,0,2) thorough",
            "mkhdr": "12 concrete code-length-code shapes; stale table contents and the 15 looked-up bits symbolic",
            "trailer (C02)": "bits in the bit buffer 0..64 (9 values quick, all 65 thorough) x following input bytes 0..11 (4 / 10 values), "
                             "bit-buffer contents, input bytes, running checksum and total_out symbolic; zlib and gzip",
            "mkdist (C06)": "15 concrete distance code-length vectors (empty, single code, complete, incomplete, long codes > 10 bits, "
                            "static 30x5); previous contents of the lookup structure (1104 x 16 bit) and the 15 looked-up bits symbolic",
            "flavour": "valid streams only" if valid_only else "arbitrary bytes"}


MKDIST_SHAPES = ["0", "1", "1,1", "1,2", "2,2,2", "2,2,2,2", "3,3,3,3,3", "10", "15", "12,12,12", "1,2,3,4,5,6,7,8,9,10",
                 "1,2,3,4,5,6,7,8,9,10,11,12,13,14,15", "1,2,3,4,5,6,7,8,9,10,11,12,13,14,15,15",
                 ",".join(["5"] * 30), "0,0,0,4,0,0,7,0,0,0,0,0,11,0,0,0,0,0,0,0,0,0,0,0,0,0,0,0,0,3"]


def mkdist_query(i, lens, core=False, witness=False):
    """C06/C15: make_inflate_huff_code_dist + decode_next_dist on a concrete length vector, arbitrary stale table contents."""
    p = dict(harness="harness/C06/h_mkdist.c", units=["igzip/hufftables_c.c"], defines=FAST, hdefines=["LENS=%s" % lens],
             unwind=33, unwindset=["harness.2:1026", "harness.3:1026", "harness.4:100", "rfc_decode.0:17"], witness=witness)
    return Query("mkdist/shape%02d" % i, R, p, core=core, family="mkdist", weight=2)


def trailer_query(kind, ril, avail, core=False, witness=False):
    """C02: check_zlib_checksum/check_gzip_checksum from an arbitrary bit buffer: exact end position."""
    hdef = ["RIL=%d" % ril, "AVAIL=%d" % avail] + (["H_GZIP"] if kind == "gzip" else [])
    p = dict(harness="harness/C02/h_trailer.c", units=["igzip/hufftables_c.c"], defines=FAST, hdefines=hdef,
             unwind=max(10, 8 + avail + 2), witness=witness)
    return Query("trailer_%s/ril%d_av%d" % (kind, ril, avail), R, p, core=core, family="trailer_" + kind, weight=1)


# ---------------------------------------------------------------- dynamic header: code-length decoding loop (lead)
CLC_LENS = [4] * 13 + [5] * 6       # code-length code: symbols 0..12 -> 4 bits, 13..18 -> 5 bits (Kraft sum exactly 1)
CLC_ORDER = [16, 17, 18, 0, 8, 7, 9, 6, 10, 5, 11, 4, 12, 3, 13, 2, 14, 1, 15]


def _canon(lens):
    """RFC 1951 3.2.2 canonical codes: {sym: (code, len)}."""
    blc = [0] * 16
    for l in lens:
        blc[l] += 1
    blc[0] = 0
    nxt, code = [0] * 16, 0
    for b in range(1, 16):
        code = (code + blc[b - 1]) << 1
        nxt[b] = code
    out = {}
    for s, l in enumerate(lens):
        if l:
            out[s] = (nxt[l], l)
            nxt[l] += 1
    return out


class _Bits:
    def __init__(self):
        self.bits = []

    def put(self, v, n):            # data elements: LSB first
        for i in range(n):
            self.bits.append((v >> i) & 1)

    def huff(self, code, n):        # Huffman codes: MSB first
        for i in range(n - 1, -1, -1):
            self.bits.append((code >> i) & 1)

    def bytes(self):
        b = self.bits + [0] * (-len(self.bits) % 8)
        return [sum(b[i + j] << j for j in range(8)) for i in range(0, len(b), 8)]


def dyn_prefix(hlit, hdist, p0, bfinal=1):
    """Concrete dynamic-block header + the first p0 code lengths: zeros everywhere except length 1 for symbol 256
    (when p0 > 256) and length 2 for the last prefix position (so that a following `16` repeats a non-zero length)."""
    cc = _canon(CLC_LENS)
    w = _Bits()
    w.put(bfinal, 1), w.put(2, 2), w.put(hlit, 5), w.put(hdist, 5), w.put(15, 4)
    for s in CLC_ORDER:
        w.put(CLC_LENS[s], 3)
    want = [0] * p0
    if p0 > 256:
        want[256] = 1
    if p0 > 0:
        want[p0 - 1] = 2
    i = 0
    w.nsym = 0
    while i < p0:
        w.nsym += 1
        if want[i]:
            w.huff(*cc[want[i]])
            i += 1
            continue
        run = 0
        while i + run < p0 and want[i + run] == 0:
            run += 1
        while run:
            if run >= 11:
                n = min(run, 138)
                w.huff(*cc[18]), w.put(n - 11, 7)
            elif run >= 3:
                n = run
                w.huff(*cc[17]), w.put(n - 3, 3)
            else:
                n = 1
                w.huff(*cc[0])
            run -= n
            i += n
            if run:
                w.nsym += 1
    return w.bytes(), len(w.bits), w.nsym


def dynlens_query(hlit, hdist, back, tail, core=False, witness=False, timeout=None, mem_gb=None):
    """C02/C06: setup_dynamic_header's code-length loop; the first p0 = HLIT+257-back lengths are concrete."""
    p0 = 257 + hlit - back
    pfx, nbits, npfx = dyn_prefix(hlit, hdist, p0)
    rest = back + hdist + 1
    hdef = ["HLIT=%d" % hlit, "HDIST=%d" % hdist, "TAIL=%d" % tail, "PFX_BITS=%d" % nbits,
            "PFX=" + ",".join(str(b) for b in pfx)]
    nsym = npfx + min(rest, 2 * tail) + 2      # concrete prefix symbols + at most 2 symbols per arbitrary byte (4-bit codes)
    anchor = r"set_codes\(&lit_and_dist_huff\[LIT_LEN\], DIST_LEN, dist_count\)"
    text = "        VERIF_DYNHDR_CAPTURE(state, lit_and_dist_huff, hlit, hdist, lit_count, dist_count, lit_expand_count);"
    p = dict(harness="harness/C02/h_dynlens.c", units=["igzip/hufftables_c.c"], defines=FAST, hdefines=hdef,
             instrument=[["igzip/igzip_inflate.c", "igzip_inflate.c", anchor, text],
                         ["igzip/igzip_inflate.c", "igzip_inflate.c", r"symbol = decode_next_header\(state, &inflate_code_huff\)",
                          "symbol = VERIF_DECODE_NEXT_HEADER(state, &inflate_code_huff)", "replace"]],
             remove=["make_inflate_huff_code_header", "make_inflate_huff_code_lit_len", "make_inflate_huff_code_dist", "set_and_expand_lit_len_huffcode",
                     "setup_static_header", "header_matches_pregen", "setup_pregen_header"],
             unwind=600,    # loops with concrete trip counts unroll exactly; the data-dependent ones are bounded below
             unwindset=["setup_dynamic_header.2:7", "setup_dynamic_header.3:%d" % nsym, "spec_lengths.2:8",
                        "spec_lengths.3:%d" % nsym, "inflate_in_load.0:9", "rfc_bits.0:17", "rfc_decode.0:17"],
             # measured on hlit5_hdist3_back1_t1: default 250 s; --slice-formula 190 s; + --no-array-field-sensitivity 164 s
             flags=["--slice-formula", "--no-array-field-sensitivity"], witness=witness)
    if timeout:
        p["timeout"] = timeout
    if mem_gb:
        p["mem_gb"] = mem_gb
    return Query("dyn_header_lengths/hlit%d_hdist%d_back%d_t%d" % (hlit, hdist, back, tail), R, p, core=core,
                 family="dyn_header_lengths", weight=20)


MKHDR_SHAPES = [",".join(str(l) for l in CLC_LENS), "1,1", "7", "2,2,2,2", "1,2,3,4,5,6,7,7", "3,3,3,3,3,3,3,3", "0,0,0,5",
                "1,2,3", "4,4,4,4,4,4,4,4,4,4,4,4,4,4,4,4", "7,7,7,7,1", "0,0,0,0,0,0,0,0,0,0,0,0,0,0,0,0,3,3,2", "2,3,3,3,3,3,4,4"]


def mkhdr_query(i, lens, core=False, witness=False):
    """C02/C06: make_inflate_huff_code_header + decode_next_header on a concrete code-length-code shape."""
    p = dict(harness="harness/C06/h_mkdist.c", units=["igzip/hufftables_c.c"], defines=FAST, hdefines=["H_MKHDR", "LENS=%s" % lens],
             unwind=33, unwindset=["harness.2:1026", "harness.3:1026", "harness.4:100", "rfc_decode.0:17"], witness=witness)
    return Query("mkhdr/shape%02d" % i, R, p, core=core, family="mkhdr", weight=2)


def asmdec_query(variant, n, pad, avail_out, valid_only, core=False, witness=False, timeout=None, mem_gb=None, unwind=None, refcap=None,
                 hunt=None, hunt_only=False):
    """C02/C06: the ASSEMBLY Huffman block decoder (_01 / _04), lifted to C at check time, under the fixed-Huffman oracle of h_fixed.c."""
    nt = n + pad
    hdef = ["N=%d" % n, "PAD=%d" % pad, "AVAIL_OUT=%d" % avail_out, "ASMDEC=%s" % variant] + (["VALID_ONLY"] if valid_only else [])
    if refcap:
        hdef.append("REFCAP=%d" % refcap)
    syms2 = 8 * (nt + 2) // 7 + 3
    cp = max(8, avail_out) + 1
    fn = "lift_decode_huffman_code_block_stateless_%s" % variant
    p = dict(harness="harness/C02/h_fixed.c", units=["igzip/hufftables_c.c"], defines=FAST, hdefines=hdef,
             instrument=[["@gen", "harness.inflate_common.lift_gen:gen_asmdec", "lift_asmdec.c", {"variant": variant}]],
             unwind=unwind or max(12, nt + 3),
             unwindset=["rfc_codes.1:%d" % syms2, "rfc_codes.0:%d" % (min(refcap or avail_out, avail_out, 258) + 3), "rfc_bits.0:17", "rfc_code_bits.0:9",
                        "LIFT_RD.0:9", "LIFT_WR.0:9", "lift_rep_movs.0:%d" % (min(258, max(avail_out, 8)) + 2), "lift_ctz.0:65", "lift_clz.0:65"] + ["harness.%d:%d" % (k, max(9, avail_out + 2, nt + 3)) for k in range(6)],
             flags=["--slice-formula"], witness=witness)
    if timeout:
        p["timeout"] = timeout
    if mem_gb:
        p["mem_gb"] = mem_gb
    if hunt is not None:
        p["hunt_unwind"] = hunt
        p["hunt_only"] = hunt_only
    fam = "asm_%s_%s" % (variant, "valid" if valid_only else "arbitrary")
    return Query("%s/n%d_pad%d_ao%d" % (fam, n, pad, avail_out), R, p, core=core, family=fam, weight=40 * 4 ** n)


def pregen_query(ril, core=False, witness=False):
    """C06/C02: header_matches_pregen answers yes exactly for a bit-exact copy of the default dynamic header."""
    p = dict(harness="harness/C06/h_pregen.c", units=["igzip/hufftables_c.c"], defines=FAST, hdefines=["RIL=%d" % ril],
             unwind=9, unwindset=["harness.0:1000", "harness.1:1000", "harness.2:1000", "memcmp.0:200", "inflate_in_load.0:9"], witness=witness)
    return Query("pregen_header/ril%d" % ril, R, p, core=core, family="pregen_header", weight=3)


# ---------------------------------------------------------------- dynamic block with long codes: concrete header + symbolic data (lead)
DYN_LL = {97: 1, 256: 2, 0: 3, 257: 4, 255: 5, 258: 6, 1: 7, 285: 8, 2: 9, 270: 10, 3: 11, 4: 12, 5: 13, 6: 14, 7: 15, 284: 15}
DYN_DL = {i: (i + 1 if i < 11 else 12) for i in range(13)}      # 1..11, 12, 12: complete, symbols 10..12 are long (> 10 bit) codes


def dyn_header(ll, dl, bfinal=1):
    """complete dynamic-block header for the given {symbol: length} maps -> (bytes, nbits, lit/len length list, dist length list)"""
    nl, nd = max(ll) + 1, max(dl) + 1
    assert nl >= 257
    lens = [ll.get(i, 0) for i in range(nl)] + [dl.get(i, 0) for i in range(nd)]
    cc = _canon(CLC_LENS)
    w = _Bits()
    w.put(bfinal, 1), w.put(2, 2), w.put(nl - 257, 5), w.put(nd - 1, 5), w.put(15, 4)
    for s_ in CLC_ORDER:
        w.put(CLC_LENS[s_], 3)
    i = 0
    while i < len(lens):
        if lens[i]:
            w.huff(*cc[lens[i]])
            i += 1
            continue
        run = 0
        while i + run < len(lens) and lens[i + run] == 0:
            run += 1
        while run:
            if run >= 11:
                n = min(run, 138)
                w.huff(*cc[18]), w.put(n - 11, 7)
            elif run >= 3:
                n = run
                w.huff(*cc[17]), w.put(n - 3, 3)
            else:
                n = 1
                w.huff(*cc[0])
            run -= n
            i += n
    return w.bytes(), len(w.bits), lens[:nl], lens[nl:]


def dyncodes_query(decoder, n, avail_out, valid_only, pad=0, core=False, witness=False, timeout=None, mem_gb=None):
    """C02/C06: a dynamic block whose header (concrete, generated here) defines complete codes with lit/len codes up to 15 bits and
    distance codes up to 12 bits; the n data bytes after it are symbolic.  decoder: "base" or "01"/"04" (assembly, lifted)."""
    hdr, nbits, ll, dl = dyn_header(DYN_LL, DYN_DL)
    nt = (nbits + 8 * n + 7) // 8 + pad
    hdef = ["N=%d" % n, "PAD=%d" % pad, "AVAIL_OUT=%d" % avail_out, "DYNHDR=" + ",".join(map(str, hdr)), "DYN_HDR_BITS=%d" % nbits,
            "DYN_LL=" + ",".join(map(str, ll)), "DYN_DL=" + ",".join(map(str, dl))] + (["VALID_ONLY"] if valid_only else [])
    p = dict(harness="harness/C02/h_fixed.c", units=["igzip/hufftables_c.c"], defines=FAST, hdefines=hdef,
             unwind=600,   # concrete table construction unrolls exactly; data-dependent loops bounded below
             unwindset=["rfc_codes.1:%d" % (8 * n // 1 + 4), "rfc_codes.0:%d" % (avail_out + 3), "rfc_bits.0:17", "rfc_decode.0:17", "rfc_code_bits.0:9",
                        "inflate_in_load.0:9", "byte_copy.0:%d" % (avail_out + 2), "memcpy.0:%d" % (max(8, avail_out) + 1),
                        "decode_huffman_code_block_stateless_base.1:%d" % (8 * n + 4), "decode_huffman_code_block_stateless_base.0:3",
                        "LIFT_RD.0:9", "LIFT_WR.0:9", "lift_rep_movs.0:%d" % (max(avail_out, 8) + 2), "lift_ctz.0:65", "lift_clz.0:65"],
             flags=["--slice-formula"], witness=witness)
    if decoder != "base":
        p["hdefines"] = hdef + ["ASMDEC=%s" % decoder]
        p["instrument"] = [["@gen", "harness.inflate_common.lift_gen:gen_asmdec", "lift_asmdec.c", {"variant": decoder}]]
    if timeout:
        p["timeout"] = timeout
    if mem_gb:
        p["mem_gb"] = mem_gb
    fam = "dyn_longcodes_%s_%s" % (decoder, "valid" if valid_only else "arbitrary")
    return Query("%s/n%d_ao%d" % (fam, n, avail_out), R, p, core=core, family=fam, weight=200)
