"""Query builders shared by the C02 and C06 plans (inflate unit harnesses)."""
from vlib.core import Query

R = "vlib.cbmc:cbmc_query"

# Build-speed only: the include guards of gcc's <x86intrin.h>/<immintrin.h>.  igzip's headers pull
# them in but (without -mlzcnt/-mbmi/-msse4.2, exactly like the Makefile build) use none of their
# contents; parsing them costs goto-cc 13-17 s per harness.  With the guards predefined the
# translation unit is otherwise identical.
FAST = ["_X86INTRIN_H_INCLUDED", "_IMMINTRIN_H_INCLUDED"]


def stored_query(prop, n, avail_out, valid_only, core=False, witness=False, timeout=None):
    """C02(a)/C06(a): real isal_inflate_stateless on n arbitrary bytes restricted to stored blocks."""
    hdef = ["N=%d" % n, "AVAIL_OUT=%d" % avail_out] + (["VALID_ONLY"] if valid_only else [])
    blocks = n // 5 + 2
    p = dict(harness="harness/C02/h_stored.c", units=["igzip/hufftables_c.c"], defines=FAST, hdefines=hdef,
             remove=["setup_static_header", "setup_dynamic_header"],
             unwind=2,
             unwindset=["isal_inflate_stateless.0:%d" % (blocks + 1), "inflate_in_load.0:9",
                        "reaches_coded_block.0:%d" % (blocks + 1),
                        "rfc1951_inflate.0:9", "rfc1951_inflate.1:%d" % (n + 1), "rfc_bits.0:17",
                        "harness.0:%d" % (avail_out + 2), "harness.1:%d" % (avail_out + 2)],
             witness=witness)
    if timeout:
        p["timeout"] = timeout
    fam = "stored_valid" if valid_only else "stored_arbitrary"
    return Query("%s/n%d_ao%d" % (fam, n, avail_out), R, p, core=core, family=fam, weight=1 + n)
