"""Query builders shared by the C02 and C06 plans (inflate unit harnesses)."""
from vlib.core import Query

R = "vlib.cbmc:cbmc_query"

# Build-speed only: the include guards of gcc's <x86intrin.h>/<immintrin.h>.  igzip's headers pull
# them in but (without -mlzcnt/-mbmi/-msse4.2, exactly like the Makefile build) use none of their
# contents; parsing them costs goto-cc 13-17 s per harness.  With the guards predefined the
# translation unit is otherwise identical.
FAST = ["_X86INTRIN_H_INCLUDED", "_IMMINTRIN_H_INCLUDED"]


def stored_query(prop, n, avail_out, valid_only, core=False, witness=False, timeout=None):
    """C02(a)/C06(a): real isal_inflate_stateless on n arbitrary bytes restricted to stored blocks."""
    hdef = ["N=%d" % n, "AVAIL_OUT=%d" % avail_out] + (["VALID_ONLY"] if valid_only else [])
    blocks = n // 5 + 2
    p = dict(harness="harness/C02/h_stored.c", units=["igzip/hufftables_c.c"], defines=FAST, hdefines=hdef,
             remove=["setup_static_header", "setup_dynamic_header"],
             unwind=2,
             unwindset=["isal_inflate_stateless.0:%d" % (blocks + 1), "inflate_in_load.0:9",
                        "reaches_coded_block.0:%d" % (blocks + 1),
                        "rfc1951_inflate.0:9", "rfc1951_inflate.1:%d" % (n + 1), "rfc_bits.0:17",
                        "harness.0:%d" % (avail_out + 2), "harness.1:%d" % (avail_out + 2)],
             witness=witness)
    if timeout:
        p["timeout"] = timeout
    fam = "stored_valid" if valid_only else "stored_arbitrary"
    return Query("%s/n%d_ao%d" % (fam, n, avail_out), R, p, core=core, family=fam, weight=1 + n)


def fixed_query(prop, n, avail_out, valid_only, core=False, witness=False, timeout=None, mem_gb=None):
    """C02(b)/C06(b): decode_huffman_code_block_stateless_base with the in-tree static tables on n arbitrary bytes."""
    hdef = ["N=%d" % n, "AVAIL_OUT=%d" % avail_out] + (["VALID_ONLY"] if valid_only else [])
    syms = 8 * n // 7 + 3           # shortest code is 7 bits; +1 for the attempt that runs out of input
    syms2 = 8 * (n + 2) // 7 + 3    # reference run on the 2-byte continuation
    cp = max(8, avail_out) + 1
    p = dict(harness="harness/C02/h_fixed.c", units=["igzip/hufftables_c.c"], defines=FAST, hdefines=hdef,
             unwind=max(9, n + 3),
             # CBMC numbers the inner loop first: .0 = per-symbol-pack loop / reference copy loop, .1 = outer symbol loop
             unwindset=["decode_huffman_code_block_stateless_base.1:%d" % syms,
                        "decode_huffman_code_block_stateless_base.0:3", "byte_copy.0:%d" % (avail_out + 2),
                        "rfc_codes.1:%d" % syms2, "rfc_codes.0:%d" % (avail_out + 3), "rfc_bits.0:17",
                        "rfc_code_bits.0:9", "inflate_in_load.0:9", "memcpy.0:%d" % cp,
                        ] + ["harness.%d:%d" % (k, max(9, avail_out + 2, n + 1)) for k in range(6)],
             flags=["--slice-formula"], witness=witness)
    if timeout:
        p["timeout"] = timeout
    if mem_gb:
        p["mem_gb"] = mem_gb
    fam = "fixed_valid" if valid_only else "fixed_arbitrary"
    return Query("%s/n%d_ao%d" % (fam, n, avail_out), R, p, core=core, family=fam, weight=10 * 4 ** n)


def setcodes_query(nsym, core=False, witness=False):
    p = dict(harness="harness/C02/h_setcodes.c", units=["igzip/hufftables_c.c"], defines=FAST, hdefines=["NSYM=%d" % nsym],
             unwind=max(17, nsym + 2), witness=witness)
    return Query("set_codes/nsym%d" % nsym, R, p, core=core, family="set_codes", weight=nsym)


def dynprefix_query(core=True):
    p = dict(harness="harness/C02/h_setcodes.c", units=["igzip/hufftables_c.c"], defines=FAST, hdefines=["H_DYNPREFIX"],
             remove=["make_inflate_huff_code_lit_len", "make_inflate_huff_code_dist", "make_inflate_huff_code_header",
                     "set_and_expand_lit_len_huffcode", "setup_static_header", "decode_next_header"],
             unwind=2, unwindset=["setup_dynamic_header.0:5", "setup_dynamic_header.1:20", "inflate_in_load.0:9",
                                  "rfc_bits.0:17", "rfc_dynamic.0:20", "rfc_dynamic.1:20", "rfc1951_inflate.0:2",
                                  "set_codes.0:17", "set_codes.1:20"],
             witness=True)
    return Query("dyn_header_prefix/n3", R, p, core=core, family="dyn_header_prefix", weight=3)
