"""Generators for cbmc.py's `instrument` @gen entries: assembly kernels of /repo lifted to C at check time."""
import os

from vlib import x86lift


def gen_asmdec(ctx, args):
    v = args["variant"]
    text, img = x86lift.lift_functions(ctx["repo"], ["igzip/igzip_decode_block_stateless_%s.asm" % v, "igzip/rfc1951_lookup.asm"],
                                       ["decode_huffman_code_block_stateless_" + v], ctx["scratch"], tag="asmdec" + v)
    return text


def gen_asmfinish(ctx, args):
    text, img = x86lift.lift_functions(ctx["repo"], ["igzip/igzip_finish.asm"], ["isal_deflate_finish_01"], ctx["scratch"], tag="asmfinish")
    return text
