/* C14 (one-shot clause): isal_deflate_stateless on raw deflate with FULL_FLUSH leaves the output byte
 * aligned and unterminated, so that the output of a following call can be appended to form one valid stream.
 *
 * Concrete per query: N1, N2 (segment lengths), TABLE (0 default / 1 static), AVAIL1, AVAIL2, REINIT (1: the
 * second call is made on a freshly initialised stream, 0: on the same stream object), class vector.
 * Symbolic: all bytes of both segments.
 * Call 1: flush = FULL_FLUSH, end_of_stream = 0.   Call 2: flush = NO_FLUSH (=> final).
 */
#include "harness/deflate_common/deflate_common.h"
#include "harness/deflate_common/deflate_shim.h"

#ifndef DFL_TOKLENS
#define DFL_TOKLENS 0
#endif
#define NTOT (N1 + N2)

struct inputs {
        uint8_t data[NTOT ? NTOT : 1];
};
DECLARE_INPUTS

static const uint8_t toklens[] = { DFL_TOKLENS, 0 };

static void
setup(struct isal_zstream *s)
{
        isal_deflate_stateless_init(s);
#if TABLE == 1
        int ret = isal_deflate_set_hufftables(s, (struct isal_hufftables *) 0, IGZIP_HUFFTABLE_STATIC);
        VASSERT(ret == COMP_OK, "set_hufftables(STATIC)");
#endif
        s->gzip_flag = IGZIP_DEFLATE;
}

void
harness(void)
{
        VERIF_INPUTS();
        static struct isal_zstream S;
        struct isal_zstream *s = &S;
        uint8_t *in1 = malloc(N1 ? N1 : 1), *in2 = malloc(N2 ? N2 : 1);
        uint8_t *out1 = malloc(AVAIL1), *out2 = malloc(AVAIL2);
        static uint8_t cat[AVAIL1 + AVAIL2];
        if (!in1 || !in2 || !out1 || !out2)
                return;
        for (int i = 0; i < N1; i++)
                in1[i] = I.data[i];
        for (int i = 0; i < N2; i++)
                in2[i] = I.data[N1 + i];

        setup(s);
        s->flush = FULL_FLUSH;
        s->end_of_stream = 0;
        s->next_in = in1;
        s->avail_in = N1;
        s->next_out = out1;
        s->avail_out = AVAIL1;
        int ret = isal_deflate_stateless(s);
        VASSERT(ret == COMP_OK, "first call (FULL_FLUSH) succeeds with ample space");
        uint32_t t1 = s->total_out;
        VASSERT(t1 <= AVAIL1 && s->avail_in == 0, "first call consumed its input");
        VASSERT(s->internal_state.state == ZSTATE_NEW_HDR, "state ZSTATE_NEW_HDR after stateless full flush");
        free(in1);

#if REINIT
        setup(s);
#endif
        s->flush = NO_FLUSH;
        s->next_in = in2;
        s->avail_in = N2;
        s->next_out = out2;
        s->avail_out = AVAIL2;
        uint32_t to0 = s->total_out;
        ret = isal_deflate_stateless(s);
        VASSERT(ret == COMP_OK, "second call succeeds with ample space");
        uint32_t t2 = s->total_out - to0;
        VASSERT(t2 <= AVAIL2 && s->avail_in == 0, "second call consumed its input");

        for (uint32_t i = 0; i < t1; i++)
                cat[i] = out1[i];
        for (uint32_t i = 0; i < t2; i++)
                cat[t1 + i] = out2[i];

        /* ---- call 1 alone: unterminated, byte aligned */
        struct dfl_blk sc[2];
        struct dfl_guided g;
        int nb = 1;
        if (((out1[0] >> 1) & 3) == 0) { /* stored fallback */
                sc[0].btype = 0;
                sc[0].nlit = N1;
        } else {
                sc[0].btype = 1;
                sc[0].nlit = N1;
                sc[1].btype = 0;
                sc[1].nlit = 0;
                nb = 2;
        }
        dfl_guided_decode(out1, t1, 0, sc, nb, I.data, toklens, sizeof(toklens) - 1, 0, &g);
        VASSERT(g.out_len == N1 && !g.saw_final, "first output decodes to segment 1 and contains no BFINAL block");
        VASSERT(g.bit_pos == 8 * (size_t) t1, "first output ends byte aligned exactly at a block boundary");

        /* ---- concatenation: one valid, finished stream for segment 1 + segment 2 */
        struct dfl_guided g2;
        if (((out2[0] >> 1) & 3) == 0) {
                sc[0].btype = 0;
                sc[0].nlit = N2;
        } else {
                sc[0].btype = 1;
                sc[0].nlit = N2;
        }
        dfl_guided_decode(cat, (size_t) t1 + t2, g.bit_pos, sc, 1, I.data + N1, toklens + N1, (int) (sizeof(toklens) - 1) - N1, 1, &g2);
        VASSERT(g2.out_len == N2 && g2.saw_final, "appended output continues the stream with segment 2 and finishes it");
        VASSERT(((g2.bit_pos + 7) >> 3) == (size_t) t1 + t2, "concatenation consumed to its last byte");
        VREACHED();
}
VERIF_MAIN
