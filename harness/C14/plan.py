"""C14 — flush points are byte aligned, complete and (full flush) independent.  Level 0.

Families
  FL   streaming: two segments, SYNC_FLUSH / FULL_FLUSH requested while segment 1 is fed (harness C07/h_stream.c
       with CHECK14=1): when the flushing call returns with avail_in == 0 and avail_out > 0 the output so far
       ends with 00 00 FF FF, decodes (guided rfc1951) exactly to segment 1 with no BFINAL, the state is
       ZSTATE_NEW_HDR; FULL: the rest of the stream decodes on its own to segment 2.
  RUN  one-shot: input = one run of 0x00 / 0xFF through the constant-run shortcut with FULL_FLUSH, end_of_stream = 0
  AP   one-shot: isal_deflate_stateless raw + FULL_FLUSH output is byte aligned, unterminated; appending a second
       call's output gives one valid finished stream (harness C14/h_append.c)
"""
import itertools
from vlib.core import Query, Plan
from harness.deflate_common import dflplan as D
from harness.C07.plan import stream_query


def append_query(n1, n2, table, reinit, cl, witness=False, core=False):
    n = n1 + n2
    av1, av2 = n1 + 5 + 12, n2 + 5 + 12
    hdef = ["N1=%d" % n1, "N2=%d" % n2, "TABLE=%d" % table, "AVAIL1=%d" % av1, "AVAIL2=%d" % av2, "REINIT=%d" % reinit,
            D.cdef("DFL_CLASSES", cl), D.cdef("DFL_TOKLENS", cl), D.cdef("DFL_CLASS_SET", D.STATIC_LIT_CLASSES)]
    qid = "AP/%s/n%d+%d/r%d/c%s" % ("static" if table else "default", n1, n2, reinit, "".join("%x" % c for c in cl) or "-")
    extra = {}
    for i in range(8):
        extra["harness.%d" % i] = max(av1, av2) + 2
    params = dict(harness="harness/C14/h_append.c", units=D.UNITS, vunits=D.VUNITS, hdefines=hdef, unwind=3,
                  unwindset=D.unwindset(n, extra=extra, nblk=3, avail=av1 + av2), witness=witness, flags=D.fs_flags(av1 + av2))
    return Query(qid, D.R, params, core=core, family="AP", weight=6.0 if table else 2.0)


def plan(tier, ctx):
    quick = tier == "quick"
    qs = []
    # ---------------------------------------------------------------- FL
    segs = [(a, b) for a in range(4) for b in range(4) if a + b <= 3]
    ocs = [64, 9, 8, 7, 1]
    for (a, b) in segs:
        n = a + b
        for fl in (1, 2):
            for oc in ocs:
                for wrap in (0, 3, 1):
                    if wrap == 1 and n == 3:
                        continue      # gzip CRC over 3 symbolic bytes: ~2 min/query, covered in C07 thorough
                    vecs = list(itertools.product(D.STATIC_LIT_CLASSES, repeat=n))
                    if quick:
                        if wrap == 1 and oc != 7:
                            continue
                        if wrap == 3 and oc not in (64, 8):
                            continue
                        if wrap == 3 and n == 3 and oc == 64:
                            continue
                        if wrap == 0 and n == 3 and oc == 9:
                            continue
                        k = (a * 7 + b * 3 + fl + oc) % len(vecs)
                        vecs = [vecs[k]] if n >= 2 else vecs
                    for cl in vecs:
                        core = (a, b, fl, oc, wrap) in ((1, 1, 1, 64, 0), (1, 2, 2, 8, 0))
                        q = stream_query("FL", wrap, (a, b, 0), oc, 0, fl, list(cl), check14=1, witness=core or (oc == 7 and n == 2),
                                         core=core and (not quick or True), fam="FL")
                        qs.append(q)
    # ---------------------------------------------------------------- AP
    for (n1, n2) in [(a, b) for a in range(4) for b in range(4) if a + b <= (3 if quick else 4)]:
        for reinit in (0, 1):
            qs.append(append_query(n1, n2, 0, reinit, [], witness=(n1 == 1 and n2 == 2), core=(n1 == 2 and n2 == 1 and reinit == 0)))
            vecs = list(itertools.product(D.STATIC_LIT_CLASSES, repeat=n1 + n2))
            if quick and n1 + n2 >= 2:
                vecs = [vecs[(n1 * 5 + n2 * 3 + reinit) % len(vecs)]]
            for cl in vecs:
                qs.append(append_query(n1, n2, 1, reinit, list(cl), witness=(n1 == 1 and n2 == 1), core=(n1 == 1 and n2 == 1 and reinit == 0 and list(cl) == [8, 9])))
    # ---------------------------------------------------------------- RUN (lead): one-shot FULL_FLUSH, end_of_stream = 0 through the
    # constant-run shortcut write_constant_compressed_stateless (harness C01/h_construn.c, FLUSHMODE): whole non-final blocks,
    # byte aligned, decode to the input
    from harness.C01.plan import construn
    for n in ([40, 231] if quick else [8, 9, 40, 117, 131, 231, 258, 300]):
        for wrap in ([0] if quick else [0, 1, 3]):
            for rep in (0, 255):
                q = construn(n, wrap, D.bound(n, wrap) + 16, rep, flushmode=1, witness=(n == 40 and rep == 0))
                q.family = "RUN"
                qs.append(q)
    seen, uq = set(), []
    for q in qs:
        if q.qid not in seen:
            seen.add(q.qid)
            uq.append(q)
    return Plan("C14", "model_checking", uq,
                functions_encoded=["isal_deflate (flush path)", "sync_flush", "isal_deflate_int (ZSTATE_TMP_* staging)", "write_header",
                                   "isal_deflate_finish_base", "isal_deflate_stateless + FULL_FLUSH", "write_constant_compressed_stateless (FULL_FLUSH, end_of_stream=0)", "write_stored_block (FULL_FLUSH history reset)",
                                   "reset_match_history"],
                bounds={"segments": "all (n1,n2) with n1+n2 <= 3 (one-shot: <= 4 thorough), all bytes symbolic", "flush": ["SYNC_FLUSH", "FULL_FLUSH"],
                        "output chunks": [64, 9, 8, 7, 1], "wrappers": "raw, zlib, gzip (n<=2)", "table": "static (streaming); static + default (one-shot)",
                        "class vectors": "all (thorough) / all for n<=1 and one rotating vector per shape for n>=2 (quick)"},
                stubs=["see C01/C07 (wmemset, get_lit_code class split)"],
                assumptions=["the C14 assertions are made when the flushing call returns with avail_in == 0 and avail_out > 0 (the property's premise); with small output chunks "
                             "the premise may not occur and the query then only checks the whole stream (as C07)",
                             "independence after FULL_FLUSH: the suffix is decoded by a literal-only guided decoder without history; a match token would be reported"],
                outside=["levels 1-3", "inputs long enough for real back-references across a flush point (needs >= 4-byte matches on each side)",
                         "hash-head reset unit lemma of DESIGN C14 (not built)", "default table in streaming mode"],
                trusted_base=["cbmc 6.11", "spec/rfc1951.h primitives", "harness/deflate_common"])
