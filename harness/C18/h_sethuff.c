/* C18(e): isal_deflate_set_hufftables (igzip.c) — installing a table is refused while a block is
 * open: in EVERY state other than ZSTATE_NEW_HDR (state symbolic over the whole enum, every other
 * field of the stream arbitrary) the call returns ISAL_INVALID_OPERATION and changes nothing; in
 * ZSTATE_NEW_HDR each documented type is accepted and installs exactly the documented table,
 * an undocumented type or CUSTOM with a NULL table is refused without side effects. */
#include "harness/C17/deflate_common.h"

struct inputs {
        struct dc_scalars z;
        int32_t type;
        uint8_t tables_null;
        uint32_t bi, hi;
};
DECLARE_INPUTS

static struct isal_zstream s;
static struct isal_hufftables user_tables;

void
harness(void)
{
        VERIF_INPUTS();
        VASSUME(I.z.state <= ZSTATE_TMP_END);
        dc_fill(&s, &I.z, I.bi, I.hi);
        struct dc_small before, after;
        dc_snapshot(&before, &s, I.bi, I.hi);
        struct isal_hufftables *arg = I.tables_null ? NULL : &user_tables;

        int r = isal_deflate_set_hufftables(&s, arg, I.type);

        dc_snapshot(&after, &s, I.bi, I.hi);
        VASSERT(r == COMP_OK || r == ISAL_INVALID_OPERATION, "documented return codes");
        if (I.z.state != ZSTATE_NEW_HDR)
                VASSERT(r == ISAL_INVALID_OPERATION, "refused in every state other than ZSTATE_NEW_HDR");
        if (r != COMP_OK)
                VASSERT(dc_small_eq(&after, &before), "refused call leaves the stream untouched");
        if (I.z.state == ZSTATE_NEW_HDR) {
                int documented = I.type == IGZIP_HUFFTABLE_DEFAULT || I.type == IGZIP_HUFFTABLE_STATIC ||
                                 (I.type == IGZIP_HUFFTABLE_CUSTOM && arg != NULL);
                VASSERT((r == COMP_OK) == documented, "accepted exactly for the documented (type, table) combinations");
                if (r == COMP_OK) {
                        struct isal_hufftables *want = I.type == IGZIP_HUFFTABLE_DEFAULT  ? &hufftables_default
                                                       : I.type == IGZIP_HUFFTABLE_STATIC ? &hufftables_static
                                                                                          : arg;
                        VASSERT(s.hufftables == want, "the documented table is installed");
                        before.hufftables = want;
                        VASSERT(dc_small_eq(&after, &before), "nothing but the table pointer changes");
                }
        }
        VREACHED();
}
VERIF_MAIN
