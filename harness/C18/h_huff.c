/* C18 unit harnesses over the REAL igzip/huff_codes.c (+ huffman.h getters, proc_heap_base.c):
 *   H_RL      rl_encode: expanding the emitted 0..18 tokens reproduces the length sequence
 *   H_WRL     write_rl: one run of symbolic length 1..RUNMAX (covers the 138 / 6 chunk limits)
 *   H_LEN     create_packed_len_table + get_len_code  vs RFC 1951 length symbol/extra encoding
 *   H_DIST    create_packed_dist_table + create_code_tables + get_dist_code/compute_dist_code
 *   H_SYM     convert_length_to_len_sym / convert_dist_to_dist_sym / get_*_icf_code vs RFC tables
 *   H_USEABLE are_hufftables_useable
 *   H_HEAP    heapify/build_heap on plain uint64_t arrays
 *   H_TREE    length-limited construction on small alphabets (see plan: CBMC union caveat)
 *   H_HDR     create_header/create_huffman_header on a small combined table
 * Oracle tables: rfc_len_base/rfc_len_extra/rfc_dist_base/rfc_dist_extra of spec/rfc1951.h.
 */
#include "verif.h"
#include "rfc1951.h"
#include "huff_codes.c"

/* ------------------------------------------------------------------ oracle helpers */
static int
spec_len_sym(uint32_t length) /* 3..258 -> 0..28 (symbol 257+i) */
{
        if (length == 258)
                return 28;
        int s = 0;
        for (int i = 0; i < 28; i++)
                if (rfc_len_base[i] <= length)
                        s = i;
        return s;
}
static int
spec_dist_sym(uint32_t dist) /* 1..32768 -> 0..29 */
{
        int s = 0;
        for (int i = 0; i < 30; i++)
                if (rfc_dist_base[i] <= dist)
                        s = i;
        return s;
}

#if defined(H_RL)
/* ================================================================== rl_encode */
#ifndef NC
#define NC 12
#endif
struct inputs {
        uint16_t codes[NC];
        uint8_t k; /* the code-length symbol whose histogram entry is checked (arbitrary) */
        uint8_t p; /* the position of the sequence that is checked (arbitrary) */
#ifdef RUNS /* structured flavour: the sequence consists of at most RUNS runs */
        uint16_t bound[RUNS]; /* run j covers [bound[j-1], bound[j]) */
        uint16_t val[RUNS];
#endif
};
DECLARE_INPUTS
void
harness(void)
{
        VERIF_INPUTS();
        uint64_t counts[HUFF_LEN + 1];
        struct rl_code out[NC + 1];
        uint64_t tally = 0;
#ifdef RUNS
        /* all sequences of NC lengths made of at most RUNS runs: boundaries and values arbitrary
         * (equal neighbouring values merge runs, empty runs allowed) */
        for (int j = 0; j < RUNS; j++) {
                VASSUME(I.val[j] <= 15 && I.bound[j] <= NC);
                if (j > 0)
                        VASSUME(I.bound[j - 1] <= I.bound[j]);
        }
        VASSUME(I.bound[RUNS - 1] == NC);
        for (int i = 0; i < NC; i++) {
                uint16_t v = I.val[RUNS - 1];
                for (int j = RUNS - 2; j >= 0; j--)
                        if (i < I.bound[j])
                                v = I.val[j];
                I.codes[i] = v;
        }
#endif
        for (int i = 0; i < NC; i++)
                VASSUME(I.codes[i] <= 15);
        VASSUME(I.k < HUFF_LEN && I.p < NC);
        for (int i = 0; i <= HUFF_LEN; i++)
                counts[i] = 0;
        counts[HUFF_LEN] = 0xA5;
        out[NC].code = 0xA5;
        uint32_t n = rl_encode(I.codes, NC, counts, out);
        VASSERT(n >= 1 && n <= NC, "token count between 1 and the number of lengths");
        VASSERT(out[NC].code == 0xA5 && counts[HUFF_LEN] == 0xA5, "no write past the token / count arrays");
        /* Expand the tokens as an RFC 1951 3.2.7 reader would; the expansion is observed at the
         * arbitrary position p (so no expanded array is materialised) */
        uint32_t pos = 0;
        uint16_t prev = 0xFFFF; /* last expanded length */
        int covered = 0;
        for (uint32_t t = 0; t < NC; t++) {
                if (t >= n)
                        break;
                uint8_t c = out[t].code, e = out[t].extra_bits;
                VASSERT(c <= 18, "token is a code-length-alphabet symbol 0..18");
                if (c == I.k)
                        tally++;
                uint32_t rep;
                uint16_t val;
                if (c < 16) {
                        VASSERT(e == 0, "literal length token carries no extra bits");
                        rep = 1;
                        val = c;
                } else if (c == 16) {
                        VASSERT(e <= 3, "code 16 extra bits in 0..3 (repeat 3..6)");
                        VASSERT(pos > 0, "code 16 needs a previous length");
                        rep = 3 + e;
                        val = prev;
                } else if (c == 17) {
                        VASSERT(e <= 7, "code 17 extra bits in 0..7 (3..10 zeros)");
                        rep = 3 + e;
                        val = 0;
                } else {
                        VASSERT(e <= 127, "code 18 extra bits in 0..127 (11..138 zeros)");
                        rep = 11 + e;
                        val = 0;
                }
                VASSERT(pos + rep <= NC, "expansion does not overrun the sequence");
                if (pos <= I.p && I.p < pos + rep) {
                        VASSERT(val == I.codes[I.p], "expanded length at position p equals the input length (arbitrary p)");
                        covered = 1;
                }
                prev = val;
                pos += rep;
        }
        VASSERT(pos == NC && covered, "tokens expand to exactly NC lengths");
        VASSERT(counts[I.k] == tally, "counts[k] is the exact number of emitted tokens with code k (arbitrary k)");
        VREACHED();
}

#elif defined(H_WRL)
/* ================================================================== write_rl */
#ifndef RUNMAX
#define RUNMAX 300
#endif
#define MAXTOK (RUNMAX / 6 + 4)
struct inputs {
        uint16_t last_len;
        uint32_t run_len;
        uint8_t k;
};
DECLARE_INPUTS
void
harness(void)
{
        VERIF_INPUTS();
        uint64_t counts[HUFF_LEN];
        uint64_t tally = 0;
        struct rl_code out[MAXTOK + 1];
        VASSUME(I.last_len <= 15 && I.run_len >= 1 && I.run_len <= RUNMAX && I.k < HUFF_LEN);
        for (int i = 0; i < HUFF_LEN; i++)
                counts[i] = 0;
        out[MAXTOK].code = 0xA5;
        struct rl_code *end = write_rl(out, I.last_len, I.run_len, counts);
        uint32_t n = (uint32_t) (end - out);
        VASSERT(n >= 1 && n <= MAXTOK && n <= I.run_len, "token count");
        VASSERT(out[MAXTOK].code == 0xA5, "no write past the token array");
        uint32_t total = 0;
        for (uint32_t t = 0; t < MAXTOK; t++) {
                if (t >= n)
                        break;
                uint8_t c = out[t].code, e = out[t].extra_bits;
                VASSERT(c <= 18, "token 0..18");
                if (c == I.k)
                        tally++;
                if (c < 16) {
                        VASSERT(e == 0 && c == I.last_len, "literal token repeats the run's length");
                        total += 1;
                } else if (c == 16) {
                        VASSERT(e <= 3 && t > 0 && I.last_len != 0, "code 16: 3..6 copies of a previous non-zero length");
                        total += 3 + e;
                } else if (c == 17) {
                        VASSERT(e <= 7 && I.last_len == 0, "code 17: 3..10 zeros");
                        total += 3 + e;
                } else {
                        VASSERT(e <= 127 && I.last_len == 0, "code 18: 11..138 zeros");
                        total += 11 + e;
                }
        }
        VASSERT(total == I.run_len, "tokens expand to exactly run_len copies of last_len");
        VASSERT(counts[I.k] == tally, "counts[k] exact (arbitrary k)");
        VREACHED();
}

#elif defined(H_LEN)
/* ================================================================== packed length table */
struct inputs {
        uint16_t code[29];
        uint8_t clen[29];
        uint32_t length;
};
DECLARE_INPUTS
static struct isal_hufftables ht;
void
harness(void)
{
        VERIF_INPUTS();
        struct huff_code ll[LIT_LEN];
        for (int i = 0; i < 29; i++) {
                VASSUME(I.clen[i] >= 1 && I.clen[i] <= 15 && I.code[i] < (1u << I.clen[i]));
                ll[257 + i].code_and_length = 0;
                ll[257 + i].code = I.code[i];
                ll[257 + i].length = I.clen[i];
                /* sanity against CBMC's union modelling: members read back as written */
                VASSERT(ll[257 + i].code == I.code[i] && ll[257 + i].length == I.clen[i], "sanity: huff_code members");
        }
        VASSUME(I.length >= 3 && I.length <= 258);
        create_packed_len_table(ht.len_table, ll);
        uint64_t code, len;
        get_len_code(&ht, I.length, &code, &len);
        int s = spec_len_sym(I.length);
        uint32_t nb = rfc_len_extra[s], extra = I.length - rfc_len_base[s];
        VASSERT(extra < (1u << nb), "oracle sanity: extra fits");
        VASSERT(len == (uint64_t) I.clen[s] + nb, "total bit length == code length + RFC extra-bit count");
        VASSERT(code == ((uint64_t) I.code[s] | ((uint64_t) extra << I.clen[s])),
                "packed bits == Huffman code of the RFC length symbol followed by the extra bits");
        VREACHED();
}

#elif defined(H_DIST)
/* ================================================================== packed distance table */
struct inputs {
        uint16_t code[30];
        uint8_t clen[30];
        uint32_t dist;
};
DECLARE_INPUTS
static struct isal_hufftables ht;
void
harness(void)
{
        VERIF_INPUTS();
        struct huff_code dc[DIST_LEN];
        for (int i = 0; i < 30; i++) {
                VASSUME(I.clen[i] >= 1 && I.clen[i] <= 15 && I.code[i] < (1u << I.clen[i]));
                dc[i].code_and_length = 0;
                dc[i].code = I.code[i];
                dc[i].length = I.clen[i];
                VASSERT(dc[i].code == I.code[i] && dc[i].length == I.clen[i], "sanity: huff_code members");
        }
        VASSUME(I.dist >= 1 && I.dist <= 32768);
#ifdef DIST_LO /* case split of the distance range, swept by the plan */
        VASSUME(I.dist >= DIST_LO && I.dist <= DIST_HI);
#endif
        /* exactly as isal_create_hufftables fills the distance side of the table */
        create_code_tables(ht.dcodes, ht.dcodes_sizes, DIST_LEN - DCODE_OFFSET, dc + DCODE_OFFSET);
        create_packed_dist_table(ht.dist_table, IGZIP_DIST_TABLE_SIZE, dc);
        uint64_t code, len;
        get_dist_code(&ht, I.dist, &code, &len);
        int s = spec_dist_sym(I.dist);
        uint32_t nb = rfc_dist_extra[s], extra = I.dist - rfc_dist_base[s];
        VASSERT(extra < (1u << nb), "oracle sanity: extra fits");
        VASSERT(len == (uint64_t) I.clen[s] + nb, "total bit length == code length + RFC extra-bit count");
        VASSERT(code == ((uint64_t) I.code[s] | ((uint64_t) extra << I.clen[s])),
                "packed bits == Huffman code of the RFC distance symbol followed by the extra bits");
        VREACHED();
}

#elif defined(H_SYM)
/* ================================================================== symbol conversions */
struct inputs {
        uint32_t length, dist;
};
DECLARE_INPUTS
void
harness(void)
{
        VERIF_INPUTS();
        VASSUME(I.length >= 3 && I.length <= 258 && I.dist >= 1 && I.dist <= 32768);
        VASSERT(convert_length_to_len_sym(I.length) == 257u + (uint32_t) spec_len_sym(I.length),
                "convert_length_to_len_sym == RFC 1951 length symbol");
        VASSERT(convert_dist_to_dist_sym(I.dist) == (uint32_t) spec_dist_sym(I.dist),
                "convert_dist_to_dist_sym == RFC 1951 distance symbol");
        uint32_t c, e;
        get_dist_icf_code(I.dist, &c, &e);
        int s = spec_dist_sym(I.dist);
        VASSERT(c == (uint32_t) s && e == I.dist - rfc_dist_base[s], "get_dist_icf_code == (RFC symbol, extra value)");
        get_len_icf_code(I.length, &c);
        VASSERT(c == I.length + 254, "get_len_icf_code");
        /* the in-tree extra-bit count table used by set_dist_huff_codes */
        VASSERT(dist_code_extra_bits[s] == rfc_dist_extra[s], "dist_code_extra_bits[] == RFC table");
        VREACHED();
}

#elif defined(H_USEABLE)
/* ================================================================== are_hufftables_useable */
struct inputs {
        uint8_t ll_len[LIT_LEN];
        uint8_t d_len[DIST_LEN];
};
DECLARE_INPUTS
void
harness(void)
{
        VERIF_INPUTS();
        struct huff_code ll[LIT_LEN], dc[DIST_LEN];
        int max_lit = 0, max_len = 0, max_len_no285 = 0, max_dist = 0, max_all = 0;
        for (int i = 0; i < LIT_LEN; i++) {
                VASSUME(I.ll_len[i] <= 15);
                ll[i].code_and_length = 0;
                ll[i].length = I.ll_len[i];
                VASSERT(ll[i].length == I.ll_len[i], "sanity: huff_code members");
                if (I.ll_len[i] > max_all)
                        max_all = I.ll_len[i];
                if (i <= 256 && I.ll_len[i] > max_lit)
                        max_lit = I.ll_len[i];
                if (i >= 257 && I.ll_len[i] + rfc_len_extra[i - 257] > max_len)
                        max_len = I.ll_len[i] + rfc_len_extra[i - 257];
                if (i >= 257 && i < 285 && I.ll_len[i] + rfc_len_extra[i - 257] > max_len_no285)
                        max_len_no285 = I.ll_len[i] + rfc_len_extra[i - 257];
        }
        for (int i = 0; i < DIST_LEN; i++) {
                VASSUME(I.d_len[i] <= 15);
                dc[i].code_and_length = 0;
                dc[i].length = I.d_len[i];
                if (I.d_len[i] + rfc_dist_extra[i] > max_dist)
                        max_dist = I.d_len[i] + rfc_dist_extra[i];
        }
        int r = are_hufftables_useable(ll, dc);
        VASSERT(r == 0 || r == 1, "boolean result");
#ifdef USEABLE_EXACT
        /* the bound as a reader of the property would compute it: longest literal/EOB code +
         * longest length code incl. extra bits (symbols 257..285) + longest distance code incl. extra
         * bits.  FAILS on the unchanged tree (see plan: suspected defect, symbol 285 is left out of the
         * length maximum and only enters through the all-symbol maximum). */
        if (r == 0)
                VASSERT(max_lit + max_len + max_dist <= MAX_BITBUF_BIT_WRITE,
                        "accepted tables: literal + length + distance bits fit one bit-buffer write");
#else
        /* what holds: the same bound with length symbol 285 (258, no extra bits) left out of the length
         * maximum, and the decision is monotone in the implemented measure */
        if (r == 0)
                VASSERT(max_lit + max_len_no285 + max_dist <= MAX_BITBUF_BIT_WRITE,
                        "accepted tables: literal + length(257..284) + distance bits <= 56");
        VASSERT((r != 0) == (max_all + max_len_no285 + max_dist > MAX_BITBUF_BIT_WRITE),
                "decision == (longest lit/len code + longest length code with extra (257..284) + longest distance code with extra > 56)");
#endif
        /* after the 13/12-bit rebuild the bound always holds */
        if (max_all <= MAX_SAFE_LIT_CODE_LEN && max_dist <= MAX_SAFE_DIST_CODE_LEN + 13)
                VASSERT(r == 0, "codes limited to 13/12 bits are always accepted");
        if (max_lit + max_len + max_dist > MAX_BITBUF_BIT_WRITE + 15)
                VASSERT(r != 0, "grossly oversized tables are rejected");
        VREACHED();
}

#elif defined(H_HEAP)
/* ================================================================== heapify / build_heap */
#ifndef HN
#define HN 8
#endif
struct inputs {
        uint64_t v[HN];
        uint8_t i, j;
};
DECLARE_INPUTS
void
harness(void)
{
        VERIF_INPUTS();
        uint64_t heap[HN + 3];
        heap[0] = 0x1111;
        heap[HN + 2] = 0x2222;
        for (int k = 0; k < HN; k++)
                heap[k + 1] = I.v[k];
        build_heap(heap, HN);
        VASSERT(heap[0] == 0x1111 && heap[HN + 2] == 0x2222, "only heap[1..n+1] written");
        VASSERT(heap[HN + 1] == (uint64_t) -1, "sentinel after the heap");
        /* min-heap order */
        VASSUME(I.i >= 1 && I.i <= HN);
        if (2 * I.i <= HN)
                VASSERT(heap[I.i] <= heap[2 * I.i], "parent <= left child");
        if (2 * I.i + 1 <= HN)
                VASSERT(heap[I.i] <= heap[2 * I.i + 1], "parent <= right child");
        /* permutation: every value occurs in the heap as often as in the input */
        VASSUME(I.j < HN);
        int cin = 0, cout = 0;
        for (int k = 0; k < HN; k++) {
                cin += (I.v[k] == I.v[I.j]);
                cout += (heap[k + 1] == I.v[I.j]);
        }
        VASSERT(cin == cout, "heap is a permutation of the input (multiset equality at an arbitrary element)");
        VREACHED();
}
#elif defined(H_TREE)
/* ================================================================== length-limited Huffman construction
 * init_heap64_complete + build_heap + build_huff_tree + fix_code_lens (via gen_huff_code_lens) +
 * set_huff_codes on a small alphabet TN with depth limit TL, arbitrary 44-bit counts.
 * CAVEAT (DESIGN C18): CBMC 6.11 mis-models struct heap_tree's anonymous union; the sanity
 * assertions below (heap is a permutation of the keys after init) exist so that a wrong model shows
 * up as a failing sanity assertion instead of a silent pass. */
#ifndef TN
#define TN 3
#endif
#ifndef TL
#define TL 15
#endif
struct inputs {
        uint64_t cnt[TN];
        uint8_t j, k;
};
DECLARE_INPUTS
static struct heap_tree hs;
void
harness(void)
{
        VERIF_INPUTS();
        uint32_t bl_count[MAX_HUFF_TREE_DEPTH + 1];
        struct huff_code codes[TN];
        for (int i = 0; i < TN; i++)
                VASSUME(I.cnt[i] < (1ull << 44));
        VASSUME(I.j < TN && I.k < TN);
        uint32_t heap_size = init_heap64_complete(&hs, I.cnt, TN);
        VASSERT(heap_size == TN, "sanity: complete heap holds every symbol");
        {
                uint64_t key = (I.cnt[I.j] << FREQ_SHIFT) | I.j;
                int found = 0;
                for (int i = 1; i <= TN; i++)
                        found += hs.heap[i] == key;
                VASSERT(found == 1, "sanity (union model): key of symbol j occurs exactly once in the heap after init");
                for (int i = 1; i <= TN; i++)
                        if (2 * i <= TN)
                                VASSERT(hs.heap[i] <= hs.heap[2 * i], "sanity: min-heap order");
        }
        gen_huff_code_lens(&hs, heap_size, bl_count, codes, TN, TL);
        set_huff_codes(codes, TN, bl_count);
        uint64_t kraft = 0;
        uint32_t hist[MAX_HUFF_TREE_DEPTH + 1];
        for (int l = 0; l <= MAX_HUFF_TREE_DEPTH; l++)
                hist[l] = 0;
        for (int i = 0; i < TN; i++) {
                VASSERT(codes[i].length >= 1 && codes[i].length <= TL, "every symbol: 1 <= code length <= limit");
                if (codes[i].length >= 1 && codes[i].length <= 15) {
                        kraft += 1ull << (15 - codes[i].length);
                        hist[codes[i].length]++;
                }
        }
        VASSERT(kraft == (1ull << 15), "Kraft sum == 1: complete prefix code");
        for (int l = 1; l <= TL; l++)
                VASSERT(bl_count[l] == hist[l], "bl_count[] is the histogram of the code lengths");
        /* canonical code of symbol k (RFC 1951 3.2.2), bit-reversed as stored */
        {
                uint32_t next = 0, code = 0;
                for (int bits = 1; bits <= 15; bits++) {
                        code = (code + (bits > 1 ? hist[bits - 1] : 0)) << 1;
                        if (bits == codes[I.k].length)
                                next = code;
                }
                for (int i = 0; i < TN; i++)
                        if (i < I.k && codes[i].length == codes[I.k].length)
                                next = next + 1;
                uint32_t len = codes[I.k].length, rev = 0;
                for (uint32_t b = 0; b < 15; b++)
                        if (b < len && ((next >> b) & 1))
                                rev |= 1u << (len - 1 - b);
                VASSERT(codes[I.k].code == rev, "code of symbol k is the canonical code, bit-reversed");
        }
#if TL >= 4 || TN <= 2
        /* no repair needed when the limit cannot bind (depth <= TN-1 <= TL): a more frequent symbol
         * never gets a longer code */
#if TN - 1 <= TL
        if (I.cnt[I.j] > I.cnt[I.k])
                VASSERT(codes[I.j].length <= codes[I.k].length, "more frequent symbol: code not longer");
#endif
#endif
        VREACHED();
}

#elif defined(H_CREATE)
/* ================================================================== isal_create_hufftables, concrete histogram
 * The REAL table builder is run in-model on a CONCRETE histogram (HIST_KIND, swept by the plan); symbolic
 * are the distances / lengths / literals that are then looked up.  Every symbol the encoder can emit
 * must have a code of at least one bit, distinct symbols must have codes none of which is a prefix
 * of the other (checked on the distance side through get_dist_code, i.e. through dist_table[] AND
 * dcodes[] as the encoder reads them).  Guards the argument wiring of the create_* calls inside
 * isal_create_hufftables, which the unit harnesses above bypass. */
#ifndef HIST_KIND
#define HIST_KIND 0
#endif
struct inputs {
        uint32_t d1, d2, length, lit;
};
DECLARE_INPUTS
static struct isal_huff_histogram hist;
static struct isal_hufftables ht;
void
harness(void)
{
        VERIF_INPUTS();
        for (int i = 0; i < ISAL_DEF_LIT_LEN_SYMBOLS; i++)
                hist.lit_len_histogram[i] = HIST_KIND == 0 ? 0 : HIST_KIND == 1 ? 1 : (uint64_t) (i % 7) * (i % 5) + (i == 256);
        for (int i = 0; i < ISAL_DEF_DIST_SYMBOLS; i++)
                hist.dist_histogram[i] = HIST_KIND == 0 ? 0 : HIST_KIND == 1 ? 1 : (uint64_t) (i % 3) * (i + 1);
        int r = isal_create_hufftables(&ht, &hist);
        VASSERT(r == 0, "table creation succeeds");
        VASSUME(I.d1 >= 1 && I.d1 <= 32768 && I.d2 >= 1 && I.d2 <= 32768 && I.length >= 3 && I.length <= 258 && I.lit <= 256);
        uint64_t c1, l1, c2, l2, c, l;
        get_dist_code(&ht, I.d1, &c1, &l1);
        get_dist_code(&ht, I.d2, &c2, &l2);
        int s1 = spec_dist_sym(I.d1), s2 = spec_dist_sym(I.d2);
        VASSERT(l1 >= 1u + rfc_dist_extra[s1] && l1 <= 15u + rfc_dist_extra[s1], "every distance has a Huffman code of 1..15 bits plus its extra bits");
        if (s1 != s2) {
                uint64_t h1 = l1 - rfc_dist_extra[s1], h2 = l2 - rfc_dist_extra[s2];
                uint64_t m = h1 < h2 ? h1 : h2;
                VASSERT(((c1 ^ c2) & ((1ull << m) - 1)) != 0, "codes of two different distance symbols: neither is a prefix of the other");
        }
        get_len_code(&ht, I.length, &c, &l);
        int sl = spec_len_sym(I.length);
        VASSERT(l >= 1u + rfc_len_extra[sl] && l <= 15u + rfc_len_extra[sl], "every match length has a code of 1..15 bits plus extra bits");
        get_lit_code(&ht, I.lit, &c, &l);
        VASSERT(l >= 1 && l <= 15, "every literal and the end-of-block symbol have a code of 1..15 bits");
        VREACHED();
}
#endif

#if defined(H_TREE) || defined(H_CREATE) || defined(H_RL) || defined(H_WRL) || defined(H_LEN) || defined(H_DIST) || defined(H_SYM) || defined(H_USEABLE) ||         \
        defined(H_HEAP)
VERIF_MAIN
#endif
