/* C18 / C01 (lead): write_deflate_header_unaligned_stateless (igzip.c) as a unit -- the stateless level-0 path that
 * appends a table's stored block header when the bit buffer is NOT byte aligned (after the constant-run block of
 * write_constant_compressed_stateless).  HC = deflate_hdr_count, HE = deflate_hdr_extra_bits, PC = bits pending in the
 * bit buffer (1..7) are concrete per query; the header bytes, the pending bits and end_of_stream are symbolic.
 * Oracle: the bits that leave the function -- whole bytes written to next_out followed by the < 8 bits left in the bit
 * buffer -- are exactly: pending bits, then the 8*HC+HE header bits (BFINAL cleared when end_of_stream == 0). */
#ifndef REPLAY
#define _X86INTRIN_H_INCLUDED 1
#define _IMMINTRIN_H_INCLUDED 1
#endif
#include "verif.h"
#include <stdlib.h>
#include <string.h>
#include "igzip.c"

#define NB (8 * HC + HE)
#define AVAIL (HC + 17 + 8)

struct inputs {
        uint8_t hdr[HC + 8];
        uint8_t pend;
        uint8_t eos;
};
DECLARE_INPUTS

static struct isal_zstream S;
static struct isal_hufftables T;

void
harness(void)
{
        VERIF_INPUTS();
        VASSUME(I.eos <= 1);
        VASSUME(I.pend < (1u << PC));
        VASSUME(I.hdr[0] & 1); /* stored headers carry BFINAL = 1 (huff_codes.c create_header); the writer clears it by decrement */
        memset(&T, 0, sizeof(T));
        for (int i = 0; i < HC + 8; i++)
                T.deflate_hdr[i] = I.hdr[i];
        T.deflate_hdr_count = HC;
        T.deflate_hdr_extra_bits = HE;
        uint8_t *out = malloc(AVAIL);
        if (!out)
                return;
        S.hufftables = &T;
        S.end_of_stream = I.eos;
        S.next_out = out;
        S.avail_out = AVAIL;
        S.total_out = 0;
        S.internal_state.bitbuf.m_bits = I.pend;
        S.internal_state.bitbuf.m_bit_count = PC;
        int ret = write_deflate_header_unaligned_stateless(&S);
        VASSERT(ret == COMP_OK, "enough room => COMP_OK");
        uint32_t count = S.total_out;
        VASSERT(S.next_out == out + count && S.avail_out == AVAIL - count, "output counters consistent");
        uint32_t left = S.internal_state.bitbuf.m_bit_count;
        VASSERT(left < 8, "fewer than 8 bits left in the bit buffer");
        VASSERT(8 * count + left == PC + NB, "every pending and header bit accounted for");
        VASSERT(S.internal_state.state == ZSTATE_BODY, "state ZSTATE_BODY");
        for (uint32_t i = 0; i < PC + NB; i++) {
                unsigned want;
                if (i < PC)
                        want = (I.pend >> i) & 1;
                else {
                        uint32_t j = i - PC;
                        want = (I.hdr[j >> 3] >> (j & 7)) & 1;
                        if (j == 0 && !I.eos)
                                want = 0;
                }
                unsigned got = (i < 8 * count) ? (out[i >> 3] >> (i & 7)) & 1 : (unsigned) ((S.internal_state.bitbuf.m_bits >> (i - 8 * count)) & 1);
                VASSERT(got == want, "emitted bit == pending bits followed by the stored header bits");
        }
        VREACHED();
}
VERIF_MAIN
