from vlib.core import Query, Plan

R = "vlib.cbmc:cbmc_query"
H = "harness/C18/h_huff.c"
FAST = ["_X86INTRIN_H_INCLUDED", "_IMMINTRIN_H_INCLUDED"]   # see harness/inflate_common/plans.py
UNITS = ["igzip/proc_heap_base.c", "igzip/flatten_ll.c"]
# everything igzip.c links against in the portable-C configuration (harness #includes igzip.c itself)
IGZIP_UNITS = ["igzip/igzip_base.c", "igzip/igzip_base_aliases.c", "igzip/igzip_icf_base.c", "igzip/igzip_icf_body.c",
               "igzip/hufftables_c.c", "igzip/huff_codes.c", "igzip/encode_df.c", "igzip/flatten_ll.c",
               "igzip/adler32_base.c", "igzip/proc_heap_base.c", "igzip/igzip_inflate.c", "crc/crc_base.c",
               "crc/crc_base_aliases.c"]


def q(qid, hdef, unwind=None, unwindset=None, core=False, witness=False, family=None, weight=1.0, defines=(),
      timeout=None, flags=None, mem_gb=None):
    p = dict(harness=H, units=UNITS, defines=FAST + list(defines), hdefines=hdef, witness=witness)
    if unwind is not None:
        p["unwind"] = unwind
    if unwindset:
        p["unwindset"] = unwindset
    if timeout:
        p["timeout"] = timeout
    if flags:
        p["flags"] = flags
    if mem_gb:
        p["mem_gb"] = mem_gb
    return Query(qid, R, p, core=core, family=family or qid.split("/")[0], weight=weight)


def plan(tier, ctx):
    quick = tier == "quick"
    qs = []
    # (b) run-length coding of code lengths
    # arbitrary sequences (measured: cost grows ~2.5-3x per entry; nc=6 14 s, nc=7 42 s, nc=8 130 s, nc=10 >900 s)
    for nc in (list(range(1, 7)) if quick else list(range(1, 10))):
        core = nc == 5
        qs.append(q("rl_encode/nc%d" % nc, ["H_RL", "NC=%d" % nc], unwind=max(nc + 2, 22),
                    unwindset=["write_rl.0:1", "write_rl.1:%d" % (nc // 6 + 2)], core=core, witness=core, weight=2 ** nc / 8.0))
    # all sequences made of at most 2 runs (arbitrary boundary and values), long totals: run chunking by 6 /
    # zero runs 3..10 / 11..138 in situ, run->run transition, final flush (measured nc=24: 71 s; nc=150: OOM 16 GB)
    for nc in ([24] if quick else [24, 40]):
        qs.append(q("rl_runs2/nc%d" % nc, ["H_RL", "NC=%d" % nc, "RUNS=2"], unwind=max(nc + 2, 22),
                    unwindset=["write_rl.0:2", "write_rl.1:%d" % (nc // 6 + 2)], core=False, witness=False, weight=30))
    qs.append(q("write_rl/run300", ["H_WRL", "RUNMAX=300"], unwind=300 // 6 + 6, core=True, witness=True, weight=10))
    # (c) packed tables and symbol conversions
    qs.append(q("len_table/default", ["H_LEN"], unwind=40, core=True, witness=True, weight=5))
    qs.append(q("sym/default", ["H_SYM"], unwind=40, core=True, witness=True, weight=2))
    qs.append(q("dist_table/default", ["H_DIST"], unwind=40, core=True, witness=True, weight=5))
    # (e) state guard of isal_deflate_set_hufftables
    qs.append(Query("set_hufftables/all_states", R,
                    dict(harness="harness/C18/h_sethuff.c", units=IGZIP_UNITS, defines=FAST, hdefines=[], unwind=17,
                         flags=["--arrays-uf-always"], witness=True), core=True, family="set_hufftables", weight=3))
    return Plan("C18", "model_checking", qs, functions_encoded=[], bounds={}, stubs=[], assumptions=[], outside=[])
