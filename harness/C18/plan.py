import os

from vlib.core import Query, Plan

R = "vlib.cbmc:cbmc_query"
H = "harness/C18/h_huff.c"
# Build-speed only: include guards of gcc's <x86intrin.h>/<immintrin.h> (see harness/inflate_common/plans.py)
FAST = ["_X86INTRIN_H_INCLUDED", "_IMMINTRIN_H_INCLUDED"]
UNITS = ["igzip/proc_heap_base.c", "igzip/flatten_ll.c"]
# everything igzip.c links against in the portable-C configuration (harness #includes igzip.c itself)
IGZIP_UNITS = ["igzip/igzip_base.c", "igzip/igzip_base_aliases.c", "igzip/igzip_icf_base.c", "igzip/igzip_icf_body.c",
               "igzip/hufftables_c.c", "igzip/huff_codes.c", "igzip/encode_df.c", "igzip/flatten_ll.c",
               "igzip/adler32_base.c", "igzip/proc_heap_base.c", "igzip/igzip_inflate.c", "crc/crc_base.c",
               "crc/crc_base_aliases.c"]
LITLEN_UNW = 290


def q(qid, hdef, unwind=None, unwindset=None, core=False, witness=False, family=None, weight=1.0, defines=(),
      timeout=None, flags=None, mem_gb=None, finding_key=None):
    p = dict(harness=H, units=UNITS, defines=FAST + list(defines), hdefines=hdef, witness=witness)
    if unwind is not None:
        p["unwind"] = unwind
    if unwindset:
        p["unwindset"] = unwindset
    if timeout:
        p["timeout"] = timeout
    if flags:
        p["flags"] = flags
    if mem_gb:
        p["mem_gb"] = mem_gb
    if finding_key:
        p["finding_key"] = finding_key
    return Query(qid, R, p, core=core, family=family or qid.split("/")[0], weight=weight)


def plan(tier, ctx):
    quick = tier == "quick"
    qs = []
    # ---- (b) run-length coding of code lengths -------------------------------------------------
    # arbitrary sequences (measured: cost x2.5-3 per entry; nc=6 14 s, nc=7 42 s, nc=8 130 s, nc=10 > 900 s)
    for nc in (list(range(1, 7)) if quick else list(range(1, 10))):
        core = nc == 5
        qs.append(q("rl_encode/nc%d" % nc, ["H_RL", "NC=%d" % nc], unwind=max(nc + 2, 22),
                    unwindset=["write_rl.0:1", "write_rl.1:%d" % (nc // 6 + 2)], core=core, witness=core,
                    weight=2 ** nc / 8.0))
    # all sequences made of at most 2 runs (arbitrary boundary and values): chunking by 6, zero runs 3..10 / 11..138,
    # run->run transition, final flush in situ (measured nc=24: 71 s; nc=150: OOM at 16 GB; 3 runs nc=12: 50-200 s)
    for nc in [24]:   # nc=40: no verdict in 1200 s
        qs.append(q("rl_runs2/nc%d" % nc, ["H_RL", "NC=%d" % nc, "RUNS=2"], unwind=max(nc + 2, 22),
                    unwindset=["write_rl.0:2", "write_rl.1:%d" % (nc // 6 + 2)], weight=30,
                    timeout=(300 if quick else None)))
    # (3-run sequences of 12 entries: no verdict in 1200 s, not scheduled)
    qs.append(q("write_rl/run300", ["H_WRL", "RUNMAX=300"], unwind=300 // 6 + 6, core=True, witness=True, weight=20,
                timeout=400))
    # ---- (c) packed tables and symbol conversions, default and LONGER_HUFFTABLE layouts ----------
    qs.append(q("len_table/default", ["H_LEN"], unwind=40, core=True, witness=True, weight=5))
    qs.append(q("sym/default", ["H_SYM"], unwind=40, core=True, witness=True, weight=2))
    qs.append(q("dist_table/default", ["H_DIST"], unwind=40, core=True, witness=True, weight=5))
    # (LONGER_HUFFTABLE layout: 8192-entry dist_table filled inside struct isal_hufftables -> solver out of memory at
    #  24 GB after 180 s for either half of the distance range; not scheduled, listed in `outside`)
    # ---- (a, reduced) heapify/build_heap on plain uint64_t arrays (n=5 8 s, n=6 > 150 s) ----------
    for hn in ([2, 4, 5] if quick else [2, 3, 4, 5]):   # n=6: 993 s, n=7: > 1200 s
        qs.append(q("build_heap/n%d" % hn, ["H_HEAP", "HN=%d" % hn], unwind=hn + 2, core=(hn == 4), witness=(hn == 4),
                    weight=2 ** hn / 4.0))
    # ---- (d) are_hufftables_useable ------------------------------------------------------------
    qs.append(q("useable/implemented_bound", ["H_USEABLE"], unwind=LITLEN_UNW, core=True, witness=True, weight=5))
    if os.environ.get("VERIF_C18_USEABLE_EXACT"):
        # FAILS on the unchanged tree (suspected defect, see `outside`); opt-in until the lead decides
        qs.append(q("useable/exact", ["H_USEABLE", "USEABLE_EXACT"], unwind=LITLEN_UNW, weight=5,
                    finding_key="'useable-len285-outside-length-max'"))
    # ---- (e) state guard of isal_deflate_set_hufftables -----------------------------------------
    qs.append(Query("set_hufftables/all_states", R,
                    dict(harness="harness/C18/h_sethuff.c", units=IGZIP_UNITS, defines=FAST, hdefines=[], unwind=17,
                         flags=["--arrays-uf-always"], witness=True, timeout=400), core=True, family="set_hufftables",
                    weight=10))
    # ---------------------------------------------------------------- engine B: assembly heap primitive (lead)
    from vlib.core import Query as _Q
    for n in ([2, 3, 4, 5, 6, 7] if tier == "quick" else [2, 3, 4, 5, 6, 7, 8, 9]):
        qs.append(_Q("x86/build_heap/n%d" % n, "harness.C18.heap_x86:heap_query", dict(sizes=[n]), core=(n == 4), family="x86/build_heap",
                     weight=3 ** n / 10.0, timeout=1800))
    for n in ([2, 3, 4] if tier == "quick" else [2, 3, 4, 5]):
        qs.append(_Q("x86/build_huff_tree/n%d" % n, "harness.C18.heap_x86:tree_query", dict(sizes=[n]), core=(n == 3), family="x86/build_huff_tree",
                     weight=8 ** n / 50.0, timeout=3000))
    # ---- (lead) stored header written at a non-byte-aligned position (stateless level 0 after a constant-run block) -----
    hcs = [7, 8, 15, 20] if quick else list(range(1, 25)) + [45, 79, 110]
    for hc in hcs:
        for he in ((0, 1, 4, 7) if quick else range(8)):
            for pc in ((1, 4, 7) if quick else range(1, 8)):
                p = dict(harness="harness/C18/h_hdrunal.c", units=IGZIP_UNITS, defines=FAST, hdefines=["HC=%d" % hc, "HE=%d" % he, "PC=%d" % pc],
                         unwind=8 * hc + 24, witness=(hc == 15 and he == 1 and pc == 7))
                qs.append(Query("hdr_unaligned/hc%d_he%d_pc%d" % (hc, he, pc), R, p, core=(hc == 15 and he == 1 and pc == 7), family="hdr_unaligned",
                                weight=hc / 10.0))
    return Plan(
        "C18", "model_checking", qs,
        functions_encoded=["rl_encode", "write_rl", "create_packed_len_table", "create_packed_dist_table", "create_code_tables",
                           "get_len_code", "get_dist_code", "compute_dist_code", "get_dist_icf_code", "get_len_icf_code",
                           "convert_length_to_len_sym", "convert_dist_to_dist_sym", "dist_code_extra_bits[]",
                           "are_hufftables_useable", "heapify", "build_heap", "isal_deflate_set_hufftables",
                           "write_deflate_header_unaligned_stateless (bitbuf2.h write_bits/check_space/flush)"],
        bounds={
            "rl_encode": "ALL length sequences over 0..15 of 1..6 entries (thorough 1..9; nc=9 715 s); all sequences of <= 2 runs with "
                         "24 entries; write_rl: every (length 0..15, run 1..300)",
            "packed tables": "29 length / 30 distance code words and lengths arbitrary (1..15 bits, code < 2^len); symbolic "
                             "match length 3..258 and distance 1..32768; default build layout (2-entry dist_table + dcodes[30])",
            "are_hufftables_useable": "all 286+30 code lengths arbitrary 0..15",
            "build_heap": "n = 2,4,5 (thorough 2..5; n=6 993 s, n=7 > 1200 s not scheduled) arbitrary 64-bit keys",
            "set_hufftables": "state over the whole enum, every scalar stream field arbitrary, type any int, table NULL or not",
        },
        stubs=["include guards _X86INTRIN_H_INCLUDED/_IMMINTRIN_H_INCLUDED predefined (build speed only; no intrinsic is "
               "used in this configuration)"],
        assumptions=["code words satisfy code < 2^length, 1 <= length <= 15 (what set_huff_codes produces)",
                     "spec/rfc1951.h tables rfc_len_base/extra, rfc_dist_base/extra are RFC 1951 3.2.5",
                     "set_hufftables: buffer[]/head[] hold zeros except one arbitrary element each (the observed one)"],
        outside=["packed distance table in the LONGER_HUFFTABLE build (8192 entries): out of memory at 24 GB",
                 "(a) build_huff_tree/gen_huff_code_lens/fix_code_lens/set_huff_codes on small alphabets: NOT decided "
                 "(CBMC 6.11 mis-models struct heap_tree's anonymous union; array-backed variant > 26 GB at 4 symbols, DESIGN C18)",
                 "(f) create_header/create_huffman_header (keeps a struct heap_tree local): not decided",
                 "isal_create_hufftables / _subset as a whole (286+30 symbolic counts), incl. the argument wiring of its "
                 "create_code_tables/create_packed_*_table calls; the stored deflate_hdr; round trips with custom tables",
                 "rl_encode on arbitrary sequences of 10..316 entries (only <= 2-run sequences of 24 entries; 2 runs x 40 and 3 runs x 12: no verdict in 1200 s)",
                 "assembly: proc_heap.asm, igzip_update_histogram*.asm",
                 "SUSPECTED DEFECT (solver counterexample replayed natively, replay/C18-3482bd9a76.json): "
                 "are_hufftables_useable leaves length symbol 285 out of the length maximum, so lit 15 + len(285) 15 + "
                 "dist 15+13 = 58 bits is accepted although > 56 (MAX_BITBUF_BIT_WRITE); opt-in query useable/exact "
                 "(VERIF_C18_USEABLE_EXACT=1)"],
        trusted_base=["cbmc 6.11 C front end + SAT back end", "spec/rfc1951.h tables"])
