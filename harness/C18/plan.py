from vlib.core import Query, Plan

R = "vlib.cbmc:cbmc_query"
H = "harness/C18/h_huff.c"
FAST = ["_X86INTRIN_H_INCLUDED", "_IMMINTRIN_H_INCLUDED"]   # see harness/inflate_common/plans.py
UNITS = ["igzip/proc_heap_base.c", "igzip/flatten_ll.c"]


def q(qid, hdef, unwind=None, unwindset=None, core=False, witness=False, family=None, weight=1.0, defines=(),
      timeout=None, flags=None, mem_gb=None):
    p = dict(harness=H, units=UNITS, defines=FAST + list(defines), hdefines=hdef, witness=witness)
    if unwind is not None:
        p["unwind"] = unwind
    if unwindset:
        p["unwindset"] = unwindset
    if timeout:
        p["timeout"] = timeout
    if flags:
        p["flags"] = flags
    if mem_gb:
        p["mem_gb"] = mem_gb
    return Query(qid, R, p, core=core, family=family or qid.split("/")[0], weight=weight)


def plan(tier, ctx):
    quick = tier == "quick"
    qs = []
    # (b) run-length coding of code lengths
    # arbitrary sequences (cost grows ~2.5x per entry: 2^(nc-1) run patterns)
    for nc in (list(range(1, 8)) if quick else list(range(1, 11))):
        core = nc == 6
        qs.append(q("rl_encode/nc%d" % nc, ["H_RL", "NC=%d" % nc], unwind=max(nc + 2, 22),
                    unwindset=["write_rl.0:1", "write_rl.1:%d" % (nc // 6 + 2)], core=core, witness=core, weight=2 ** nc / 8.0,
                    timeout=(None if quick else 2400)))
    # sequences made of at most 3 runs with arbitrary boundaries/values, long totals
    for nc in ([12, 24] if quick else [12, 24, 40, 150]):
        qs.append(q("rl_runs3/nc%d" % nc, ["H_RL", "NC=%d" % nc, "RUNS=3"], unwind=max(nc + 2, 22),
                    unwindset=["write_rl.0:2", "write_rl.1:%d" % (nc // 6 + 2)], core=(nc == 12), witness=(nc == 12),
                    weight=nc))
    qs.append(q("write_rl/run300", ["H_WRL", "RUNMAX=300"], unwind=300 // 6 + 6, core=True, witness=True, weight=10))
    # (c) packed tables and symbol conversions
    qs.append(q("len_table/default", ["H_LEN"], unwind=40, core=True, witness=True, weight=5))
    qs.append(q("sym/default", ["H_SYM"], unwind=40, core=True, witness=True, weight=2))
    qs.append(q("dist_table/default", ["H_DIST"], unwind=40, core=True, witness=True, weight=5))
    return Plan("C18", "model_checking", qs, functions_encoded=[], bounds={}, stubs=[], assumptions=[], outside=[])
