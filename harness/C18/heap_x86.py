"""C18 engine-B part: the assembly heap primitives of igzip/proc_heap.asm (build_heap, and heapify through it) that the
Huffman-tree construction runs on.  Heap keys (count<<16 | symbol, 64-bit) are symbolic; a memory operand indexed by a
symbolic child index (after the cmov) is case-split on its feasible values.  Decided on every path by z3:
   build_heap(heap, n): the result is a permutation of the input keys, satisfies the min-heap property
   heap[i] <= heap[2i], heap[2i+1] for the 1-based array, the sentinel heap[n+1] = ~0 is the only store outside [1..n]."""
import itertools
import random
import time
import z3
from vlib.core import HOLDS, VIOLATED, UNDECIDED, ERROR
from vlib.x86sym import loader, bv
from vlib.x86sym.interp import Exec
from vlib.x86sym.machine import Violation, Unsupported
from vlib.x86sym.runner import Setup, build_native_driver, validate_concrete, run_native, smt_check


def mk(img, n, keys):
    s = Setup(img, "build_heap")
    init = [0] * 8
    for k in keys:
        init.extend(bv.split_bytes(64, k))
    init.extend([0x11] * 8)       # slot n+1 receives the sentinel
    h = s.region("heap", 8 * (n + 2), r=True, w=True, init=init)
    s.args = [h, n]
    s.heap = h
    return s


def heap_query(qid, params, ctx):
    t0 = time.time()
    stats = {"variables": 0, "clauses": 0, "paths": 0}
    val = 0
    try:
        img = loader.build_image(ctx["repo"], ["igzip/proc_heap.asm"], ctx["scratch"])
        exe = build_native_driver(img, ["build_heap"], ctx["scratch"] + "/x86", "proc_heap")
        for n in params["sizes"]:
            rnd = random.Random(n)
            for trial in range(3):
                keys = [rnd.getrandbits(44) << 16 | rnd.randrange(286) for _ in range(n)]
                ok, msg = validate_concrete(img, mk(img, n, keys), exe, ret_bits=0)
                if ok is False:
                    return {"status": ERROR, "detail": "translator validation failed (build_heap n=%d): %s" % (n, msg)}
                val += 1
            keys = [z3.BitVec("k%d" % i, 64) for i in range(n)]
            solver = z3.SolverFor("QF_BV")
            ex = Exec(img, solver, max_paths=20000)
            ex.split_sym_index = True
            s = mk(img, n, keys)
            finals = ex.run(s.initial_state())
            stats["paths"] += len(finals)
            stats["variables"] += ex.n_insns
            for st, out in finals:
                if isinstance(out, Violation):
                    _, m = smt_check(st.path)
                    cex = [m.eval(k, model_completion=True).as_long() for k in keys]
                    return {"status": VIOLATED, "detail": "build_heap n=%d: %s at %r keys=%s" % (n, out, out.insn, [hex(c) for c in cex]), "cex": {"n": n, "keys": cex}, "replay_ok": None, "stats": stats}
                abi = s.abi_check(st)
                if abi:
                    return {"status": VIOLATED, "detail": "ABI: " + abi, "cex": None, "replay_ok": None}
                res = [bv.join_bytes([st.mem.b[s.heap + 8 * i + j] for j in range(8)]) for i in range(n + 2)]
                bad = []
                # min-heap property (unsigned 64-bit compare, as the kernel's cmp/jbe)
                for i in range(1, n + 1):
                    for c in (2 * i, 2 * i + 1):
                        if c <= n:
                            bad.append(z3.UGT(bv.z(64, res[i]), bv.z(64, res[c])))
                # permutation: multiset equality, stated semantically (results are cmov/If terms over the keys):
                # every key value occurs among the results exactly as often as among the inputs
                rz = [bv.z(64, res[i]) for i in range(1, n + 1)]
                for kj in keys:
                    one, zero = z3.BitVecVal(1, 8), z3.BitVecVal(0, 8)     # stay inside QF_BV
                    cnt_res = sum([z3.If(r == kj, one, zero) for r in rz], zero)
                    cnt_in = sum([z3.If(ki == kj, one, zero) for ki in keys], zero)
                    bad.append(cnt_res != cnt_in)
                if not (bv.is_c(res[n + 1]) and res[n + 1] == bv.mask(64)) or not (bv.is_c(res[0]) and res[0] == 0):
                    bad.append(z3.BoolVal(True))
                stats["clauses"] += len(bad)
                if bad:
                    r_, m = smt_check(st.path + [z3.Or(*bad)])
                    if r_ == z3.unknown:
                        return {"status": UNDECIDED, "detail": "z3 unknown"}
                    if r_ == z3.sat:
                        cex = [m.eval(k, model_completion=True).as_long() for k in keys]
                        s2 = mk(img, n, cex)
                        rax, regs = run_native(exe, "build_heap", s2.args, s2.regions)
                        nat = regs[0] if rax is not None else None
                        rep = None
                        if nat:
                            hv = [int.from_bytes(bytes(nat[8 * i:8 * i + 8]), "little") for i in range(n + 2)]
                            rep = any(hv[i] > hv[c] for i in range(1, n + 1) for c in (2 * i, 2 * i + 1) if c <= n) or sorted(hv[1:n + 1]) != sorted(cex)
                        return {"status": VIOLATED, "detail": "build_heap n=%d: result is not a min-heap permutation of the input; keys=%s" % (n, [hex(c) for c in cex]),
                                "cex": {"n": n, "keys": cex}, "replay_ok": rep, "stats": stats, "validated_traces": val}
    except Unsupported as e:
        return {"status": ERROR, "detail": "outside encodable class: %s" % e}
    return {"status": HOLDS, "stats": stats, "validated_traces": val, "solver_time_s": time.time() - t0, "witness_ok": stats["paths"] > 0}


def mk_tree(img, n, keys, node_start):
    """heap_tree object: slots 1..n hold the (already heapified) keys, slot n+1 the sentinel; tree nodes are written
    downwards from slot node_start"""
    s = Setup(img, "build_huff_tree")
    size = node_start + 1
    init = [0] * 8
    for k in keys:
        init.extend(bv.split_bytes(64, k))
    init.extend([0xFF] * 8)
    init.extend([0] * (8 * (size - n - 2)))
    h = s.region("heap_tree", 8 * size, r=True, w=True, init=init)
    s.args = [h, n, node_start]
    s.heap = h
    return s


def tree_query(qid, params, ctx):
    """build_huff_tree (assembly) from an arbitrary min-heap of n leaves with distinct symbol ids 0..n-1 and SYMBOLIC
    48-bit counts: on every path (z3) the recorded child ids form a full binary tree over exactly the n leaves
    (every leaf id and every internal node id except the root occurs exactly once as a child), the root carries the
    sum of all counts, the returned node pointer is node_start - 2(n-1), and all accesses stay inside the object."""
    t0 = time.time()
    stats = {"variables": 0, "clauses": 0, "paths": 0}
    val = 0
    try:
        img = loader.build_image(ctx["repo"], ["igzip/proc_heap.asm"], ctx["scratch"])
        exe = build_native_driver(img, ["build_heap", "build_huff_tree"], ctx["scratch"] + "/x86", "proc_heap_t")
        for n in params["sizes"]:
            node_start = n + 2 + 2 * n
            rnd = random.Random(100 + n)
            for trial in range(3):
                ks = sorted(rnd.getrandbits(40) for _ in range(n))
                keys = [(c << 16) | i for i, c in enumerate(ks)]      # sorted => a valid heap
                ok, msg = validate_concrete(img, mk_tree(img, n, keys, node_start), exe, ret_bits=32)
                if ok is False:
                    return {"status": ERROR, "detail": "translator validation failed (build_huff_tree n=%d): %s" % (n, msg)}
                val += 1
            cnt = [z3.BitVec("c%d" % i, 48) for i in range(n)]
            keys = [z3.Concat(cnt[i], z3.BitVecVal(i, 16)) for i in range(n)]
            pre = [z3.ULT(c, 1 << 44) for c in cnt]           # counts < 2^44 (property text), sums cannot wrap 48 bits
            for i in range(1, n + 1):
                for c in (2 * i, 2 * i + 1):
                    if c <= n:
                        pre.append(z3.ULE(keys[i - 1], keys[c - 1]))
            solver = z3.SolverFor("QF_BV")
            solver.add(*pre)
            ex = Exec(img, solver, max_paths=50000)
            ex.split_sym_index = True
            s = mk_tree(img, n, keys, node_start)
            finals = ex.run(s.initial_state())
            stats["paths"] += len(finals)
            stats["variables"] += ex.n_insns
            for st, out in finals:
                if isinstance(out, Violation):
                    _, m = smt_check(pre + st.path)
                    cex = [m.eval(c, model_completion=True).as_long() for c in cnt]
                    return {"status": VIOLATED, "detail": "build_huff_tree n=%d: %s at %r counts=%s" % (n, out, out.insn, cex), "cex": {"n": n, "counts": cex}, "replay_ok": None, "stats": stats}
                abi = s.abi_check(st)
                if abi:
                    return {"status": VIOLATED, "detail": "ABI: " + abi, "cex": None, "replay_ok": None}
                ret = bv.extract(st.r["rax"], 31, 0)
                root = node_start - 2 * (n - 1)
                bad = []
                if not (bv.is_c(ret) and ret == root):
                    bad.append(z3.BoolVal(True))
                slot = lambda i: bv.z(64, bv.join_bytes([st.mem.b[s.heap + 8 * i + j] for j in range(8)]))
                # child ids are the low 16 bits of the tree slots root..node_start; slot `root` holds the root's id
                ids = [z3.Extract(15, 0, slot(i)) for i in range(root, node_start + 1)]
                internal = [node_start - 2 * j for j in range(n - 1)]          # ids of the n-1 internal nodes, last one = root node id
                one, zero = z3.BitVecVal(1, 8), z3.BitVecVal(0, 8)
                expect_once = list(range(n)) + internal
                for e in expect_once:
                    c_ = sum([z3.If(x == e, one, zero) for x in ids], zero)
                    bad.append(c_ != 1)
                # root weight = sum of all counts
                total = sum([z3.ZeroExt(0, c) for c in cnt[1:]], cnt[0])
                bad.append(z3.Extract(63, 16, slot(1)) != total)
                stats["clauses"] += len(bad)
                r_, m = smt_check(pre + st.path + [z3.Or(*bad)])
                if r_ == z3.unknown:
                    return {"status": UNDECIDED, "detail": "z3 unknown"}
                if r_ == z3.sat:
                    cex = [m.eval(c, model_completion=True).as_long() for c in cnt]
                    return {"status": VIOLATED, "detail": "build_huff_tree n=%d: result is not a full binary tree over the leaves / wrong root weight; counts=%s" % (n, cex),
                            "cex": {"n": n, "counts": cex}, "replay_ok": None, "stats": stats, "validated_traces": val}
    except Unsupported as e:
        return {"status": ERROR, "detail": "outside encodable class: %s" % e}
    return {"status": HOLDS, "stats": stats, "validated_traces": val, "solver_time_s": time.time() - t0, "witness_ok": stats["paths"] > 0}
