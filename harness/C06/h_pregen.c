/* C06 / C02 (lead): header_matches_pregen (igzip_inflate.c) -- the shortcut that recognises ISA-L's own default dynamic
 * header and installs pre-generated tables instead of parsing it.  It must answer "yes" EXACTLY when every bit of the
 * candidate header equals the default header (a near-miss decoded with the default tables would falsely succeed).
 * RIL = bits already in the bit buffer (concrete: 5, 13 or 61 -- RIL + 3 must be a multiple of 8 for the shortcut to
 * apply; other values are swept for the "no" answer), buffer contents and the input bytes symbolic. */
#include "harness/inflate_common/inflate_common.h"

#define HC (sizeof(((struct isal_hufftables *) 0)->deflate_hdr)) /* capacity */
#define NIN 140

struct inputs {
        uint64_t read_in;
        uint8_t in[NIN];
};
DECLARE_INPUTS

static struct inflate_state st;

/* bit k (k >= 3: BFINAL/BTYPE already consumed) of the candidate: first the RIL buffered bits, then the input bytes */
static unsigned
cand_bit(uint32_t k)
{
        uint32_t j = k - 3;
        if (j < RIL)
                return (unsigned) ((I.read_in >> j) & 1);
        j -= RIL;
        return (I.in[j >> 3] >> (j & 7)) & 1;
}

void
harness(void)
{
        VERIF_INPUTS();
        uint32_t count = hufftables_default.deflate_hdr_count, extra = hufftables_default.deflate_hdr_extra_bits;
        uint32_t nbits = 8 * count + extra;
        VASSERT(count + 9 <= NIN && count >= 16, "harness sizing");
        isal_inflate_init(&st);
        st.next_in = I.in;
        st.avail_in = NIN;
        st.read_in = RIL < 64 ? (I.read_in & ((1ull << RIL) - 1)) : I.read_in;
        st.read_in_length = RIL;
        int equal = 1;
        for (uint32_t k = 3; k < nbits; k++)
                if (cand_bit(k) != ((hufftables_default.deflate_hdr[k >> 3] >> (k & 7)) & 1u))
                        equal = 0;
        int r = header_matches_pregen(&st);
        VASSERT(r == 0 || r == 1, "boolean");
        if (r) {
                VASSERT(equal, "answers yes only if every header bit equals the default header");
                VASSERT(((RIL + 3) & 7) == 0, "shortcut only from a byte-aligned block start");
                VASSERT(ic_bitpos(&st, I.in) + 3 + RIL == nbits, "consumed exactly the header");
        } else {
                VASSERT(!equal || ((RIL + 3) & 7) != 0, "a byte-aligned exact copy of the default header is recognised");
                VASSERT(st.next_in == I.in && st.avail_in == NIN && st.read_in_length == RIL, "no: nothing consumed");
        }
        VREACHED();
}
VERIF_MAIN
