/* C06 (and C15: independence from stale state): make_inflate_huff_code_dist (igzip_inflate.c) as a
 * unit.  The distance code-length vector is CONCRETE per query (-DLENS=l0,l1,...; swept by the plan
 * over complete, incomplete, single-code and long-code (> 10 bit) shapes), so the table construction's
 * control flow is concrete; SYMBOLIC are (i) the previous contents of the lookup structure the builder
 * writes into (what an earlier block or an uninitialised state left there) and (ii) the 15 input bits
 * that are looked up.  The real set_codes assigns the codes, the real decode_next_dist performs the
 * lookup; the oracle is rfc_decode of spec/rfc1951.h on the same bits.
 *   defined code    => same symbol, exactly its code length consumed
 *   undefined code  => reported as invalid (symbol >= DIST_LEN) with no bits consumed, whatever the
 *                      structure contained before. */
/* -DH_MKHDR (lead): the same unit check for the code-length code of a dynamic header (19 symbols, lengths <= 7):
 * make_inflate_huff_code_header + decode_next_header -- the pair that harness C02/h_dynlens.c cuts out. */
#include "harness/inflate_common/inflate_common.h"

#ifdef H_MKHDR
#define NSYMS CODE_LEN_CODES
#define BUILD(code, table, count) make_inflate_huff_code_header(code, table, NSYMS, count, NSYMS)
#define DECODE(st, code) decode_next_header(st, code)
#else
#define NSYMS DIST_LEN
#define BUILD(code, table, count) make_inflate_huff_code_dist(code, table, NSYMS, count, NSYMS)
#define DECODE(st, code) decode_next_dist(st, code)
#endif

#ifndef LENS
#define LENS 2, 2, 2
#endif
static const uint8_t lens[] = { LENS };
#define NL ((int) (sizeof(lens) / sizeof(lens[0])))

struct inputs {
        uint16_t bits; /* next 15 bits of the stream, LSB first */
        uint16_t stale_short[1 << ISAL_DECODE_SHORT_BITS];
        uint16_t stale_long[ISAL_HUFF_CODE_SMALL_LONG_ALIGNED];
};
DECLARE_INPUTS

static struct inflate_state st;

void
harness(void)
{
        VERIF_INPUTS();
        struct huff_code table[NSYMS + 2];
        uint16_t count[16];
        uint8_t l8[NSYMS];
        struct rfc_huff h;
        for (int i = 0; i < 16; i++)
                count[i] = 0;
        for (int i = 0; i < NSYMS + 2; i++) {
                uint8_t l = i < NL ? lens[i] : 0;
                table[i].code_and_length = 0;
                table[i].length = l;
                if (i < NSYMS) {
                        l8[i] = l;
                        count[l]++;
                }
        }
        /* previous contents of the destination: arbitrary */
        for (int i = 0; i < (1 << ISAL_DECODE_SHORT_BITS); i++)
                st.dist_huff_code.short_code_lookup[i] = I.stale_short[i];
        for (int i = 0; i < ISAL_HUFF_CODE_SMALL_LONG_ALIGNED; i++)
                st.dist_huff_code.long_code_lookup[i] = I.stale_long[i];

        int sc = set_codes(table, NSYMS, count);
        int left = rfc_construct(&h, l8, NSYMS);
        VASSERT((sc != 0) == (left < 0), "set_codes rejects exactly the over-subscribed vectors (sweep sanity)");
        if (sc == 0) {
                BUILD(&st.dist_huff_code, table, count);

                VASSUME(I.bits < (1 << 15));
                st.read_in = I.bits;
                st.read_in_length = 32;
                st.avail_in = 0;
                uint16_t sym = DECODE(&st, &st.dist_huff_code);
                int consumed = 32 - st.read_in_length;

                uint8_t buf[4] = { (uint8_t) I.bits, (uint8_t) (I.bits >> 8), 0, 0 };
                struct rfc_st r;
                r.in = buf, r.in_bits = 32, r.pos = 0, r.eof = 0;
                int want = rfc_decode(&r, &h);
                if (want >= 0) {
                        VASSERT(sym == want && consumed == (int) r.pos, "defined code: same symbol, exactly its length consumed");
                } else {
                        VASSERT(sym >= NSYMS, "undefined code is reported as an invalid symbol, whatever the table held before");
                        VASSERT(consumed == 0, "undefined code consumes no bits (bit-buffer accounting independent of stale contents)");
                }
        }
        VREACHED();
}
VERIF_MAIN
