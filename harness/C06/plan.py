from vlib.core import Query, Plan
from harness.inflate_common import plans as P


def plan(tier, ctx):
    qs = []
    quick = tier == "quick"
    ns = [1, 4, 5, 7, 10, 12] if quick else list(range(0, 13))
    aos = [0, 2, 8] if quick else list(range(0, 9))
    for n in ns:
        for ao in aos:
            core = (n, ao) in ((10, 2), (7, 8))
            qs.append(P.stored_query("C06", n, ao, False, core=core, witness=core))
    return Plan("C06", "model_checking", qs,
                functions_encoded=["isal_inflate_stateless (driver loop, crc_flag=ISAL_DEFLATE)", "read_header",
                                   "decode_literal_block", "inflate_in_load", "inflate_in_read_bits"],
                bounds={}, stubs=[], assumptions=[], outside=[])
