from vlib.core import Plan
from harness.inflate_common import plans as P


def plan(tier, ctx):
    qs = []
    quick = tier == "quick"
    # (a) stored blocks through the real isal_inflate_stateless, arbitrary bytes
    ns = [1, 4, 5, 7, 10, 12] if quick else list(range(0, 13))
    aos = [0, 2, 8] if quick else list(range(0, 9))
    for n in ns:
        for ao in aos:
            core = (n, ao) in ((10, 2), (7, 8))
            qs.append(P.stored_query("C06", n, ao, False, core=core, witness=core))
    # (c) over-subscription detection, dynamic-header HLIT/HDIST rejection
    for nsym in ([2, 3, 4] if quick else list(range(1, 9))):
        qs.append(P.setcodes_query(nsym, core=(nsym == 3), witness=(nsym == 3), timeout=(None if quick else 2400)))
    qs.append(P.dynprefix_query())
    # (d) distance lookup-table builder on concrete code-length shapes with ARBITRARY previous table contents:
    #     undefined codes must decode as invalid regardless of stale state (3-7 s each)
    shapes = P.MKDIST_SHAPES
    for i, lens in enumerate(shapes):
        if quick and i % 2 == 1 and i not in (1, 9):
            continue
        qs.append(P.mkdist_query(i, lens, core=(i == 4), witness=(i == 4)))
    # (b) fixed-Huffman block decoder unit on arbitrary bytes
    if quick:
        fixed = [(1, 0), (1, 3), (2, 3)]
    else:
        fixed = [(n, ao) for n in (1, 2) for ao in (0, 1, 2, 3, 16)] + [(3, 3), (3, 0), (3, 16), (4, 3)]
    for (n, ao) in fixed:
        qs.append(P.fixed_query("C06", n, ao, False, core=False, witness=(not quick and (n, ao) == (2, 3)),
                                timeout=(600 if quick else 2400), mem_gb=(None if quick else 24)))
    # (f) (lead) the "is this ISA-L's default header?" shortcut: yes exactly for a bit-exact copy
    for ril in ([5, 13, 6] if quick else [5, 13, 61, 6, 0, 12]):
        qs.append(P.pregen_query(ril, witness=(ril == 5)))
    # (e) (lead) engine C: the ASSEMBLY decoders decode_huffman_code_block_stateless_01/_04, lifted to C at check time
    #     (vlib/x86lift.py), under the same oracle.  Measured (loaded machine): n=1, ao=3: 317 s, 5.9 M variables, 6 GB.
    asm = [("04", 1, 0, 3)] if quick else [(v, 1, 0, ao) for v in ("04", "01") for ao in (0, 3, 8)]
    for (v, n, pad, ao) in asm:
        qs.append(P.asmdec_query(v, n, pad, ao, False, unwind=4, timeout=(900 if quick else 2400), mem_gb=16, witness=(not quick and v == "04" and ao == 3)))
    return Plan("C06", "model_checking", qs,
                functions_encoded=P.FUNCS, bounds=P.bounds(False), stubs=P.STUBS,
                assumptions=P.ASSUMPTIONS + ["flavour: arbitrary bytes (no validity assumption)"],
                outside=P.OUTSIDE + ["streaming isal_inflate: END_INPUT roll-back and resumption with more input (read_header_stateful)",
                                     "termination beyond the unwinding bounds derived from the input length (asserted, not assumed)"],
                trusted_base=["cbmc 6.11 C front end + SAT back end", "spec/rfc1951.h (self-tested against zlib)"])
