/* C11 (producer side, unit level): write_trailer() of igzip/igzip.c from an arbitrary bit-buffer
 * state writes, after the pending bits (plus the empty final static block 0x003/10 bits if no
 * end-of-block header was emitted yet) padded to a byte boundary,
 *      gzip:  CRC32 || ISIZE(total_in), both least-significant byte first   (RFC 1952 2.3.1)
 *      zlib:  ADLER32 most-significant byte first, finalised from B|(A-1)   (RFC 1950 2.2)
 * Concrete per query: BC (m_bit_count), EOB (has_eob_hdr), AO (avail_out; the output object has
 * exactly AO bytes), MODE (gzip_flag).  Symbolic: m_bits (low BC bits), crc, total_in, total_out,
 * previous output contents.
 */
#include "verif.h"
#include "rfc1950_1952.h"
#include "igzip_lib.h"

void verif_write_trailer(struct isal_zstream *stream);

#define NZ(x) ((x) > 0 ? (x) : 1)
#define IS_GZ (MODE == IGZIP_GZIP || MODE == IGZIP_GZIP_NO_HDR)
#define IS_Z  (MODE == IGZIP_ZLIB || MODE == IGZIP_ZLIB_NO_HDR)
#define TLEN  (IS_GZ ? 8 : (IS_Z ? 4 : 0))
#define NBITS (BC + (EOB ? 0 : 10))
#define KB    ((NBITS + 7) / 8)

struct inputs {
        uint64_t m_bits;
        uint32_t crc, total_in, total_out;
        uint8_t out0[NZ(AO)];
};
DECLARE_INPUTS

static struct isal_zstream strm;

void
harness(void)
{
        VERIF_INPUTS();
        uint8_t out_a[NZ(AO)];
        uint8_t *out = AO > 0 ? out_a : out_a + 1;
        uint8_t expect[8 + 8 + 8];
        uint32_t i, n;
        struct isal_zstate *zs = &strm.internal_state;

        for (i = 0; i < AO; i++)
                out_a[i] = I.out0[i];
        /* bit buffer invariant (bitbuf2.h: m_bits |= code << m_bit_count): nothing above m_bit_count */
        VASSUME(BC == 64 || (I.m_bits >> BC) == 0);
#if IS_Z
        VASSUME((I.crc & 0xffff) < 65521 && (I.crc >> 16) < 65521); /* running Adler stored as B|(A-1) */
#endif
        strm.next_out = out;
        strm.avail_out = AO;
        strm.total_out = I.total_out;
        strm.total_in = I.total_in;
        strm.gzip_flag = MODE;
        zs->bitbuf.m_bits = I.m_bits;
        zs->bitbuf.m_bit_count = BC;
        zs->has_eob_hdr = EOB;
        zs->crc = I.crc;
        zs->state = ZSTATE_TRL;

        /* expected byte string */
        {
                /* up to 63+10 pending bits: assemble in two 64-bit halves */
                uint64_t lo = I.m_bits, hi = 0;
#if !EOB
                lo |= BC < 64 ? ((uint64_t) 0x003 << BC) : 0;
                hi = BC > 54 ? ((uint64_t) 0x003 >> (64 - BC)) : 0;
#endif
                for (i = 0; i < KB; i++)
                        expect[i] = i < 8 ? (uint8_t) (lo >> (8 * i)) : (uint8_t) (hi >> (8 * (i - 8)));
#if IS_GZ
                spec_gz_trailer_build(expect + KB, I.crc, I.total_in);
#elif IS_Z
                spec_be32_build(expect + KB, (I.crc & 0xffff0000u) | (((I.crc & 0xffffu) + 1u) % 65521u));
#endif
        }

        verif_write_trailer(&strm);

        n = (uint32_t) (strm.next_out - out);
        VASSERT(strm.next_out >= out && n <= AO, "next_out stays inside the output buffer");
        VASSERT(strm.avail_out == AO - n && strm.total_out == (uint32_t) (I.total_out + n), "avail_out / total_out account for the bytes written");
        VASSERT(strm.total_in == I.total_in && zs->crc == I.crc, "total_in / crc untouched");
        if (zs->state == ZSTATE_END) {
                VASSERT(n == KB + TLEN, "finished: pending bits padded to a byte, then the whole trailer");
                for (i = 0; i < KB + TLEN; i++)
                        VASSERT(out[i] == expect[i], "finished: bytes == pending bits || crc32,isize LE (gzip) / adler32 BE (zlib)");
                VASSERT(zs->bitbuf.m_bit_count == 0, "finished: bit buffer empty");
        } else {
                VASSERT(zs->state == ZSTATE_TRL, "not finished: still in the trailer state");
                VASSERT(n <= KB, "not finished: no trailer byte emitted");
                for (i = 0; i < AO; i++)
                        if (i < n)
                                VASSERT(out[i] == expect[i], "not finished: bytes written so far are a prefix of the expected string");
                VASSERT(AO < KB + TLEN + 8, "enough space (pending bytes + trailer + 8 bytes slop) => finished");
        }
        VREACHED();
}
VERIF_MAIN
