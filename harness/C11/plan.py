"""C11 (checksum trailers): the verifier of igzip_inflate.c from an arbitrary decoder state, and the
unit-level producer write_trailer() of igzip.c.

Families
  trl_done     isal_inflate() entered with block_state ISAL_BLOCK_INPUT_DONE (all output flushed):
               update_checksum(len 0) -> crc_flag dispatch -> finalize_adler32 -> check_*_checksum
  trl_check    isal_inflate() entered with block_state ISAL_CHECKSUM_CHECK (re-entry)
  trl_two      a first call that lacks trailer bytes followed by a second call (end-to-end)
  trl_noverify the modes without trailer verification (ISAL_DEFLATE, *_NO_HDR)
  wtrailer     write_trailer(): pending bits || crc32,isize LE / adler32 BE
"""
from concurrent.futures import ThreadPoolExecutor

from vlib.core import Query, Plan

R = "vlib.cbmc:cbmc_query"
HT = "harness/C11/h_trailer.c"
HWT = "harness/C11/h_wtrailer.c"
CRC = ["crc/crc_base.c", "crc/crc_base_aliases.c", "crc/crc64_base.c"]
# harness/C11/u_deflate.c == igzip/igzip.c + a door to static write_trailer(); linked instead of igzip.c
VU = ["harness/C11/u_deflate.c", "harness/C19/link_stubs.c"]
U_T = ["igzip/igzip_inflate.c", "igzip/hufftables_c.c", "igzip/adler32_base.c"] + CRC
U_W = ["igzip/hufftables_c.c", "igzip/adler32_base.c"] + CRC
FLAGS = ["--max-field-sensitivity-array-size", "400"]
GZ, GZ_NV, Z, Z_NV = 1, 6, 3, 5  # ISAL_GZIP, ISAL_GZIP_NO_HDR_VER, ISAL_ZLIB, ISAL_ZLIB_NO_HDR_VER


def _prepare(ctx):
    from vlib import cbmc
    cd = ctx.as_dict()
    jobs = ["%s/igzip/igzip_inflate.c" % ctx.repo, "%s/harness/C11/u_deflate.c" % ctx.verif]
    with ThreadPoolExecutor(max_workers=2) as ex:
        res = list(ex.map(lambda s: cbmc.gb_for(cd, s, []), jobs))
    return {"prebuilt_units": [bool(r[0]) for r in res]}


def tlen(mode):
    return 8 if mode in (GZ, GZ_NV) else 4


def plan(tier, ctx):
    quick = tier == "quick"
    qs = []
    seen = set()

    def add(fam, mode, ril, tmp, avail, entry_check=False, split2=None, core=False):
        qid = "%s/m%d/ril%d_tmp%d_in%d%s" % (fam, mode, ril, tmp, avail, "" if split2 is None else "_then%d" % split2)
        if qid in seen:
            return
        seen.add(qid)
        hd = ["MODE=%d" % mode, "RIL=%d" % ril, "TMP=%d" % tmp, "AVAIL=%d" % avail]
        if entry_check:
            hd.append("ENTRY_CHECK")
        if split2 is not None:
            hd.append("SPLIT2=%d" % split2)
        wit = quick or core or (len(qs) % 4 == 0)
        qs.append(Query(qid, R, dict(harness=HT, units=U_T, vunits=VU, hdefines=hd, unwind=20, flags=FLAGS, witness=wit),
                        core=core, family=fam))

    # ---- first arrival (tmp_in_size == 0: invariant, see assumptions)
    if quick:
        rils = [0, 7, 8, 9, 31, 32, 63, 64]
        avs = [0, 4, 8]
    else:
        rils = list(range(0, 65))
        avs = list(range(0, 11))
    for mode in (GZ, Z):
        for ril in rils:
            for av in avs:
                add("trl_done", mode, ril, 0, av,
                    core=((ril, av) in ((0, 8), (0, 4), (9, 4), (64, 0), (32, 0))))
    for mode in (GZ_NV, Z_NV):
        t = tlen(mode)
        for ril in ([0, 8 * t - 1, 64] if quick else [0, 3, 8, 9, 8 * t - 8, 8 * t - 1, 8 * t, 8 * t + 1, 63, 64]):
            if ril > 64:
                continue  # read_in_length is at most 64
            for av in ([0, t] if quick else [0, 1, t - 1, t, t + 1, 10]):
                add("trl_done", mode, ril, 0, av)

    # ---- re-entry: fewer than 8 bits in the bit buffer, 0..T-1 bytes saved
    for mode in ((GZ, Z) if quick else (GZ, Z, GZ_NV, Z_NV)):
        t = tlen(mode)
        full = mode in (GZ, Z)
        for ril in ([5] if quick else ([0, 5] if not full else [0, 3, 7])):
            for tmp in ([0, 1, t - 1] if quick or not full else range(0, t)):
                if quick or not full:
                    cand = [0, 1, t - tmp - 1, t - tmp, t - tmp + 1]
                else:
                    cand = range(0, 11)
                for av in sorted({a for a in cand if 0 <= a <= 10}):
                    add("trl_check", mode, ril, tmp, av, entry_check=True, core=(full and ril in (0, 5) and tmp == 1 and av == t - 1))

    # ---- two calls end-to-end
    for mode in (GZ, Z):
        t = tlen(mode)
        for ril in ([5, 8] if quick else [0, 5, 8, 13, 21, 24, 8 * t - 8, 8 * t - 1]):
            for av in ([0, 2] if quick else [0, 1, 2, 3, 5]):
                have = ril // 8 + av
                if have >= t:
                    continue
                for s2 in sorted({t - have - 1, t - have, t - have + 2} if quick else set(range(0, t - have + 2))):
                    if s2 < 0:
                        continue
                    add("trl_two", mode, ril, 0, av, split2=s2, core=(ril == 5 and av == 2 and s2 == t - have))
    # ---- modes without verification
    for mode in (0, 2, 4):
        for ril in ((13,) if quick else (0, 13, 64)):
            for av in (0, 5):
                add("trl_noverify", mode, ril, 0, av, core=(ril == 13 and av == 5))

    # ---- write_trailer
    for mode in (0, 1, 2, 3, 4):
        t = 8 if mode in (1, 2) else (4 if mode in (3, 4) else 0)
        for eob in (0, 1):
            if quick and mode in (0, 2, 4) and not eob:
                continue
            for bc in (([0, 7] if mode in (1, 3) else [7]) if quick else list(range(0, 17)) + [31, 32, 47, 53]):
                if not eob and bc > 54:
                    continue
                kb = (bc + (0 if eob else 10) + 7) // 8
                if quick:
                    aos = {8, kb + t + 7, kb + t + 8}
                else:
                    aos = set(range(0, kb + t + 10)) | {32}
                for ao in sorted(aos):
                    qid = "wtrailer/m%d/eob%d_bc%d_ao%d" % (mode, eob, bc, ao)
                    core = (mode in (1, 3) and bc == 7 and ao == kb + t + 8)
                    wit = quick or core or (len(qs) % 4 == 0)
                    qs.append(Query(qid, R, dict(harness=HWT, units=U_W, vunits=VU,
                                                 hdefines=["MODE=%d" % mode, "EOB=%d" % eob, "BC=%d" % bc, "AO=%d" % ao],
                                                 unwind=40, flags=FLAGS, witness=wit), core=core, family="wtrailer"))

    return Plan(
        "C11", "model_checking", qs,
        functions_encoded=["isal_inflate (entry with block_state INPUT_DONE / CHECKSUM_CHECK: tmp_out flush arithmetic, "
                           "update_checksum with length 0, crc_flag dispatch, return-code mapping)",
                           "check_gzip_checksum", "check_zlib_checksum", "finalize_adler32", "fixed_size_read",
                           "update_checksum (inflate)", "crc32_gzip_refl_base / isal_adler32_bam1 / adler32_base on length 0",
                           "write_trailer", "bitbuf2.h set_buf/write_bits/flush_bits/flush/is_full", "unaligned.h stores/loads"],
        bounds={
            "verifier": "read_in (64 bits), saved bytes, input bytes, crc, total_out symbolic; sizes concrete: first arrival "
                        "read_in_length 0..64 x avail_in 0..10 with tmp_in_size 0 [quick: 8 x 3]; re-entry read_in_length "
                        "{0,3,7} x tmp_in_size 0..T-1 x avail_in 0..10 [quick: boundary subset]; crc_flag GZIP, ZLIB in full, "
                        "*_NO_HDR_VER on boundary sizes, DEFLATE/GZIP_NO_HDR/ZLIB_NO_HDR: no verification, 6 sizes each",
            "two_call": "first call short by 1..T bytes, second call delivers 0..missing+1 bytes",
            "write_trailer": "m_bit_count 0..16,31,32,47,53 [quick 0,7], has_eob_hdr 0/1, gzip_flag 0..4, avail_out 0..needed+9 "
                             "[quick 3 values]; m_bits, crc, total_in, previous output symbolic",
        },
        stubs=["strnlen/memcpy models of harness/C19/link_stubs.c (memcpy: typed copy for n in {2,4,8}, byte loop otherwise)",
               "assert-false link stubs for the compression kernels and decode_huffman_code_block_stateless (unreachable here)",
               "isal_adler32 := adler32_base (as igzip_base_aliases.c); crc32_gzip_refl := crc32_gzip_refl_base (real "
               "crc_base_aliases.c), both only ever called with length 0 in these harnesses"],
        assumptions=["first arrival at the trailer has tmp_in_size == 0 (read_header_stateful resets it whenever a block header "
                     "completes; the wrapper readers reset it in fixed_size_read) and re-entry has read_in_length < 8 (established "
                     "by the first call: asserted as its post-state) - states with both saved bytes and whole bytes in the bit "
                     "buffer are unreachable and not swept (there the code would order saved bytes BEFORE bit-buffer bytes)",
                     "running Adler-32 state is B|(A-1) with both halves < 65521 (igzip.c isal_adler32_bam1)",
                     "all decompressed output already flushed: tmp_out_valid == tmp_out_processed == 0, no pending overflow copy",
                     "write_trailer: no bit of m_bits above m_bit_count (bitbuf2.h invariant); m_bit_count <= 54 when the final "
                     "empty block still has to be written"],
        outside=["how crc/total_out came about (delivered bytes are abstracted by the symbolic running crc/total_out): C02/C04/C07",
                 "corruption of Huffman-coded bodies end-to-end",
                 "producer side beyond write_trailer (isal_deflate chunking: C01/C07 harnesses)",
                 "isal_inflate_stateless trailer path (read_in_length is reset to 0 before the check there; the check functions "
                 "are the same)",
                 "three or more calls inside one trailer (follows by induction from the single-call pre/post conditions)"],
        trusted_base=["cbmc 6.11 C front end + SAT back end", "spec/rfc1950_1952.h trailer layout"],
        prepare=_prepare,
        extra={"exhaustive": False})
