/* igzip/igzip.c as one translation unit plus an external door to its static write_trailer().
 * Linked INSTEAD of igzip/igzip.c (never together).  Nothing of igzip.c is changed or stubbed. */
#include "igzip.c"

void
verif_write_trailer(struct isal_zstream *stream)
{
        write_trailer(stream);
}
