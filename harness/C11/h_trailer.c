/* C11 (verifier side): the gzip / zlib trailer check of igzip/igzip_inflate.c, reached through the
 * public isal_inflate():
 *   ENTRY_DONE   first arrival: block_state == ISAL_BLOCK_INPUT_DONE with all output flushed
 *                -> update_checksum(len 0), crc_flag dispatch, finalize_adler32,
 *                   check_gzip_checksum / check_zlib_checksum
 *   ENTRY_CHECK  re-entry: block_state == ISAL_CHECKSUM_CHECK (a previous call ran out of input
 *                inside the trailer) -> check_*_checksum again
 * from an ARBITRARY decoder state: symbolic read_in (all 64 bits), saved bytes in tmp_in_buffer,
 * input bytes, running crc, total_out.  The three SIZES are concrete per query (swept by plan.py):
 *   RIL  = read_in_length (bits in the bit buffer, 0..64)
 *   TMP  = tmp_in_size    (bytes saved by an earlier call)
 *   AVAIL= avail_in       (the input object has exactly this size)
 *   MODE = crc_flag (ISAL_DEFLATE .. ISAL_GZIP_NO_HDR_VER)
 * Optional SPLIT2 = n: after a first call that lacked bytes, a second call delivers n further
 * bytes (two-call end-to-end check; the general multi-call claim follows by induction from the
 * single-call queries: ENTRY_DONE/ENTRY_CHECK post-state when bytes are missing == ENTRY_CHECK
 * pre-state).
 *
 * Oracle (RFC 1952 2.3.1 / RFC 1950 2.2, spec/rfc1950_1952.h): the trailer is the byte string
 *     whole bytes still in the bit buffer (after dropping the RIL%8 bits that complete the last
 *     deflate byte), then the saved bytes, then the input bytes
 * and must equal CRC32 LSB-first || ISIZE LSB-first (gzip) resp. ADLER32 MSB-first (zlib).
 */
#include "verif.h"
#include "rfc1950_1952.h"
#include "igzip_lib.h"

#define NZ(x) ((x) > 0 ? (x) : 1)
#ifndef SPLIT2
#define SPLIT2 -1
#endif
#define IS_GZ   (MODE == ISAL_GZIP || MODE == ISAL_GZIP_NO_HDR_VER)
#define IS_Z    (MODE == ISAL_ZLIB || MODE == ISAL_ZLIB_NO_HDR_VER)
#define VERIFY  (IS_GZ || IS_Z)
#define ADLER   (IS_Z || MODE == ISAL_ZLIB_NO_HDR)
#define TLEN    (IS_GZ ? 8 : 4)
#define BB      (RIL / 8)
#define TOTAL   (BB + TMP + AVAIL)
#define IN2     (SPLIT2 > 0 ? SPLIT2 : 0)

struct inputs {
        uint64_t read_in;
        uint32_t crc, total_out;
        uint8_t saved[NZ(TMP)];
        uint8_t in[NZ(AVAIL)];
        uint8_t in2[NZ(IN2)];
        uint8_t tmp_rest[8]; /* junk after the saved bytes in tmp_in_buffer */
};
DECLARE_INPUTS

static struct inflate_state st;

void
harness(void)
{
        VERIF_INPUTS();
        uint8_t in_a[NZ(AVAIL)], in2_a[NZ(IN2)], out[4];
        uint8_t *in = AVAIL > 0 ? in_a : in_a + 1; /* empty input: one-past pointer, nothing readable */
        uint8_t *in2 = IN2 > 0 ? in2_a : in2_a + 1;
        uint8_t have[NZ(TOTAL + IN2)], expect[8];
        uint32_t i, crc_final;
        int ret;

        for (i = 0; i < AVAIL; i++)
                in_a[i] = I.in[i];
        for (i = 0; i < IN2; i++)
                in2_a[i] = I.in2[i];

        isal_inflate_init(&st);
        st.crc_flag = MODE;
        st.wrapper_flag = 1; /* header already parsed (ISAL_GZIP / ISAL_ZLIB); ignored otherwise */
#ifdef ENTRY_CHECK
        st.block_state = ISAL_CHECKSUM_CHECK;
#else
        st.block_state = ISAL_BLOCK_INPUT_DONE;
#endif
        st.read_in = I.read_in; /* all 64 bits arbitrary, also those above read_in_length */
        st.read_in_length = RIL;
        st.tmp_in_size = TMP;
        for (i = 0; i < TMP; i++)
                st.tmp_in_buffer[i] = I.saved[i];
        for (i = 0; i < 8; i++)
                st.tmp_in_buffer[TMP + i] = I.tmp_rest[i];
        st.crc = I.crc;
        st.total_out = I.total_out;
        st.next_in = in;
        st.avail_in = AVAIL;
        st.next_out = out;
        st.avail_out = 4;

        /* representation invariant of the running Adler-32 (igzip.c isal_adler32_bam1: "stored as
         * B | (A-1)", both halves reduced mod 65521); after finalisation any Adler value */
#if ADLER && !defined(ENTRY_CHECK)
        VASSUME((I.crc & 0xffff) < 65521 && (I.crc >> 16) < 65521);
        crc_final = (I.crc & 0xffff0000u) | (((I.crc & 0xffffu) + 1u) % 65521u); /* s2*65536 + s1 */
#else
        crc_final = I.crc;
#endif

        /* the trailer bytes the decoder has been given so far, in stream order */
        for (i = 0; i < BB; i++)
                have[i] = (uint8_t) (I.read_in >> ((RIL % 8) + 8 * i));
        for (i = 0; i < TMP; i++)
                have[BB + i] = I.saved[i];
        for (i = 0; i < AVAIL; i++)
                have[BB + TMP + i] = I.in[i];
        for (i = 0; i < IN2; i++)
                have[TOTAL + i] = I.in2[i];
#if IS_GZ
        spec_gz_trailer_build(expect, crc_final, I.total_out);
#else
        spec_be32_build(expect, crc_final);
#endif

        ret = isal_inflate(&st);

        VASSERT(st.next_out == out && st.avail_out == 4, "no output produced");
        VASSERT(st.total_out == I.total_out, "total_out unchanged");
        VASSERT(st.crc == crc_final, "state.crc = checksum of the delivered bytes (Adler-32 finalised from B|(A-1))");
#if !VERIFY
        VASSERT(ret == ISAL_DECOMP_OK && st.block_state == ISAL_BLOCK_FINISH, "no trailer verification in this mode: finished");
        VASSERT(st.next_in == in && st.avail_in == AVAIL && st.read_in_length == RIL && st.tmp_in_size == TMP, "no input consumed");
#else
        int match = 1;
        int complete = TOTAL >= TLEN;
        if (TOTAL >= TLEN) {
                for (i = 0; i < TLEN; i++)
                        if (have[i] != expect[i])
                                match = 0;
                VASSERT(ret == (match ? ISAL_DECOMP_OK : ISAL_INCORRECT_CHECKSUM),
                        "ISAL_DECOMP_OK <=> trailer == crc32||isize (LSB first) resp. adler32 (MSB first); else ISAL_INCORRECT_CHECKSUM");
                VASSERT(st.block_state == ISAL_BLOCK_FINISH, "trailer complete: ISAL_BLOCK_FINISH");
                /* input consumed: exactly the trailer bytes not already buffered */
                uint32_t used = TLEN > BB + TMP ? TLEN - BB - TMP : 0;
                VASSERT(st.next_in == in + used && st.avail_in == AVAIL - used, "exactly the missing trailer bytes consumed");
        } else {
                VASSERT(ret == ISAL_DECOMP_OK, "trailer incomplete: isal_inflate reports ISAL_DECOMP_OK (ISAL_END_INPUT inside)");
                VASSERT(st.block_state == ISAL_CHECKSUM_CHECK, "trailer incomplete: state ISAL_CHECKSUM_CHECK");
                VASSERT(st.next_in == in + AVAIL && st.avail_in == 0, "trailer incomplete: all input consumed");
                VASSERT(st.tmp_in_size == TOTAL, "trailer incomplete: every byte so far is saved");
                for (i = 0; i < TOTAL; i++)
                        VASSERT(st.tmp_in_buffer[i] == have[i], "saved bytes are the trailer bytes so far, in order");
                VASSERT(st.read_in_length >= 0 && st.read_in_length < 8, "no whole byte left in the bit buffer");
#if SPLIT2 >= 0
                /* second call with SPLIT2 further bytes */
                st.next_in = in2;
                st.avail_in = IN2;
                ret = isal_inflate(&st);
                VASSERT(st.crc == crc_final && st.total_out == I.total_out, "second call: crc/total_out unchanged");
                if (TOTAL + IN2 >= TLEN) {
                        match = 1;
                        for (i = 0; i < TLEN; i++)
                                if (have[i] != expect[i])
                                        match = 0;
                        VASSERT(ret == (match ? ISAL_DECOMP_OK : ISAL_INCORRECT_CHECKSUM), "second call: same verdict as a one-shot delivery");
                        VASSERT(st.block_state == ISAL_BLOCK_FINISH, "second call: finished");
                        VASSERT(st.next_in == in2 + (TLEN - TOTAL) && st.avail_in == IN2 - (TLEN - TOTAL), "second call: exactly the missing bytes consumed");
                } else {
                        VASSERT(ret == ISAL_DECOMP_OK && st.block_state == ISAL_CHECKSUM_CHECK && st.avail_in == 0 && st.tmp_in_size == TOTAL + IN2,
                                "second call: still incomplete");
                }
#endif
        }
        (void) complete;
#endif
        VREACHED();
}
VERIF_MAIN
