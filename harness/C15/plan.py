from vlib.core import Plan, Query
from vlib.x86sym import loader
from harness.C16.x86 import MB_FILES

try:
    from harness.C15.cbmc_plan import cbmc_queries
except Exception:
    cbmc_queries = None


def plan(tier, ctx):
    qs = []
    for key, rel in MB_FILES.items():
        img = loader.build_image(ctx.repo, [rel], ctx.scratch, with_stubs=True)
        for fn in sorted(s[:-len("_dispatched")] for s in img.symbols if s.endswith("_dispatched")):
            qs.append(Query("resolver-purity/%s/%s" % (key, fn), "harness.C15.x86:purity_query", dict(file=key, fn=fn), core=True, family="resolver-purity/" + key))
    qs.append(Query("library-writable-objects", "harness.C15.x86:writable_objects_query", {}, core=True, family="library-writable-objects"))
    # a few kernels per family re-run with the store monitor: writes only to caller-declared destinations and the own stack frame
    qs.append(Query("kernel-writes/zero", "harness.C20.x86:zero_query", dict(variant="avx2", lens=[0, 1, 31, 64, 200], offsets=[0, 5]), family="kernel-writes"))
    qs.append(Query("kernel-writes/pq_gen", "harness.C08.x86:raid_query", dict(kernel="pq_gen_avx2", cases=[[5, 64, 0], [6, 128, 32]]), family="kernel-writes"))
    qs.append(Query("kernel-writes/ec", "harness.ec_common.x86ec:ec_query", dict(kind="mad", nv=3, isa="avx512", cases=[[2, 70, 1, 0], [3, 129, 0, 1]]), family="kernel-writes"))
    qs.append(Query("kernel-writes/crc", "harness.C04.x86:crc_query", dict(kernel="crc32_gzip_refl_by8_02", cases=[[n, 1] for n in (0, 5, 40, 300)]), family="kernel-writes"))
    fe = ["all 42 <fn>_dispatch_init resolvers (machine code): stores, stored value's dependencies, register preservation",
          "store sets of representative kernels (complete sweep: C05)"]
    bounds = {"x86": "every path of every resolver with ALL caller registers symbolic; CPUID/XGETBV results symbolic"}
    stubs, ass, outside = [], [], []
    if cbmc_queries:
        cq, ci = cbmc_queries(tier)
        qs += cq
        fe += ci.get("functions_encoded", [])
        bounds["cbmc"] = ci.get("bounds", {})
        stubs += ci.get("stubs", [])
        ass += ci.get("assumptions", [])
        outside += ci.get("outside", [])
    return Plan("C15", "model_checking", qs, engine="x86sym + cbmc-c", functions_encoded=fe, bounds=bounds, stubs=stubs,
                assumptions=["an aligned 8-byte store is single-copy atomic on x86-64 (SDM vol. 3 §8.1.1)",
                             "thread safety is ARGUED from solver-established facts (only library write = one atomic store of a CPUID-determined value; kernels write only caller memory and their own stack), interleavings are not explored"] + ass,
                outside=["actual thread interleavings", "level buffers / levels 1-3", "the page-protection experiment named in the property (a dynamic technique)"] + outside,
                trusted_base=["vlib/x86sym", "z3", "cbmc"])
