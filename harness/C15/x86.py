"""C15 (assembly side): the one-time implementation selection is the library's only write to its own data, it is a
single aligned 8-byte store whose value is a function of CPUID/XGETBV results only, and the resolver preserves every
register — so concurrent first calls store the same value and cannot tear."""
import os
import time
import z3
from z3 import z3util
from vlib.core import HOLDS, VIOLATED, UNDECIDED, ERROR
from vlib.x86sym import loader, bv
from vlib.x86sym.interp import Exec
from vlib.x86sym.machine import Violation, Unsupported
from vlib.x86sym.runner import Setup, smt_check
from harness.C16.x86 import MB_FILES, Cfg


def purity_query(qid, params, ctx):
    fn = params["fn"]
    t0 = time.time()
    try:
        img = loader.build_image(ctx["repo"], [MB_FILES[params["file"]]], ctx["scratch"], with_stubs=True)
        cfg = Cfg()
        solver = z3.SolverFor("QF_BV")
        ex = Exec(img, solver)
        allowed = set()
        for d in (cfg.l0, cfg.l1, cfg.l7, cfg.ext):
            allowed |= {v.get_id() for v in d.values()}
        allowed |= {cfg.xcr0.get_id(), cfg.xcr0_hi.get_id()}

        def cpuid_model(st, leaf, sub):
            d = {1: cfg.l1, 7: cfg.l7, 0: cfg.l0, 0x80000001: cfg.ext}.get(leaf)
            if d is None:
                d = cfg.other.setdefault((leaf, sub), {r: z3.BitVec("cpuid%x_%s_%s" % (leaf, sub, r), 32) for r in ("eax", "ebx", "ecx", "edx")})
                for v in d.values():
                    allowed.add(v.get_id())
            return d["eax"], d["ebx"], d["ecx"], d["edx"]
        ex.cpuid_model = cpuid_model
        ex.xgetbv_model = lambda st, i: (cfg.xcr0, cfg.xcr0_hi)
        s = Setup(img, fn + "_dispatch_init")
        s.args = []
        disp = img.symbols[fn + "_dispatched"]
        s.region("dispatched_cell", 8, r=True, w=True, init=[img.data[disp + i] for i in range(8)])
        s.regions[-1]["base"] = disp
        st0 = s.initial_state()
        # every register holds an arbitrary (symbolic) caller value: the resolver runs in front of the real call
        regsyms = {}
        for r_ in st0.r:
            if r_ != "rsp":
                regsyms[r_] = z3.BitVec("caller_" + r_, 64)
                st0.r[r_] = regsyms[r_]
        st0.mem.log = []
        finals = ex.run(st0)
        stats = {"paths": len(finals), "variables": ex.n_insns, "clauses": 0}
        if disp % 8:
            return {"status": VIOLATED, "detail": "%s_dispatched is not 8-byte aligned (0x%x): the pointer store could tear" % (fn, disp), "cex": None, "replay_ok": None}
        for st, out in finals:
            if isinstance(out, Violation):
                return {"status": VIOLATED, "detail": "resolver %s: %s at %r" % (fn, out, out.insn), "cex": None, "replay_ok": None, "stats": stats}
            stores = [e for e in st.mem.log if not (e[1] >= 0x7FFE00000000)]
            if len(stores) != 1 or stores[0][1] != disp or stores[0][2] != 8:
                return {"status": VIOLATED, "detail": "resolver %s: library data written other than by one 8-byte store to %s_dispatched: %s" % (fn, fn, stores[:4]),
                        "cex": None, "replay_ok": None, "stats": stats}
            ptr = bv.join_bytes([st.mem.b[disp + i] for i in range(8)])
            if not bv.is_c(ptr):
                bad = [str(v) for v in z3util.get_vars(ptr) if v.get_id() not in allowed]
                if bad:
                    return {"status": VIOLATED, "detail": "resolver %s: selected implementation depends on %s (not a CPUID/XGETBV result)" % (fn, bad),
                            "cex": None, "replay_ok": None, "stats": stats}
            for r_, sym in regsyms.items():
                v = st.r[r_]
                stats["clauses"] += 1
                if bv.is_c(v) or not v.eq(sym):
                    rr, m = smt_check(st.path + [bv.z(64, v) != sym])
                    if rr != z3.unsat:
                        return {"status": VIOLATED, "detail": "resolver %s does not preserve %s" % (fn, r_), "cex": None, "replay_ok": None, "stats": stats}
            # path condition itself depends only on CPUID/XGETBV
            for c in st.path:
                bad = [str(v) for v in z3util.get_vars(c) if v.get_id() not in allowed]
                if bad:
                    return {"status": VIOLATED, "detail": "resolver %s: control flow depends on %s" % (fn, bad), "cex": None, "replay_ok": None, "stats": stats}
    except Unsupported as e:
        return {"status": ERROR, "detail": "outside encodable class: %s" % e}
    return {"status": HOLDS, "stats": stats, "solver_time_s": time.time() - t0, "witness_ok": stats["paths"] > 0}


def writable_objects_query(qid, params, ctx):
    """Structural side condition of C15 read from the freshly built library objects (ELF symbol tables and
    disassembly; no solver involved): which objects does the library own in writable sections?
      (1) no zero-initialised writable object (.bss / COMMON) exists at all - such an object can only be mutable state;
      (2) no instruction of any C unit stores directly to an initialised writable object (.data symbol);
      (3) assembly units' .data labels are constant pools: engine B shows in every kernel query that no store hits
          image data (a store outside the caller-declared regions is a Violation), and the resolvers store only to
          their dispatch cell (purity queries)."""
    import re
    import subprocess
    from vlib.x86sym import libindex
    t0 = time.time()
    idx = libindex.build_index(ctx["repo"], ctx["scratch"])
    bss, cdata, cells, asmdata = [], [], 0, 0
    for obj, meta in idx["objects"].items():
        o = subprocess.run(["nm", "--defined-only", obj], stdout=subprocess.PIPE).stdout.decode()
        for l in o.splitlines():
            f = l.split()
            if len(f) != 3:
                continue
            if f[1] in "bBC":
                bss.append("%s:%s" % (meta["src"], f[2]))
            elif f[1] in "dD":
                if f[2].endswith("_dispatched"):
                    cells += 1
                elif meta["kind"] == "c":
                    cdata.append((obj, meta["src"], f[2]))
                else:
                    asmdata += 1
    if bss:
        return {"status": VIOLATED, "finding_key": "library-bss:" + ",".join(sorted(bss))[:120],
                "detail": "the library owns zero-initialised writable object(s) %s: mutable global state (shared by all threads/contexts)" % bss[:6],
                "cex": {"objects": bss}, "replay_ok": None}
    stores = []
    by_obj = {}
    for obj, src, sym in cdata:
        by_obj.setdefault(obj, []).append(sym)
    for obj, syms in by_obj.items():
        o = subprocess.run(["objdump", "-dr", "-M", "intel", obj], stdout=subprocess.PIPE).stdout.decode().splitlines()
        for i, line in enumerate(o):
            m = re.match(r"^\s*[0-9a-f]+:\s+R_X86_64_\w+\s+(\S+?)([-+]0x[0-9a-f]+)?$", line)
            if not m or m.group(1) not in syms and m.group(1) != ".data":
                continue
            # the instruction the relocation belongs to is the closest preceding disassembly line
            j = i - 1
            while j >= 0 and not re.match(r"^\s*[0-9a-f]+:\t", o[j]):
                j -= 1
            ins = o[j].split("\t")[-1] if j >= 0 else ""
            mm = re.match(r"^(\w+)\s+(.*)$", ins.strip())
            if mm and mm.group(1) not in ("lea", "cmp", "test", "push", "call", "jmp") and re.match(r"^[A-Z]+ PTR \[rip", mm.group(2).split(",")[0].strip() if "," in mm.group(2) else ""):
                stores.append("%s: %s" % (os.path.basename(obj), ins.strip()))
    if stores:
        return {"status": VIOLATED, "finding_key": "library-data-store", "detail": "C code stores directly to a library-owned initialised object: %s" % stores[:4],
                "cex": {"stores": stores[:20]}, "replay_ok": None}
    return {"status": HOLDS, "stats": {"variables": len(idx["objects"]), "clauses": len(cdata) + cells + asmdata, "paths": 1},
            "solver_time_s": time.time() - t0, "witness_ok": cells > 0,
            "inventory": {"dispatch_cells": cells, "c_initialised_tables": sorted(s for _, _, s in cdata), "asm_constant_pool_labels": asmdata, "bss_objects": 0}}
