/* C15 (compression, 2-safety): the output of level-0 compression is a function of the documented inputs
 * only.  Two stream contexts are pre-filled with DIFFERENT arbitrary garbage in every scalar field of
 * struct isal_zstream / isal_zstate (and the first bytes of the internal buffer, staging buffer and hash
 * table), then initialised through the documented entry point and given the same parameters and the same
 * (symbolic) input.  Return code, total_in/total_out, every output byte and the final state must agree.
 *
 * MODE 0  isal_deflate_stateless_init + isal_deflate_stateless
 * MODE 1  isal_deflate_init + one isal_deflate call (end_of_stream = 1)
 * MODE 2  reset == fresh: context A compresses another input first, then isal_deflate_reset; context B is fresh
 * Concrete per query: N, WRAP, TABLE, FLUSH, AVAIL_OUT, class vector (twice: run A then run B; MODE 2: the
 * warm-up byte's class first).
 */
#include "harness/deflate_common/deflate_common.h"
#include "harness/deflate_common/deflate_shim.h"

#ifndef FLUSH
#define FLUSH 0
#endif

struct garb {
        uint32_t avail_in, total_in, avail_out, total_out, level, level_buf_size;
        uint16_t end_of_stream, flush, gzip_flag, hist_bits;
        uint32_t total_in_start, block_next, block_end, dist_mask, hash_mask, state, m_bit_count, crc, count, tmp_out_start,
                tmp_out_end, b_bytes_valid, b_bytes_processed;
        uint64_t m_bits;
        uint8_t has_wrap_hdr, has_eob_hdr, has_eob, has_hist;
        uint16_t has_level_buf_init;
        uint8_t tmp[16], buf[8];
        uint16_t head[8];
};

struct inputs {
        uint8_t data[N ? N : 1];
        uint8_t warm;
        struct garb g[2];
};
DECLARE_INPUTS

static struct isal_zstream CTX[2];

static void
pollute(struct isal_zstream *s, const struct garb *g)
{
        s->avail_in = g->avail_in;
        s->total_in = g->total_in;
        s->avail_out = g->avail_out;
        s->total_out = g->total_out;
        s->level = g->level;
        s->level_buf_size = g->level_buf_size;
        s->end_of_stream = g->end_of_stream;
        s->flush = g->flush;
        s->gzip_flag = g->gzip_flag;
        s->hist_bits = g->hist_bits;
        struct isal_zstate *z = &s->internal_state;
        z->total_in_start = g->total_in_start;
        z->block_next = g->block_next;
        z->block_end = g->block_end;
        z->dist_mask = g->dist_mask;
        z->hash_mask = g->hash_mask;
        z->state = (enum isal_zstate_state) g->state;
        z->bitbuf.m_bits = g->m_bits;
        z->bitbuf.m_bit_count = g->m_bit_count;
        z->crc = g->crc;
        z->has_wrap_hdr = g->has_wrap_hdr;
        z->has_eob_hdr = g->has_eob_hdr;
        z->has_eob = g->has_eob;
        z->has_hist = g->has_hist;
        z->has_level_buf_init = g->has_level_buf_init;
        z->count = g->count;
        z->tmp_out_start = g->tmp_out_start;
        z->tmp_out_end = g->tmp_out_end;
        z->b_bytes_valid = g->b_bytes_valid;
        z->b_bytes_processed = g->b_bytes_processed;
        for (int i = 0; i < 16; i++)
                z->tmp_out_buff[i] = g->tmp[i];
        for (int i = 0; i < 8; i++) {
                z->buffer[i] = g->buf[i];
                z->head[i] = g->head[i];
        }
}

static int
compress(struct isal_zstream *s, uint8_t *in, uint32_t n, uint8_t *out)
{
        s->gzip_flag = WRAP;
        s->flush = FLUSH;
        s->next_in = in;
        s->avail_in = n;
        s->next_out = out;
        s->avail_out = AVAIL_OUT;
#if MODE == 0
        return isal_deflate_stateless(s);
#else
        s->end_of_stream = 1;
        return isal_deflate(s);
#endif
}

static void
init(struct isal_zstream *s)
{
#if MODE == 0
        isal_deflate_stateless_init(s);
#else
        isal_deflate_init(s);
#endif
#if TABLE == 1
        isal_deflate_set_hufftables(s, (struct isal_hufftables *) 0, IGZIP_HUFFTABLE_STATIC);
#endif
}

void
harness(void)
{
        VERIF_INPUTS();
        uint8_t *in = malloc(N ? N : 1), *outA = malloc(AVAIL_OUT), *outB = malloc(AVAIL_OUT);
        if (!in || !outA || !outB)
                return;
        for (int i = 0; i < N; i++)
                in[i] = I.data[i];
        int ret[2];
        uint8_t *out[2] = { outA, outB };
        for (int k = 0; k < 2; k++) {
                struct isal_zstream *s = &CTX[k];
                pollute(s, &I.g[k]);
                init(s);
#if MODE == 2
                if (k == 0) { /* warm up: compress one other byte to the end, then reset */
                        uint8_t *w = malloc(1), *wo = malloc(AVAIL_OUT);
                        if (!w || !wo)
                                return;
                        w[0] = I.warm;
                        int r0 = compress(s, w, 1, wo);
                        VASSERT(r0 == COMP_OK && s->internal_state.state == ZSTATE_END, "warm-up stream finished");
                        isal_deflate_reset(s);
                }
#endif
                ret[k] = compress(s, in, N, out[k]);
        }
        struct isal_zstream *a = &CTX[0], *b = &CTX[1];
        VASSERT(ret[0] == ret[1], "same return code");
        VASSERT(ret[0] == COMP_OK, "ample space: success");
        VASSERT(a->total_out == b->total_out && a->total_in == b->total_in && a->avail_in == b->avail_in && a->avail_out == b->avail_out,
                "same counters");
        VASSERT(a->internal_state.state == b->internal_state.state, "same final state");
        VASSERT(a->total_out <= AVAIL_OUT, "bounded");
        for (uint32_t i = 0; i < AVAIL_OUT; i++)
                if (i < a->total_out)
                        VASSERT(outA[i] == outB[i], "same output bytes");
        VASSERT(a->hist_bits == b->hist_bits && a->level == b->level && a->gzip_flag == b->gzip_flag, "same parameter fields after the call");
        VREACHED();
}
VERIF_MAIN
