"""C15 (CBMC part): level-0 compression is deterministic in the documented inputs — 2-safety over two
contexts pre-filled with different arbitrary garbage (harness/C15/h_det.c)."""
import itertools
from vlib.core import Query
from harness.deflate_common import dflplan as D

H = "harness/C15/h_det.c"


def det_query(mode, n, wrap, table, cl, witness=False, core=False):
    cl = list(cl)
    classes = ([8] if mode == 2 else []) + cl + cl if table == 1 else []
    av = 64
    hdef = ["MODE=%d" % mode, "N=%d" % n, "WRAP=%d" % wrap, "TABLE=%d" % table, "FLUSH=0", "AVAIL_OUT=%d" % av,
            D.cdef("DFL_CLASSES", classes), D.cdef("DFL_CLASS_SET", D.STATIC_LIT_CLASSES)]
    extra = {"pollute.0": 17, "pollute.1": 9}
    for i in range(8):
        extra["harness.%d" % i] = av + 2
    qid = "DET/%s/%s/n%d/%s/c%s" % (("stateless_init", "deflate_init", "reset_vs_fresh")[mode], "static" if table else "default", n,
                                    D.WRAPS[wrap], "".join("%x" % c for c in cl) or "-")
    params = dict(harness=H, units=D.UNITS, vunits=D.VUNITS, hdefines=hdef, unwind=3,
                  unwindset=D.unwindset(max(n, 1), extra=extra, avail=av), witness=witness, flags=D.fs_flags(av), timeout=400)
    return Query(qid, D.R, params, core=core, family="DET", weight=8.0)


def cbmc_queries(tier):
    quick = tier == "quick"
    qs = []
    for mode in (0, 1, 2):
        for wrap in ((0, 3) if quick else (0, 1, 3)):
            for n in ((1, 2) if quick else (0, 1, 2)):
                # default table: stateless -> stored path; streaming default table (dynamic) only n = 0
                if mode == 0:
                    qs.append(det_query(mode, n, wrap, 0, [], witness=(n == 2 and wrap == 3), core=(n == 2 and wrap == 3)))
                vecs = list(itertools.product(D.STATIC_LIT_CLASSES, repeat=n))
                if quick and n == 2:
                    vecs = [vecs[(mode + wrap) % 4]]
                for cl in vecs:
                    qs.append(det_query(mode, n, wrap, 1, cl, witness=(n == 1 and cl == (8,)), core=(mode == 1 and n == 1 and wrap == 3 and cl == (9,))))
    info = dict(
        functions_encoded=["isal_deflate_stateless_init", "isal_deflate_init", "isal_deflate_reset", "isal_deflate_stateless", "isal_deflate (one call)"],
        bounds={"garbage": "every scalar field of isal_zstream/isal_zstate + 16 staging bytes + first 8 buffer bytes + first 8 hash heads: arbitrary and different in the two contexts",
                "input": "n <= 2 symbolic bytes, wrappers raw/zlib (gzip thorough), static table class vectors, default table (stateless/stored)", "level": 0},
        stubs=["wmemset, get_lit_code class split (see C01)"],
        assumptions=["garbage in the large arrays beyond their first 8 entries is not modelled (zero in both contexts)",
                     "pointer fields (next_in/next_out/level_buf/hufftables) are not polluted"],
        outside=["levels 1-3, level buffers", "inflate contexts", "garbage that makes the post-init state symbolic in control positions shows up as undecided, not as violation"])
    return qs, info
