from vlib.core import Plan
from harness.C20.x86_plan import x86_queries
def plan(tier, ctx):
    qs, info = x86_queries(tier)
    return Plan("C20", "model_checking", qs, engine="x86sym", **info)
