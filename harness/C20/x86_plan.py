from vlib.core import Query

R = "harness.C20.x86:zero_query"


def x86_queries(tier):
    qs = []
    if tier == "quick":
        maxlen, offs, chunk = 330, [0, 1, 15, 33, 63], 12
    else:
        maxlen, offs, chunk = 700, sorted(set(list(range(0, 64, 6)) + [1, 31, 63])), 6
    for var in ("sse", "avx", "avx2", "avx512"):
        lens = list(range(0, maxlen + 1))
        for i in range(0, len(lens), chunk):
            ls = lens[i:i + chunk]
            qs.append(Query("x86/%s/len%d-%d" % (var, ls[0], ls[-1]), R, dict(variant=var, lens=ls, offsets=offs),
                            core=(i == 0), family="x86/" + var, weight=ls[-1]))
    for var in ("sse", "avx", "avx2", "avx512"):
        qs.append(Query("x86/%s/huge-len-probe" % var, "harness.C20.x86:huge_len_probe", dict(variant=var, lows=[0, 1, 200, 4096 + 77], off=3, budget=30000),
                        core=True, family="x86/huge-len-probe", weight=50))
    info = dict(
        functions_encoded=["mem_zero_detect_sse", "mem_zero_detect_avx", "mem_zero_detect_avx2", "mem_zero_detect_avx512 (machine code: nasm -> ld -> objdump)"],
        bounds={"len": "every value 0..%d" % maxlen, "alignment offsets (buf mod 64)": offs,
                "data": "all len bytes symbolic; every feasible path explored (fork on each ptest/ktest/jcc on data)"},
        stubs=[], assumptions=["x86 instruction semantics of vlib/x86sym (validated each run against native execution of the same object on concrete inputs)",
                               "SysV ABI call; buffer region exactly [buf, buf+len), everything else unmapped"],
        outside=["len > %d (periodicity of the main loop is not proved), except that truncation of the 64-bit length is probed at len = 2^32 + {0,1,200,4173} (huge-len-probe: no path may return 0 having read fewer than len bytes within a 30000-instruction budget)" % maxlen])
    return qs, info
