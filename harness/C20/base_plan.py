"""C20, engine A half: mem/mem_zero_detect_base.c"""
from vlib.core import Query

R = "vlib.cbmc:cbmc_query"
H = "harness/C20/h_zero_base.c"
U = ["mem/mem_zero_detect_base.c"]


def base_queries(tier):
    quick = tier == "quick"
    lens = [0, 1, 2, 3, 4, 5, 6, 7, 8, 9, 15, 16, 17, 23, 24, 31, 32, 33, 39, 40] if quick else list(range(0, 73))
    qs = []
    for l in lens:
        qs.append(Query("base/exact/len%d" % l, R,
                        dict(harness=H, units=U, hdefines=["LEN=%d" % l], unwind=l + 2, witness=(l in (0, 7, 40))),
                        core=(l in (7, 40)), family="base/exact", weight=1 + l / 10.0))
    for off in ([0, 1, 7] if quick else [0, 1, 2, 3, 4, 5, 6, 7, 8, 15, 31, 63]):
        lm = 24 if quick else 40
        qs.append(Query("base/arena/off%d_symlen%d" % (off, lm), R,
                        dict(harness=H, units=U, hdefines=["ARENA", "OFF=%d" % off, "LEN_MAX=%d" % lm], unwind=off + lm + 18,
                             witness=(off == 1)), core=(off == 1), family="base/arena", weight=10))
    info = dict(
        functions_encoded=["mem_zero_detect_base (mem/mem_zero_detect_base.c)", "load_le_umax/load_le_u32/load_le_u16 (include/unaligned.h)"],
        bounds={"exact": "len concrete %s, region = exact-size heap object, contents symbolic" % ("0..40 (20 values)" if quick else "0..72 (all)"),
                "arena": "len SYMBOLIC 0..%d at arena offsets %s, neighbours arbitrary" % (24 if quick else 40, "{0,1,7}" if quick else "{0..8,15,31,63}")},
        stubs=[], assumptions=["uintmax_t is 64 bit"],
        outside=["numeric address alignment (CBMC objects have no addresses; the portable code has no alignment-dependent branch)",
                 "len > 72"])
    return qs, info
