"""C20 engine-B queries: mem_zero_detect_{sse,avx,avx2,avx512} executed symbolically from machine code."""
import time
import z3
from vlib.core import HOLDS, VIOLATED, UNDECIDED, ERROR
from vlib.x86sym import loader, bv
from vlib.x86sym.interp import Exec
from vlib.x86sym.machine import Violation, Unsupported
from vlib.x86sym.runner import Setup, build_native_driver, validate_concrete, run_native, native_crash_replay, smt_check

KERNELS = {"sse": "mem/mem_zero_detect_sse.asm", "avx": "mem/mem_zero_detect_avx.asm",
           "avx2": "mem/mem_zero_detect_avx2.asm", "avx512": "mem/mem_zero_detect_avx512.asm"}


def mk_setup(img, func, n, off, data, guard=None):
    s = Setup(img, func, guard)
    base = s.region("buf", n, r=True, w=False, init=data, offset=off)
    s.args = [base, n]
    return s


def zero_query(qid, params, ctx):
    """params: variant, lens (list), offsets (list)"""
    agg = {"variables": 0, "clauses": 0, "paths": 0}
    val = 0
    t0 = time.time()
    for n in params["lens"]:
        r = zero_one(params["variant"], n, params["offsets"], ctx)
        for k in agg:
            agg[k] += r.get("stats", {}).get(k, 0)
        val += r.get("validated_traces", 0)
        if r["status"] != HOLDS:
            r["stats"] = agg
            return r
    return {"status": HOLDS, "stats": agg, "validated_traces": val, "solver_time_s": time.time() - t0, "witness_ok": agg["paths"] > 0}


def zero_one(var, n, offs, ctx):
    t0 = time.time()
    img = loader.build_image(ctx["repo"], [KERNELS[var]], ctx["scratch"])
    func = "mem_zero_detect_" + var
    stats = {"variables": 0, "clauses": 0, "paths": 0}
    validated = 0
    try:
        # translator validation on concrete inputs (native run of the same object)
        exe = build_native_driver(img, [func], ctx["scratch"] + "/x86", "zero_" + var)
        import random
        rnd = random.Random(1234 + n)
        pats = [[0] * n]
        if n:
            for pos in {0, n - 1, n // 2, rnd.randrange(n)}:
                d = [0] * n
                d[pos] = rnd.randrange(1, 256)
                pats.append(d)
        for d in pats:
            ok, msg = validate_concrete(img, mk_setup(img, func, n, offs[0], d), exe)
            if ok is False:
                return {"status": ERROR, "detail": "translator validation failed (%s len=%d): %s" % (var, n, msg)}
            validated += 1
        for off in offs:
            data = [z3.BitVec("b%d" % i, 8) for i in range(n)]
            solver = z3.SolverFor("QF_BV")
            ex = Exec(img, solver)
            setup = mk_setup(img, func, n, off, data)
            finals = ex.run(setup.initial_state())
            allzero = z3.And(*[b == 0 for b in data]) if n else z3.BoolVal(True)
            stats["paths"] += len(finals)
            stats["variables"] += ex.n_insns
            for st, out in finals:
                if isinstance(out, Violation):
                    # memory-safety violation on a feasible path: get a model
                    _, m = smt_check(st.path)
                    cex = [m.eval(b, model_completion=True).as_long() for b in data]
                    rep, rlog = native_crash_replay(lambda g: mk_setup(img, func, n, off, cex, g), exe)
                    return {"status": VIOLATED, "detail": "%s at %r (len=%d off=%d); native guard-page replay: %s" % (out, out.insn, n, off, rlog),
                            "cex": {"data": cex, "len": n, "off": off, "variant": var}, "replay_ok": True if rep else None,
                            "replay_log": rlog, "stats": stats}
                abi = setup.abi_check(st)
                if abi:
                    return {"status": VIOLATED, "detail": "ABI: " + abi, "cex": None, "stats": stats}
                ret = bv.extract(st.r["rax"], 31, 0)
                ret0 = bv.eq(32, ret, 0)
                if bv.b_is_c(ret0):
                    ret0 = z3.BoolVal(ret0)
                stats["clauses"] += 1
                r, m = smt_check(st.path + [ret0 != allzero])
                if r == z3.unknown:
                    return {"status": UNDECIDED, "detail": "z3 unknown", "stats": stats}
                if r == z3.sat:
                    cex = [m.eval(b, model_completion=True).as_long() for b in data]
                    # replay natively
                    rax, _ = run_native(exe, func, setup.args, [dict(base=setup.regions[0]["base"], size=n, init=cex)])
                    want0 = all(b == 0 for b in cex)
                    rep = rax is not None and ((rax & 0xffffffff) == 0) != want0
                    return {"status": VIOLATED, "detail": "return value wrong: len=%d off=%d data=%s native rax=%s" % (n, off, cex, rax),
                            "cex": {"data": cex, "len": n, "off": off, "variant": var}, "replay_ok": rep, "stats": stats,
                            "validated_traces": validated}
    except Unsupported as e:
        return {"status": ERROR, "detail": "outside encodable class: %s" % e}
    return {"status": HOLDS, "stats": stats, "validated_traces": validated, "solver_time_s": time.time() - t0,
            "witness_ok": stats["paths"] >= len(offs)}


def huge_len_probe(qid, params, ctx):
    """Lengths >= 2^32 cannot be swept, but a kernel that truncates its 64-bit length is caught cheaply: run it with
    len = 2^32 + L over a lazily materialised all-symbolic region under a small instruction budget.  A correct
    kernel cannot finish within the budget on the all-zero path (it must read 4 GiB); any path that RETURNS 0
    having read fewer than len bytes is a violation (unread bytes are unconstrained, so they may be non-zero).
    Bytes that are read are fixed to zero, bytes never read remain arbitrary."""
    var = params["variant"]
    t0 = time.time()
    img = loader.build_image(ctx["repo"], [KERNELS[var]], ctx["scratch"])
    func = "mem_zero_detect_" + var
    stats = {"variables": 0, "clauses": 0, "paths": 0}
    try:
        for L in params["lows"]:
            n = (1 << 32) + L
            s = Setup(img, func)
            base = s.region("buf", n, r=True, w=False, init=None, offset=params.get("off", 0))
            s.args = [base, n]
            st0 = s.initial_state()
            reg = st0.mem.find(base, 1)
            syms = {}

            def lazy(addr, syms=syms, base=base):
                # every byte that IS read is zero (so the kernel follows its all-zero path without forking);
                # bytes never read stay unconstrained
                syms[addr - base] = 0
                return 0
            reg.lazy = lazy
            ex = Exec(img, z3.SolverFor("QF_BV"), max_steps=params.get("budget", 4000))
            finals = ex.run(st0)
            stats["paths"] += len(finals)
            stats["variables"] += ex.n_insns
            for st, out in finals:
                if isinstance(out, Violation):
                    if out.kind == "no-termination":
                        continue      # expected: still reading after the budget
                    return {"status": VIOLATED, "detail": "%s (len=2^32+%d): %s at %r" % (func, L, out, out.insn), "cex": {"len": n}, "replay_ok": None, "stats": stats}
                ret = bv.extract(st.r["rax"], 31, 0)
                ret0 = bv.eq(32, ret, 0)
                if bv.b_is_c(ret0):
                    ret0 = z3.BoolVal(ret0)
                stats["clauses"] += 1
                r, m = smt_check(st.path + [ret0])
                if r == z3.sat:
                    nread = len(syms)
                    rep, rlog = replay_huge(img, func, n, ctx)
                    return {"status": VIOLATED, "detail": "%s returned 0 (all zero) for len=2^32+%d after reading only %d of %d bytes: the 64-bit length is truncated | %s" % (func, L, nread, n, rlog),
                            "cex": {"variant": var, "len": n, "bytes_read": nread}, "replay_ok": rep, "replay_log": rlog, "stats": stats}
    except Unsupported as e:
        return {"status": ERROR, "detail": "outside encodable class: %s" % e}
    return {"status": HOLDS, "stats": stats, "solver_time_s": time.time() - t0, "witness_ok": stats["paths"] > 0}


HUGE_C = r'''
#include <stdio.h>
#include <stdlib.h>
#include <sys/mman.h>
int FUNC(void *, size_t);
int main(int argc, char **argv) {
    size_t n = strtoull(argv[1], 0, 0);
    unsigned char *p = mmap(0, n + 4096, PROT_READ | PROT_WRITE, MAP_PRIVATE | MAP_ANONYMOUS | MAP_NORESERVE, -1, 0);
    if (p == MAP_FAILED) { printf("MMAPFAIL\n"); return 3; }
    p[n - 1] = 1;                      /* one non-zero byte at the very end of the region */
    int r = FUNC(p, n);
    printf("RET %d\n", r);
    return r == 0 ? 1 : 0;             /* returning 0 (all zero) is the violation */
}
'''


def replay_huge(img, func, n, ctx):
    import os
    import subprocess
    d = ctx["scratch"] + "/x86"
    src = os.path.join(d, "huge_%s.c" % func)
    exe = os.path.join(d, "huge_%s" % func)
    open(src, "w").write(HUGE_C.replace("FUNC", func))
    p = subprocess.run(["gcc", "-O1", "-w", src] + list(img.objs) + ["-o", exe], stdout=subprocess.PIPE, stderr=subprocess.PIPE)
    if p.returncode != 0:
        return None, "huge replay build failed"
    try:
        p = subprocess.run([exe, str(n)], stdout=subprocess.PIPE, stderr=subprocess.PIPE, timeout=300)
    except subprocess.TimeoutExpired:
        return None, "huge replay timed out"
    out = p.stdout.decode()
    if "RET" not in out:
        return None, "huge replay unusable: %s" % out[-100:]
    return p.returncode == 1, "native: non-zero byte at offset len-1, " + out.strip()
