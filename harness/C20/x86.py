"""C20 engine-B queries: mem_zero_detect_{sse,avx,avx2,avx512} executed symbolically from machine code."""
import time
import z3
from vlib.core import HOLDS, VIOLATED, UNDECIDED, ERROR
from vlib.x86sym import loader, bv
from vlib.x86sym.interp import Exec
from vlib.x86sym.machine import Violation, Unsupported
from vlib.x86sym.runner import Setup, build_native_driver, validate_concrete, run_native, native_crash_replay, smt_check

KERNELS = {"sse": "mem/mem_zero_detect_sse.asm", "avx": "mem/mem_zero_detect_avx.asm",
           "avx2": "mem/mem_zero_detect_avx2.asm", "avx512": "mem/mem_zero_detect_avx512.asm"}


def mk_setup(img, func, n, off, data, guard=None):
    s = Setup(img, func, guard)
    base = s.region("buf", n, r=True, w=False, init=data, offset=off)
    s.args = [base, n]
    return s


def zero_query(qid, params, ctx):
    """params: variant, lens (list), offsets (list)"""
    agg = {"variables": 0, "clauses": 0, "paths": 0}
    val = 0
    t0 = time.time()
    for n in params["lens"]:
        r = zero_one(params["variant"], n, params["offsets"], ctx)
        for k in agg:
            agg[k] += r.get("stats", {}).get(k, 0)
        val += r.get("validated_traces", 0)
        if r["status"] != HOLDS:
            r["stats"] = agg
            return r
    return {"status": HOLDS, "stats": agg, "validated_traces": val, "solver_time_s": time.time() - t0, "witness_ok": agg["paths"] > 0}


def zero_one(var, n, offs, ctx):
    t0 = time.time()
    img = loader.build_image(ctx["repo"], [KERNELS[var]], ctx["scratch"])
    func = "mem_zero_detect_" + var
    stats = {"variables": 0, "clauses": 0, "paths": 0}
    validated = 0
    try:
        # translator validation on concrete inputs (native run of the same object)
        exe = build_native_driver(img, [func], ctx["scratch"] + "/x86", "zero_" + var)
        import random
        rnd = random.Random(1234 + n)
        pats = [[0] * n]
        if n:
            for pos in {0, n - 1, n // 2, rnd.randrange(n)}:
                d = [0] * n
                d[pos] = rnd.randrange(1, 256)
                pats.append(d)
        for d in pats:
            ok, msg = validate_concrete(img, mk_setup(img, func, n, offs[0], d), exe)
            if ok is False:
                return {"status": ERROR, "detail": "translator validation failed (%s len=%d): %s" % (var, n, msg)}
            validated += 1
        for off in offs:
            data = [z3.BitVec("b%d" % i, 8) for i in range(n)]
            solver = z3.SolverFor("QF_BV")
            ex = Exec(img, solver)
            setup = mk_setup(img, func, n, off, data)
            finals = ex.run(setup.initial_state())
            allzero = z3.And(*[b == 0 for b in data]) if n else z3.BoolVal(True)
            stats["paths"] += len(finals)
            stats["variables"] += ex.n_insns
            for st, out in finals:
                if isinstance(out, Violation):
                    # memory-safety violation on a feasible path: get a model
                    _, m = smt_check(st.path)
                    cex = [m.eval(b, model_completion=True).as_long() for b in data]
                    rep, rlog = native_crash_replay(lambda g: mk_setup(img, func, n, off, cex, g), exe)
                    return {"status": VIOLATED, "detail": "%s at %r (len=%d off=%d); native guard-page replay: %s" % (out, out.insn, n, off, rlog),
                            "cex": {"data": cex, "len": n, "off": off, "variant": var}, "replay_ok": True if rep else None,
                            "replay_log": rlog, "stats": stats}
                abi = setup.abi_check(st)
                if abi:
                    return {"status": VIOLATED, "detail": "ABI: " + abi, "cex": None, "stats": stats}
                ret = bv.extract(st.r["rax"], 31, 0)
                ret0 = bv.eq(32, ret, 0)
                if bv.b_is_c(ret0):
                    ret0 = z3.BoolVal(ret0)
                stats["clauses"] += 1
                r, m = smt_check(st.path + [ret0 != allzero])
                if r == z3.unknown:
                    return {"status": UNDECIDED, "detail": "z3 unknown", "stats": stats}
                if r == z3.sat:
                    cex = [m.eval(b, model_completion=True).as_long() for b in data]
                    # replay natively
                    rax, _ = run_native(exe, func, setup.args, [dict(base=setup.regions[0]["base"], size=n, init=cex)])
                    want0 = all(b == 0 for b in cex)
                    rep = rax is not None and ((rax & 0xffffffff) == 0) != want0
                    return {"status": VIOLATED, "detail": "return value wrong: len=%d off=%d data=%s native rax=%s" % (n, off, cex, rax),
                            "cex": {"data": cex, "len": n, "off": off, "variant": var}, "replay_ok": rep, "stats": stats,
                            "validated_traces": validated}
    except Unsupported as e:
        return {"status": ERROR, "detail": "outside encodable class: %s" % e}
    return {"status": HOLDS, "stats": stats, "validated_traces": validated, "solver_time_s": time.time() - t0,
            "witness_ok": stats["paths"] >= len(offs)}
