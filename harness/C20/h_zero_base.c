/* C20, portable-C half: mem/mem_zero_detect_base.c
 *     ret == 0  <=>  all LEN bytes zero     (both directions, so any single non-zero byte is detected)
 *   default      region = exact-size heap object of LEN bytes (LEN concrete): any read outside is a
 *                CBMC / ASan failure
 *   -DARENA      region at offset OFF inside a 64+LEN_MAX byte arena whose other bytes are arbitrary
 *                (non-zero neighbours must not influence the answer); len SYMBOLIC 0..LEN_MAX
 * CBMC has no numeric addresses, so "alignment" is only the offset inside the arena; the portable
 * code has no alignment-dependent path (loads go through memcpy in unaligned.h).
 */
#include "verif.h"
#include <stdlib.h>

int mem_zero_detect_base(void *buf, size_t n);

#ifndef LEN
#define LEN 8
#endif
#ifndef LEN_MAX
#define LEN_MAX 40
#endif
#ifndef OFF
#define OFF 0
#endif

#ifdef ARENA
struct inputs {
        uint8_t arena[OFF + LEN_MAX + 16];
        uint32_t len;
};
#else
struct inputs {
        uint8_t d[LEN > 0 ? LEN : 1];
};
#endif
DECLARE_INPUTS

void
harness(void)
{
        VERIF_INPUTS();
#ifdef ARENA
        VASSUME(I.len <= LEN_MAX);
        static uint8_t arena[OFF + LEN_MAX + 16];
        for (int i = 0; i < OFF + LEN_MAX + 16; i++)
                arena[i] = I.arena[i];
        int ret = mem_zero_detect_base(arena + OFF, I.len);
        int allzero = 1;
        for (unsigned i = 0; i < LEN_MAX; i++)
                if (i < I.len && I.arena[OFF + i] != 0)
                        allzero = 0;
        VASSERT((ret == 0) == allzero, "ret == 0 <=> all len bytes zero (neighbours arbitrary)");
        for (int i = 0; i < OFF + LEN_MAX + 16; i++)
                VASSERT(arena[i] == I.arena[i], "buffer not modified");
#else
        uint8_t *b = malloc(LEN);
        for (int i = 0; i < LEN; i++)
                b[i] = I.d[i];
        int ret = mem_zero_detect_base(b, LEN);
        int allzero = 1;
        for (int i = 0; i < LEN; i++)
                if (I.d[i] != 0)
                        allzero = 0;
        VASSERT((ret == 0) == allzero, "ret == 0 <=> all len bytes zero");
#if LEN == 0
        VASSERT(ret == 0, "len 0 reports all-zero");
#endif
        for (int i = 0; i < LEN; i++)
                VASSERT(b[i] == I.d[i], "buffer not modified");
#endif
        VREACHED();
}
VERIF_MAIN
