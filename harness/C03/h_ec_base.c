/* C03 / C13, portable-C half: the _base functions of erasure_code/ec_base.c against the GF(2^8)
 * specification (spec/gf256.h), tables built by the real gf_vect_mul_init / ec_init_tables_base from
 * SYMBOLIC coefficients (the base functions read the coefficient back from byte 1 of each 32-byte
 * table).  Sizes LEN, KK, ROWS are concrete per query; data, coefficients, old dest contents and
 * vec_i are symbolic.  Buffers are exact-size objects: any out-of-range access is a CBMC failure.
 *
 *   H_DOT   gf_vect_dot_prod_base         (C03)
 *   H_ENC   ec_encode_data_base           (C03)
 *   H_MAD   gf_vect_mad_base              (C13)
 *   H_UPD   ec_encode_data_update_base    (C13)
 *   H_MUL   gf_vect_mul_base              (C13)  len%32 != 0 => -1 and no store
 *   H_ORDER k updates from zero, in any order == ec_encode_data_base; update twice cancels (C13)
 */
#include "verif.h"
#include <stdlib.h>
#include <string.h>
#include "gf256.h"
#include "erasure_code.h"

#ifndef LEN
#define LEN 1
#endif
#ifndef KK
#define KK 1
#endif
#ifndef ROWS
#define ROWS 1
#endif
#define LEN1 (LEN > 0 ? LEN : 1)

/* ec_base.c is compiled with its scalar leaves gf_mul/gf_inv computed by the specification
 * (spec/ec_base_leaf.h: assume-guarantee on C12, which decides gf_mul == spec_gf_mul for all 2^16
 * operand pairs); the plan links no unit.  -DREAL_LEAF (plan links erasure_code/ec_base.c): the real
 * table-driven gf_mul, decides only for one product per output byte (measured: len 2, k 2 >300 s).
 * The oracle always uses spec_gf_mul; operands are passed as (data, coefficient) -- the order the code
 * under test uses -- because proving commutativity of the 8x8 carry-less multiplier again inside every
 * product costs the SAT solver ~3x (measured); commutativity of spec_gf_mul is C12:H_AXIOMS. */
#ifndef REAL_LEAF
#include "ec_base_leaf.h"
#endif
#define MUL(c, d) spec_gf_mul(d, c)

struct inputs {
        uint8_t coef[ROWS * KK];
        uint8_t data[KK][LEN1];
        uint8_t old[ROWS][LEN1];
        uint8_t vec_i;
        uint8_t order[KK];
        uint8_t stale_tbl[ROWS * KK * 32]; /* what the caller's table buffer held before ec_init_tables: must not matter */
};
DECLARE_INPUTS

void
harness(void)
{
        VERIF_INPUTS();
        uint8_t tbl[ROWS * KK * 32];
        /* every source / destination block is its own exact-size object (LEN bytes) */
        unsigned char *src[KK], *dst[ROWS];
        unsigned char *srcp[KK], *dstp[ROWS];
        memcpy(tbl, I.stale_tbl, sizeof(tbl));
        ec_init_tables_base(KK, ROWS, I.coef, tbl);
        for (int j = 0; j < KK; j++) {
                srcp[j] = src[j] = malloc(LEN);
                for (int i = 0; i < LEN; i++)
                        src[j][i] = I.data[j][i];
        }
        for (int r = 0; r < ROWS; r++) {
                dstp[r] = dst[r] = malloc(LEN);
                for (int i = 0; i < LEN; i++)
                        dst[r][i] = I.old[r][i];
        }
#if defined(H_DOT)
        gf_vect_dot_prod_base(LEN, KK, tbl, srcp, dst[0]);
        for (int i = 0; i < LEN; i++) {
                uint8_t s = 0;
                for (int j = 0; j < KK; j++)
                        s ^= MUL(I.coef[j], I.data[j][i]);
                VASSERT(dst[0][i] == s, "dest[i] == sum_j c_j * src_j[i]");
        }
#elif defined(H_ENC)
        ec_encode_data_base(LEN, KK, ROWS, tbl, srcp, dstp);
        for (int r = 0; r < ROWS; r++)
                for (int i = 0; i < LEN; i++) {
                        uint8_t s = 0;
                        for (int j = 0; j < KK; j++)
                                s ^= MUL(I.coef[r * KK + j], I.data[j][i]);
                        VASSERT(dst[r][i] == s, "coding[r][i] == sum_j c[r][j] * data_j[i]");
                }
#elif defined(H_MAD)
        VASSUME(I.vec_i < KK);
        gf_vect_mad_base(LEN, KK, I.vec_i, tbl, src[0], dst[0]);
        for (int i = 0; i < LEN; i++)
                VASSERT(dst[0][i] == (I.old[0][i] ^ MUL(I.coef[I.vec_i], I.data[0][i])),
                        "dest[i] == old[i] ^ c[vec_i]*src[i]");
#elif defined(H_UPD)
        VASSUME(I.vec_i < KK);
        ec_encode_data_update_base(LEN, KK, ROWS, I.vec_i, tbl, src[0], dstp);
        for (int r = 0; r < ROWS; r++)
                for (int i = 0; i < LEN; i++)
                        VASSERT(dst[r][i] == (I.old[r][i] ^ MUL(I.coef[r * KK + I.vec_i], I.data[0][i])),
                                "coding[r][i] == old ^ c[r][vec_i]*data[i]");
#elif defined(H_MUL)
        /* KK == ROWS == 1; table of coef[0] */
        int ret = gf_vect_mul_base(LEN, tbl, src[0], dst[0]);
        if (LEN % 32 != 0) {
                VASSERT(ret == -1, "len not a multiple of 32: returns -1");
                for (int i = 0; i < LEN; i++)
                        VASSERT(dst[0][i] == I.old[0][i], "len not a multiple of 32: nothing stored");
        } else {
                VASSERT(ret == 0, "len multiple of 32: returns 0");
                for (int i = 0; i < LEN; i++)
                        VASSERT(dst[0][i] == MUL(I.coef[0], I.data[0][i]), "dest[i] == c*src[i]");
        }
#elif defined(H_ORDER)
        /* order[] is a permutation of 0..KK-1 */
        for (int a = 0; a < KK; a++) {
                VASSUME(I.order[a] < KK);
                for (int b = 0; b < a; b++)
                        VASSUME(I.order[a] != I.order[b]);
        }
        unsigned char *full[ROWS], *fullp[ROWS];
        for (int r = 0; r < ROWS; r++) {
                fullp[r] = full[r] = malloc(LEN);
                for (int i = 0; i < LEN; i++)
                        dst[r][i] = 0;
        }
        ec_encode_data_base(LEN, KK, ROWS, tbl, srcp, fullp);
        for (int a = 0; a < KK; a++)
                ec_encode_data_update_base(LEN, KK, ROWS, I.order[a], tbl, src[I.order[a]], dstp);
        for (int r = 0; r < ROWS; r++)
                for (int i = 0; i < LEN; i++)
                        VASSERT(dst[r][i] == full[r][i], "k updates from zero in any order == full encode");
        /* applying one update twice cancels */
        VASSUME(I.vec_i < KK);
        ec_encode_data_update_base(LEN, KK, ROWS, I.vec_i, tbl, src[I.vec_i], dstp);
        ec_encode_data_update_base(LEN, KK, ROWS, I.vec_i, tbl, src[I.vec_i], dstp);
        for (int r = 0; r < ROWS; r++)
                for (int i = 0; i < LEN; i++)
                        VASSERT(dst[r][i] == full[r][i], "update applied twice cancels");
#else
#error no harness selected
#endif
        /* sources and tables untouched */
        for (int j = 0; j < KK; j++)
                for (int i = 0; i < LEN; i++)
                        VASSERT(src[j][i] == I.data[j][i], "source unchanged");
        VREACHED();
}
VERIF_MAIN
