/* C03/C13 glue: the row-batching code of erasure_code/ec_highlevel_func.c
 *   ec_encode_data_{sse,avx,avx2,avx512,avx512_gfni,avx2_gfni}          (default)
 *   ec_encode_data_update_{...}                                         (-DUPDATE)
 * with EVERY assembly kernel gf_Nvect_dot_prod_<isa> / gf_Nvect_mad_<isa> and the portable fallback
 * ec_encode_data[_update]_base replaced by *recording specification stubs* (this file).  The stubs do
 * not touch memory; they check the arguments of each call against the caller's view:
 *    - kernel belongs to the ISA of the entry point under test
 *    - len, k (and vec_i), data pointer are passed through unchanged
 *    - coding pointer = &coding[row] (or coding[row] for the 1-output kernels) for some row
 *    - table pointer   = g_tbls + row*k*32   (GFNI: *8)
 *    - rows row..row+N-1 are inside 0..rows-1; per-row handled counter is incremented
 * After the call: every row 0..rows-1 handled exactly once (no row twice, none skipped, none beyond),
 * fallback to _base taken exactly when len < documented minimum (16/16/32/64; GFNI variants: never).
 * That each kernel computes the dot product / multiply-accumulate for its N rows is engine B's
 * obligation (assume-guarantee split).
 *
 * -DISA_ID=0..5 selects the entry point; rows, k, len, vec_i are SYMBOLIC (rows<=ROWS_MAX, k<=K_MAX).
 */
#include "verif.h"
#include "erasure_code.h"

#ifndef ROWS_MAX
#define ROWS_MAX 13
#endif
#ifndef K_MAX
#define K_MAX 255
#endif

enum { SSE = 0, AVX = 1, AVX2 = 2, AVX512 = 3, AVX512_GFNI = 4, AVX2_GFNI = 5 };
static const int isa_stride[6] = { 32, 32, 32, 32, 8, 8 };
static const int isa_minlen[6] = { 16, 16, 32, 64, 0, 0 };

struct inputs {
        int len;
        int rows;
        int k;
        int vec_i;
};
DECLARE_INPUTS

/* caller's view */
static unsigned char tbls[ROWS_MAX * K_MAX * 32 + 32];
static unsigned char destbuf[ROWS_MAX + 1];
static unsigned char *coding[ROWS_MAX + 1];
static unsigned char *datav[4];
static unsigned char data1[4];
static int G_len, G_k, G_rows, G_veci;
static void *G_data;

static int ncalls, nbase;
static int handled[ROWS_MAX + 1];

static void
rec(int isa, int upd, int nv, int len, int k, int vec_i, unsigned char *tbl, void *data, unsigned char **cod,
    unsigned char *dest1)
{
        long row;
        ncalls++;
        VASSERT(isa == ISA_ID, "kernel of the entry point's own ISA");
#ifdef UPDATE
        VASSERT(upd == 1, "update entry calls a mad kernel");
        VASSERT(vec_i == G_veci, "vec_i passed through");
#else
        VASSERT(upd == 0, "encode entry calls a dot_prod kernel");
#endif
        VASSERT(len == G_len, "len passed through");
        VASSERT(k == G_k, "k passed through");
        VASSERT(data == G_data, "data pointer passed through");
        if (nv == 1)
                row = dest1 - destbuf; /* coding[r] == destbuf + r */
        else
                row = cod - coding;
        VASSERT(row >= 0 && row + nv <= G_rows, "kernel's rows inside 0..rows-1");
        if (nv == 1)
                VASSERT(dest1 == coding[row], "1-output kernel gets coding[row]");
        VASSERT(tbl == tbls + row * G_k * isa_stride[ISA_ID], "table slice g_tbls + row*k*stride");
        for (int t = 0; t < nv; t++)
                if (row + t >= 0 && row + t <= ROWS_MAX)
                        handled[row + t]++;
}

/* ---- stubs for all kernels referenced by ec_highlevel_func.c ---- */
#define DP1(ret, isa, id)                                                                                    \
        ret gf_vect_dot_prod_##isa(int len, int k, unsigned char *t, unsigned char **d, unsigned char *dest)  \
        {                                                                                                    \
                rec(id, 0, 1, len, k, -1, t, d, 0, dest);                                                    \
                return (ret) 0;                                                                              \
        }
#define DPN(ret, n, isa, id)                                                                                 \
        ret gf_##n##vect_dot_prod_##isa(int len, int k, unsigned char *t, unsigned char **d,                 \
                                        unsigned char **c)                                                   \
        {                                                                                                    \
                rec(id, 0, n, len, k, -1, t, d, c, 0);                                                       \
                return (ret) 0;                                                                              \
        }
#define MAD1(isa, id)                                                                                        \
        void gf_vect_mad_##isa(int len, int k, int vi, unsigned char *t, unsigned char *s, unsigned char *dest) \
        {                                                                                                    \
                rec(id, 1, 1, len, k, vi, t, s, 0, dest);                                                    \
        }
#define MADN(n, isa, id)                                                                                     \
        void gf_##n##vect_mad_##isa(int len, int k, int vi, unsigned char *t, unsigned char *s,              \
                                    unsigned char **c)                                                       \
        {                                                                                                    \
                rec(id, 1, n, len, k, vi, t, s, c, 0);                                                       \
        }
/* void-returning families (prototypes in erasure_code.h / ec_highlevel_func.c) */
#define VOIDFAM(isa, id)                                                                                     \
        void gf_vect_dot_prod_##isa(int len, int k, unsigned char *t, unsigned char **d, unsigned char *dest) \
        {                                                                                                    \
                rec(id, 0, 1, len, k, -1, t, d, 0, dest);                                                    \
        }
#define VOIDN(n, isa, id)                                                                                    \
        void gf_##n##vect_dot_prod_##isa(int len, int k, unsigned char *t, unsigned char **d,                \
                                         unsigned char **c)                                                  \
        {                                                                                                    \
                rec(id, 0, n, len, k, -1, t, d, c, 0);                                                       \
        }
#define FULL_VOID(isa, id)                                                                                   \
        VOIDFAM(isa, id) VOIDN(2, isa, id) VOIDN(3, isa, id) VOIDN(4, isa, id) VOIDN(5, isa, id) VOIDN(6, isa, id) \
        MAD1(isa, id) MADN(2, isa, id) MADN(3, isa, id) MADN(4, isa, id) MADN(5, isa, id) MADN(6, isa, id)

FULL_VOID(sse, SSE)
FULL_VOID(avx, AVX)
FULL_VOID(avx2, AVX2)
FULL_VOID(avx512_gfni, AVX512_GFNI)
/* avx512: dot_prod kernels are declared `extern int` in ec_highlevel_func.c */
DP1(int, avx512, AVX512)
DPN(int, 2, avx512, AVX512)
DPN(int, 3, avx512, AVX512)
DPN(int, 4, avx512, AVX512)
DPN(int, 5, avx512, AVX512)
DPN(int, 6, avx512, AVX512)
MAD1(avx512, AVX512)
MADN(2, avx512, AVX512)
MADN(3, avx512, AVX512)
MADN(4, avx512, AVX512)
MADN(5, avx512, AVX512)
MADN(6, avx512, AVX512)
/* avx2_gfni: dot_prod 1..3, mad 1..5 exist */
VOIDFAM(avx2_gfni, AVX2_GFNI)
VOIDN(2, avx2_gfni, AVX2_GFNI)
VOIDN(3, avx2_gfni, AVX2_GFNI)
MAD1(avx2_gfni, AVX2_GFNI)
MADN(2, avx2_gfni, AVX2_GFNI)
MADN(3, avx2_gfni, AVX2_GFNI)
MADN(4, avx2_gfni, AVX2_GFNI)
MADN(5, avx2_gfni, AVX2_GFNI)

/* portable fallbacks (ec_base.c is NOT linked here) */
void
ec_encode_data_base(int len, int srcs, int dests, unsigned char *v, unsigned char **src, unsigned char **dest)
{
        nbase++;
#ifdef UPDATE
        VASSERT(0, "update entry must not call ec_encode_data_base");
#endif
        VASSERT(len == G_len && srcs == G_k && dests == G_rows && v == tbls && (void *) src == G_data &&
                        dest == coding,
                "fallback gets the original arguments");
}
void
ec_encode_data_update_base(int len, int k, int rows, int vec_i, unsigned char *v, unsigned char *data,
                           unsigned char **dest)
{
        nbase++;
#ifndef UPDATE
        VASSERT(0, "encode entry must not call ec_encode_data_update_base");
#endif
        VASSERT(len == G_len && k == G_k && rows == G_rows && vec_i == G_veci && v == tbls &&
                        (void *) data == G_data && dest == coding,
                "fallback gets the original arguments");
}

/* entry points not declared in erasure_code.h */
void ec_encode_data_avx512(int, int, int, unsigned char *, unsigned char **, unsigned char **);
void ec_encode_data_avx512_gfni(int, int, int, unsigned char *, unsigned char **, unsigned char **);
void ec_encode_data_avx2_gfni(int, int, int, unsigned char *, unsigned char **, unsigned char **);
void ec_encode_data_update_avx512(int, int, int, int, unsigned char *, unsigned char *, unsigned char **);
void ec_encode_data_update_avx512_gfni(int, int, int, int, unsigned char *, unsigned char *, unsigned char **);
void ec_encode_data_update_avx2_gfni(int, int, int, int, unsigned char *, unsigned char *, unsigned char **);

#if ISA_ID == 0
#define ENC ec_encode_data_sse
#define UPD ec_encode_data_update_sse
#elif ISA_ID == 1
#define ENC ec_encode_data_avx
#define UPD ec_encode_data_update_avx
#elif ISA_ID == 2
#define ENC ec_encode_data_avx2
#define UPD ec_encode_data_update_avx2
#elif ISA_ID == 3
#define ENC ec_encode_data_avx512
#define UPD ec_encode_data_update_avx512
#elif ISA_ID == 4
#define ENC ec_encode_data_avx512_gfni
#define UPD ec_encode_data_update_avx512_gfni
#elif ISA_ID == 5
#define ENC ec_encode_data_avx2_gfni
#define UPD ec_encode_data_update_avx2_gfni
#else
#error ISA_ID
#endif

void
harness(void)
{
        VERIF_INPUTS();
        VASSUME(I.rows >= 0 && I.rows <= ROWS_MAX);
        VASSUME(I.k >= 1 && I.k <= K_MAX);
        VASSUME(I.len >= 0);
#ifdef LEN_FIXED
        VASSUME(I.len == LEN_FIXED);
#endif
        VASSUME(I.vec_i >= 0 && I.vec_i < I.k);
        for (int r = 0; r <= ROWS_MAX; r++) {
                coding[r] = destbuf + r;
                handled[r] = 0;
        }
        ncalls = nbase = 0;
        G_len = I.len;
        G_k = I.k;
        G_rows = I.rows;
        G_veci = I.vec_i;
#ifdef UPDATE
        G_data = data1;
        UPD(I.len, I.k, I.rows, I.vec_i, tbls, data1, coding);
#else
        G_data = datav;
        ENC(I.len, I.k, I.rows, tbls, datav, coding);
#endif
        if (I.len < isa_minlen[ISA_ID]) {
                VASSERT(nbase == 1 && ncalls == 0, "len < minimum: exactly the portable fallback runs");
        } else {
                VASSERT(nbase == 0, "len >= minimum: no fallback");
                for (int r = 0; r <= ROWS_MAX; r++)
                        VASSERT(handled[r] == (r < I.rows), "every output row handled exactly once, none beyond rows");
        }
        VREACHED();
}
VERIF_MAIN
