"""C03, engine A half: (glue/) row batching of erasure_code/ec_highlevel_func.c with the assembly
kernels replaced by recording specification stubs, (base/) the portable _base functions of
erasure_code/ec_base.c against the GF(2^8) specification."""
from vlib.core import Query

R = "vlib.cbmc:cbmc_query"
HG = "harness/C03/h_glue.c"
HB = "harness/C03/h_ec_base.c"
ISAS = ["sse", "avx", "avx2", "avx512", "avx512_gfni", "avx2_gfni"]
MINLEN = [16, 16, 32, 64, 0, 0]
# XOR-sum miters over GF(2^8): cadical decides ec_encode_data_base 4x3x3 in 3.5 s, minisat needs 122 s (measured)
CADICAL = ["--sat-solver", "cadical"]


def glue_queries(tier, update):
    """Shared with C13 (update=True)."""
    qs = []
    fam = "glue/update" if update else "glue/encode"
    for i, isa in enumerate(ISAS):
        hd = ["ISA_ID=%d" % i] + (["UPDATE"] if update else [])
        # rows 0..13, k 1..255, len >= 0 (and vec_i < k) all SYMBOLIC in one query
        qs.append(Query("%s/%s/sym" % (fam, isa), R,
                        dict(harness=HG, units=["erasure_code/ec_highlevel_func.c"], hdefines=hd, unwind=16, witness=True),
                        core=True, family=fam, weight=3))
        if tier != "quick":  # rows 0..40 symbolic (6 iterations of the 6-row loop)
            qs.append(Query("%s/%s/sym_rows40" % (fam, isa), R,
                            dict(harness=HG, units=["erasure_code/ec_highlevel_func.c"], hdefines=hd + ["ROWS_MAX=40"], unwind=43, witness=False),
                            core=False, family=fam, weight=20))
        # the documented length boundary, concrete (cross-check of the symbolic query; witness per side)
        w = MINLEN[i]
        lens = sorted({0, max(w - 1, 0), w, w + 1})
        if tier == "quick":
            lens = [l for l in lens if l in (max(w - 1, 0), w)]
        for l in lens:
            qs.append(Query("%s/%s/len%d" % (fam, isa, l), R,
                            dict(harness=HG, units=["erasure_code/ec_highlevel_func.c"], hdefines=hd + ["LEN_FIXED=%d" % l],
                                 unwind=16, witness=True), core=False, family=fam, weight=2))
    return qs


GLUE_INFO = dict(
    functions_encoded=["ec_encode_data_{sse,avx,avx2,avx512,avx512_gfni,avx2_gfni} (erasure_code/ec_highlevel_func.c, real text)"],
    bounds={"glue": "rows 0..13 (thorough: 0..40) symbolic, k 1..255 symbolic, len any int >= 0 symbolic (plus concrete len in {0,W-1,W,W+1}, "
                    "W = 16/16/32/64 documented minimum; GFNI entries have no fallback)"},
    stubs=["ALL gf_{1..6}vect_dot_prod_<isa> / gf_{1..6}vect_mad_<isa> kernels and ec_encode_data[_update]_base are replaced by "
           "recording stubs in harness/C03/h_glue.c: they touch no memory and assert, per call, ISA of the kernel, len/k/vec_i/data "
           "passed through, coding pointer == &coding[row], table pointer == g_tbls + row*k*32 (GFNI: *8), rows inside 0..rows-1; "
           "after the call every row 0..rows-1 handled exactly once and none beyond; fallback to _base iff len < minimum. "
           "That each kernel computes its N rows correctly is the x86sym half (assume-guarantee)."],
    assumptions=["rows >= 0, k >= 1, len >= 0 (negative sizes are outside the documented domain)"],
    outside=["rows > 13 (thorough: > 40) in the glue"])


def base_queries(tier):
    quick = tier == "quick"
    qs = glue_queries(tier, update=False)
    # anchor with the REAL table-driven gf_mul (ec_base.c linked unmodified): one product per output byte
    qs.append(Query("base/dot/real_leaf/len1_k1", R,
                    dict(harness=HB, units=["erasure_code/ec_base.c"], hdefines=["H_DOT", "REAL_LEAF", "LEN=1", "KK=1"], unwind=33,
                         witness=True, flags=CADICAL), core=True, family="base/dot", weight=10))
    qs.append(Query("base/enc/real_leaf/len1_k1_r2", R,
                    dict(harness=HB, units=["erasure_code/ec_base.c"], hdefines=["H_ENC", "REAL_LEAF", "LEN=1", "KK=1", "ROWS=2"], unwind=65,
                         witness=True, flags=CADICAL), core=False, family="base/enc", weight=15))
    # gf_mul abstracted to spec_gf_mul (lemma C12:H_MUL), ec_base.c otherwise the real text
    dots = [(0, 1), (1, 1), (2, 2), (4, 3)] if quick else [(l, k) for l in range(0, 5) for k in range(1, 4)] + [(8, 4), (16, 2)]
    for (l, k) in dots:
        qs.append(Query("base/dot/len%d_k%d" % (l, k), R,
                        dict(harness=HB, units=[], hdefines=["H_DOT", "LEN=%d" % l, "KK=%d" % k], unwind=max(33, 32 * k + 1, l + 2),
                             witness=(l > 0), flags=CADICAL), core=(l, k) in ((2, 2), (4, 3)), family="base/dot", weight=2 + l * k))
    encs = [(0, 2, 2), (1, 1, 1), (2, 2, 3), (3, 3, 2), (4, 3, 3)] if quick else \
        [(l, k, r) for l in (0, 1, 2, 3, 4) for k in (1, 2, 3) for r in (1, 2, 3)] + [(8, 4, 4), (4, 2, 7)]
    for (l, k, r) in encs:
        qs.append(Query("base/enc/len%d_k%d_r%d" % (l, k, r), R,
                        dict(harness=HB, units=[], hdefines=["H_ENC", "LEN=%d" % l, "KK=%d" % k, "ROWS=%d" % r],
                             unwind=max(33, k * r + 1, l + 2), witness=(l > 0), timeout=None if quick else 1200, flags=CADICAL),
                        core=(l, k, r) in ((2, 2, 3), (4, 3, 3)), family="base/enc", weight=2 + l * k * r))
    info = dict(GLUE_INFO)
    info = {k: (list(v) if isinstance(v, list) else dict(v)) for k, v in info.items()}
    info["functions_encoded"] += ["gf_vect_dot_prod_base", "ec_encode_data_base", "ec_init_tables_base", "gf_vect_mul_init"]
    info["bounds"]["base"] = "len 0..4, k 1..3, rows 1..3 concrete (quick: 4-5 shapes each; thorough all 45 + (8,4,4), (4,2,7)); coefficients, data, old destination contents symbolic; " \
                             "every source/destination block is its own exact-size object"
    info["stubs"] += ["base/* queries except */real_leaf/*: gf_mul and gf_inv bodies of ec_base.c compute spec_gf_mul / spec inverse "
                      "(spec/ec_base_leaf.h); justified by C12 (gf_mul == spec_gf_mul for all 2^16 pairs). */real_leaf/* link the unmodified ec_base.c."]
    info["assumptions"] += ["C12 holds (lemma used by the leaf substitution)"]
    info["outside"] += ["len > 4 (8), k > 3 (4), rows > 3 (7) for the portable functions"]
    return qs, info
