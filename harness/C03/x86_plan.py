from harness.ec_common import x86_plan as P


def x86_queries(tier):
    qs = P.build("dot_prod", tier)
    info = dict(P.INFO_COMMON)
    info["functions_encoded"] = ["gf_{1..6}vect_dot_prod_{sse,avx,avx2,avx512,avx512_gfni}", "gf_{1..3}vect_dot_prod_avx2_gfni (machine code)"]
    info["bounds"] = {"len": "quick: every 0..W+1 plus residues around 2W,3W; thorough: every 0..4W+17 (W = 16/16/32/64/64/32)",
                      "k": "2 everywhere; 1,3 at block-boundary lengths (thorough also 4,5,8)", "alignment offsets": "0 (+1,31; thorough 15,63)",
                      "data": "all source bytes, all table bytes, initial destination bytes symbolic"}
    return qs, info
