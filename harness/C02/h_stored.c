/* C02(a) / C06(a): stored blocks through the REAL isal_inflate_stateless driver
 * (read_header + decode_literal_block + inflate_in_load/inflate_in_read_bits + the final
 * "undo read-ahead" arithmetic), differential against the independent spec/rfc1951.h decoder.
 *
 * Concrete per query: N (input bytes), AVAIL_OUT.  Symbolic: all N input bytes.
 * The Huffman side (setup_static_header / setup_dynamic_header bodies removed, block decoder
 * glue asserts unreachable) is cut off by the stated assumption that no block header with
 * BTYPE 01/10 is reached (a harness-side walk over the stored-block structure).
 *
 *  -DVALID_ONLY : C02 flavour, additionally assume the reference accepts the stream.
 *  default      : C06 flavour, arbitrary bytes.
 */
#define IC_NO_HUFFMAN
#include "harness/inflate_common/inflate_common.h"

#ifndef N
#define N 6
#endif
#ifndef AVAIL_OUT
#define AVAIL_OUT 4
#endif

struct inputs {
        uint8_t in[N ? N : 1];
};
DECLARE_INPUTS

static struct inflate_state st;

/* harness-side walk: does decoding ever arrive at a block header with BTYPE 1 or 2? */
static int
reaches_coded_block(const uint8_t *in, size_t n)
{
        size_t nbits = n * 8, pos = 0;
        for (int blk = 0; blk < N / 5 + 2; blk++) {
                if (pos + 3 > nbits)
                        return 0;
                unsigned bfinal = ic_bit(in, pos);
                unsigned btype = ic_bit(in, pos + 1) | (ic_bit(in, pos + 2) << 1);
                if (btype == 1 || btype == 2)
                        return 1;
                if (btype == 3)
                        return 0;
                pos = (pos + 3 + 7) & ~(size_t) 7;
                if (pos + 32 > nbits)
                        return 0;
                size_t b = pos >> 3;
                unsigned len = in[b] | (in[b + 1] << 8), nlen = in[b + 2] | (in[b + 3] << 8);
                if (len != (~nlen & 0xffff))
                        return 0;
                if (pos + 32 + 8 * (size_t) len > nbits)
                        return 0;
                pos += 32 + 8 * (size_t) len;
                if (bfinal)
                        return 0;
        }
        return 0;
}

void
harness(void)
{
        VERIF_INPUTS();
        uint8_t out[AVAIL_OUT + 1];
        uint8_t ref_out[N + 1];
        struct rfc_res r;

        VASSUME(!reaches_coded_block(I.in, N));
        rfc1951_inflate(I.in, N, 0, ref_out, N, 0, 0, &r);
#ifdef VALID_ONLY
        VASSUME(r.status == RFC_OK);
#endif

        out[AVAIL_OUT] = 0xA5;
        isal_inflate_init(&st);
        st.next_in = I.in;
        st.avail_in = N;
        st.next_out = out;
        st.avail_out = AVAIL_OUT;
        st.crc_flag = ISAL_DEFLATE;
        int ret = isal_inflate_stateless(&st);

        /* ---- safety / contract (C06) ---- */
        VASSERT(ret == ISAL_DECOMP_OK || ret == ISAL_END_INPUT || ret == ISAL_OUT_OVERFLOW ||
                        ret == ISAL_INVALID_BLOCK,
                "return code in the documented set for stored-only input");
        VASSERT(st.total_out <= AVAIL_OUT, "total_out <= avail_out");
        VASSERT(st.next_out == out + st.total_out && st.avail_out == AVAIL_OUT - st.total_out,
                "next_out/avail_out consistent with total_out");
        VASSERT(out[AVAIL_OUT] == 0xA5, "byte after the output buffer untouched");
        VASSERT(st.next_in >= I.in && st.next_in <= I.in + N &&
                        st.avail_in == (uint32_t) (N - (st.next_in - I.in)),
                "next_in/avail_in consistent");
        for (unsigned i = 0; i < AVAIL_OUT; i++)
                if (i < st.total_out && i < r.out_len)
                        VASSERT(out[i] == ref_out[i], "delivered byte equals the reference decoder's");

        /* ---- never falsely succeeds (C06) and exact end position (C02) ---- */
        if (ret == ISAL_DECOMP_OK) {
                VASSERT(r.status == RFC_OK, "success only if the reference decoder accepts the stream");
                VASSERT(st.total_out == r.out_len, "same number of bytes as the reference");
                VASSERT(st.block_state == ISAL_BLOCK_FINISH, "finished state");
                VASSERT((r.bit_pos & 7) == 0 && (size_t) (st.next_in - I.in) == r.bit_pos / 8,
                        "reported input position == true end of the stream");
        }
        /* ---- every valid stream is reproduced (C02) ---- */
        if (r.status == RFC_OK) {
                if (r.out_len <= AVAIL_OUT)
                        VASSERT(ret == ISAL_DECOMP_OK, "valid stream that fits is decoded successfully");
                else
                        VASSERT(ret == ISAL_OUT_OVERFLOW && st.total_out == AVAIL_OUT,
                                "valid stream that does not fit: OUT_OVERFLOW with the buffer filled");
        }
        /* ---- documented error classes (C06) ---- */
        if (r.status == RFC_BAD_STORED || r.status == RFC_BAD_BTYPE) {
                if (r.out_len <= AVAIL_OUT)
                        VASSERT(ret == ISAL_INVALID_BLOCK, "LEN/NLEN mismatch or BTYPE=3 => ISAL_INVALID_BLOCK");
                else
                        VASSERT(ret == ISAL_OUT_OVERFLOW, "earlier blocks do not fit => ISAL_OUT_OVERFLOW");
        }
        if (r.status == RFC_TRUNCATED || r.status == RFC_BOUNDARY) {
                VASSERT(ret == ISAL_END_INPUT || (ret == ISAL_OUT_OVERFLOW && st.total_out == AVAIL_OUT),
                        "truncated stream => END_INPUT (or OUT_OVERFLOW with a full buffer)");
#if AVAIL_OUT + 5 >= N /* every payload byte that can be present fits */
                VASSERT(ret == ISAL_END_INPUT, "truncated stream, output cannot fill => ISAL_END_INPUT");
#endif
                if (r.status == RFC_BOUNDARY && r.out_len <= AVAIL_OUT)
                        VASSERT(st.total_out == r.out_len, "all complete blocks delivered");
        }
        VREACHED();
}
VERIF_MAIN
