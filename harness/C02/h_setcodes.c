/* C02(c)/C06(c): set_codes (igzip_inflate.c) on alphabets of NSYM <= 19 symbols with arbitrary
 * code-length vectors 0..15, against the canonical-code algorithm of RFC 1951 3.2.2 as printed
 * (bl_count / next_code / codes in symbol order), bit-reversed the way ISA-L stores codes.
 * Over-subscription must be rejected exactly when the Kraft sum exceeds 1.
 *
 * H_DYNPREFIX: the decidable prefix of setup_dynamic_header through read_header: BFINAL/BTYPE=10 (or 11),
 * HLIT, HDIST, HCLEN on 3 arbitrary bytes: HLIT > 29 or HDIST > 29 => ISAL_INVALID_BLOCK, otherwise the
 * code-length-code lengths run out of input => ISAL_END_INPUT; differential against rfc1951.h. */
#include "harness/inflate_common/inflate_common.h"

#if !defined(H_DYNPREFIX)
#ifndef NSYM
#define NSYM 8
#endif
struct inputs {
        uint8_t len[NSYM];
        uint8_t k; /* observed symbol */
};
DECLARE_INPUTS

void
harness(void)
{
        VERIF_INPUTS();
        struct huff_code table[NSYM + 1];
        uint16_t count[MAX_HUFF_TREE_DEPTH + 1];
        /* ---- RFC 1951 3.2.2, steps 1-3, literally ---- */
        uint32_t bl_count[16], next_code[16];
        uint64_t kraft = 0; /* sum of 2^(15-len) */
        for (int b = 0; b < 16; b++)
                bl_count[b] = 0, count[b] = 0;
        for (int i = 0; i < NSYM; i++) {
                VASSUME(I.len[i] <= 15);
                count[I.len[i]]++; /* the caller's histogram, as setup_dynamic_header builds it */
                if (I.len[i])
                        kraft += 1ull << (15 - I.len[i]);
                table[i].code_and_length = 0;
                table[i].length = I.len[i];
                VASSERT(table[i].length == I.len[i] && (table[i].code_and_length >> 24) == I.len[i],
                        "sanity: huff_code members overlay as the code assumes");
        }
        table[NSYM].code_and_length = 0xA5A5A5A5;
        uint32_t code = 0;
        for (int b = 0; b < 16; b++)
                bl_count[b] = count[b]; /* step 1: bl_count[N] = number of codes of length N (the same histogram) */
        bl_count[0] = 0;
        for (int bits = 1; bits <= 15; bits++) {
                code = (code + bl_count[bits - 1]) << 1;
                next_code[bits] = code;
        }
        /* step 3 ("assign consecutive values, in symbol order, to the codes of each length, starting at
         * next_code[len]") evaluated in closed form for the observed symbol k only:
         *   code(k) = next_code[len_k] + #{ j < k : len_j == len_k }                                   */
        VASSUME(I.k < NSYM);
        uint32_t tree_code_k = next_code[I.len[I.k] ? I.len[I.k] : 1];
        for (int j = 0; j < NSYM; j++)
                if (j < I.k && I.len[j] == I.len[I.k])
                        tree_code_k = tree_code_k + 1;

        int r = set_codes(table, NSYM, count);

        VASSERT(r == 0 || r == ISAL_INVALID_BLOCK, "documented results");
        VASSERT((r == ISAL_INVALID_BLOCK) == (kraft > (1ull << 15)), "rejected exactly when the Kraft sum exceeds 1 (over-subscribed)");
        VASSERT(table[NSYM].code_and_length == 0xA5A5A5A5, "no write past the table");
        if (r == 0) {
                uint32_t len = I.len[I.k];
                VASSERT((table[I.k].code_and_length >> 24) == len, "length field preserved");
                if (len) {
                        uint32_t rev = 0;
                        for (uint32_t b = 0; b < 15; b++)
                                if (b < len && ((tree_code_k >> b) & 1))
                                        rev |= 1u << (len - 1 - b);
                        VASSERT((table[I.k].code_and_length & 0xFFFFFF) == rev,
                                "stored code == RFC 1951 3.2.2 canonical code of the symbol, bit-reversed");
                        VASSERT(tree_code_k < (1u << len), "oracle sanity: canonical code fits its length when not over-subscribed");
                }
        }
        VREACHED();
}
#else
struct inputs {
        uint8_t in[3];
};
DECLARE_INPUTS
static struct inflate_state st;
void
harness(void)
{
        VERIF_INPUTS();
        uint8_t out[8], ref_out[8];
        struct rfc_res r;
        unsigned btype = (I.in[0] >> 1) & 3;
        VASSUME(btype >= 2); /* BTYPE = 10 or the reserved 11, BFINAL arbitrary */
        rfc1951_inflate(I.in, 3, 0, ref_out, 8, 0, 0, &r);
        isal_inflate_init(&st);
        st.next_in = I.in;
        st.avail_in = 3;
        st.next_out = out;
        st.avail_out = 8;
        int ret = read_header(&st);
        uint32_t hlit = (I.in[0] >> 3) & 0x1f, hdist = (I.in[1]) & 0x1f;
        VASSERT(hlit == ((uint32_t) (I.in[0] >> 3)), "oracle sanity");
        if (btype == 3) {
                VASSERT(ret == ISAL_INVALID_BLOCK, "reserved BTYPE=11 => ISAL_INVALID_BLOCK, whatever follows");
                VASSERT(r.status == RFC_BAD_BTYPE, "reference agrees: bad block type");
        } else if (hlit > 29 || hdist > 29) {
                VASSERT(ret == ISAL_INVALID_BLOCK, "HLIT > 29 or HDIST > 29 => ISAL_INVALID_BLOCK");
                VASSERT(r.status == RFC_BAD_HEADER, "reference agrees: bad header");
        } else {
                VASSERT(ret == ISAL_END_INPUT, "valid counts, code lengths truncated => ISAL_END_INPUT");
                VASSERT(r.status == RFC_TRUNCATED, "reference agrees: truncated");
        }
        VASSERT(st.total_out == 0 && st.next_out == out, "no output");
        VREACHED();
}
#endif
VERIF_MAIN
