/* C02(b) / C06(b): decode_huffman_code_block_stateless_base entered in ISAL_BLOCK_CODED with the
 * in-tree static (fixed-Huffman) lookup tables of igzip/static_inflate.h (struct-assigned, as
 * setup_static_header's memcpy does), on N arbitrary input bytes, differential against the
 * fixed-block symbol loop of the independent spec/rfc1951.h decoder (rfc_codes).
 *
 * Concrete per query: N (1..4), AVAIL_OUT.  Symbolic: the N input bytes, bfinal.
 * The output window sits inside a zero-filled arena with 32 KiB + 258 bytes in front of it
 * (DESIGN 3.4: CBMC cannot evaluate `next_out - dist < start_out` when the left side falls before
 * the object); a decoder that wrongly reads that prefix succeeds where the reference rejects,
 * which is asserted against.
 *
 *  -DVALID_ONLY : C02 flavour, assume the reference decodes the bytes up to an end-of-block code.
 *  default      : C06 flavour, arbitrary bytes.
 */
#define IC_LOOP_MEMCPY
#include "harness/inflate_common/inflate_common.h"

#ifndef N
#define N 2
#endif
#ifndef AVAIL_OUT
#define AVAIL_OUT 3
#endif
/* Arena bytes in front of the output window, and the largest "reach before the start of output"
 * (distance minus bytes produced) the query admits.  A 32 KiB + 258 arena as planned in DESIGN 3.4
 * is out of reach (measured: N=2, > 17 GB); with PRE = 256 every distance reachable with N <= 2
 * input bytes (<= 64) is covered exactly, for N >= 3 inputs that attempt to reach further back than
 * DLIM bytes before the start of output are EXCLUDED by assumption (their only correct outcomes
 * are INVALID_LOOKBACK; CBMC's pointer model cannot evaluate the look-back guard for them). */
#ifndef PRE
#define PRE 256
#endif
#define DLIM PRE
/* The reference gets room for one byte more than the window: enough to tell "fits" from "does not
 * fit" (then the only correct answer is OUT_OVERFLOW with the window filled) while keeping its
 * match-copy loop short (a 600-byte capacity made symbolic execution run > 15 min for N=1). */
#define REFCAP (AVAIL_OUT + 1)

struct inputs {
        uint8_t in[N];
        uint8_t bfinal;
        uint8_t ext[2]; /* arbitrary continuation of a truncated input (oracle only, see below) */
};
DECLARE_INPUTS

static struct inflate_state st;
static uint8_t arena[PRE + AVAIL_OUT + 8];
static uint8_t ref_out[REFCAP], ref_out2[REFCAP];

static int
run_ref(struct rfc_st *r, const uint8_t *in, size_t nbytes, uint8_t *o, const uint8_t *dict, size_t dict_len)
{
        r->in = in, r->in_bits = nbytes * 8, r->pos = 0, r->out = o, r->out_cap = REFCAP, r->out_len = 0;
        r->dict = dict, r->dict_len = dict_len, r->eof = 0, r->max_dist = 0, r->nmatches = 0;
        return rfc_codes(r, 1, 0, 0);
}

void
harness(void)
{
        VERIF_INPUTS();
        uint8_t *out = arena + PRE;
        struct rfc_st r;
        VASSUME(I.bfinal <= 1);

        /* reference: the same bytes as the body of a fixed-Huffman block, unlimited output */
        int rs = run_ref(&r, I.in, N, ref_out, 0, 0);
#if N >= 3
        {       /* exclusion described at PRE/DLIM: with DLIM zero bytes of pretend history the reference
                 * must not hit a distance error */
                struct rfc_st rd;
                VASSUME(run_ref(&rd, I.in, N, ref_out2, arena + PRE - DLIM, DLIM) != RFC_BAD_DIST);
        }
#endif
        /* A truncated input may already be doomed: the bits present only continue to undefined
         * symbols (lit/len 1100011x = 286/287, distance 1111x = 30/31, one bit missing).  Then both
         * END_INPUT and INVALID_SYMBOL are defensible.  `doomed` is evaluated for an ARBITRARY
         * continuation ext[], i.e. INVALID_SYMBOL is accepted only if no continuation is valid. */
        int doomed = 0;
        if (rs == RFC_TRUNCATED) {
                uint8_t in2[N + 2];
                struct rfc_st r2;
                for (int i = 0; i < N; i++)
                        in2[i] = I.in[i];
                in2[N] = I.ext[0], in2[N + 1] = I.ext[1];
                doomed = run_ref(&r2, in2, N + 2, ref_out2, 0, 0) == RFC_BAD_SYMBOL && r2.pos <= N * 8 + 1;
        }
#ifdef VALID_ONLY
        VASSUME(rs == RFC_OK);
#endif

        for (int i = 0; i < 8; i++)
                arena[PRE + AVAIL_OUT + i] = 0xA5;
        isal_inflate_init(&st);
        st.lit_huff_code = static_lit_huff_code;
        st.dist_huff_code = static_dist_huff_code;
        st.block_state = ISAL_BLOCK_CODED;
        st.bfinal = I.bfinal;
        st.next_in = I.in;
        st.avail_in = N;
        st.next_out = out;
        st.avail_out = AVAIL_OUT;

        int ret = decode_huffman_code_block_stateless_base(&st, out);

        /* ---- safety / contract (C06) ---- */
        VASSERT(ret == ISAL_DECOMP_OK || ret == ISAL_END_INPUT || ret == ISAL_OUT_OVERFLOW ||
                        ret == ISAL_INVALID_SYMBOL || ret == ISAL_INVALID_LOOKBACK,
                "return code in the documented set");
        VASSERT(st.total_out <= AVAIL_OUT && st.next_out == out + st.total_out &&
                        st.avail_out == AVAIL_OUT - st.total_out,
                "total_out <= avail_out, next_out/avail_out consistent");
        for (int i = 0; i < 8; i++)
                VASSERT(arena[PRE + AVAIL_OUT + i] == 0xA5, "bytes after the output window untouched");
        VASSERT(st.next_in >= I.in && st.next_in <= I.in + N && st.avail_in == (uint32_t) (N - (st.next_in - I.in)),
                "next_in/avail_in consistent");
        for (unsigned i = 0; i < AVAIL_OUT; i++)
                if (i < st.total_out && i < r.out_len)
                        VASSERT(out[i] == ref_out[i], "delivered byte equals the reference decoder's");
        VASSERT(st.total_out <= r.out_len, "never more output than the reference produced");

        /* ---- never falsely succeeds; exact end position ---- */
        if (ret == ISAL_DECOMP_OK) {
                VASSERT(rs == RFC_OK, "success only if the reference decodes up to the end-of-block code");
                VASSERT(st.total_out == r.out_len, "same number of bytes as the reference");
                VASSERT(st.block_state == (I.bfinal ? ISAL_BLOCK_INPUT_DONE : ISAL_BLOCK_NEW_HDR), "block finished state");
                VASSERT(st.read_in_length >= 0 && ic_bitpos(&st, I.in) == r.pos,
                        "bit position (next_in*8 - read_in_length) == true end of the block");
        }
        /* ---- every valid block is reproduced ---- */
        if (rs == RFC_OK) {
                if (r.out_len <= AVAIL_OUT)
                        VASSERT(ret == ISAL_DECOMP_OK, "valid block that fits is decoded successfully");
                else
                        VASSERT(ret == ISAL_OUT_OVERFLOW && st.total_out == AVAIL_OUT,
                                "valid block that does not fit: OUT_OVERFLOW with the window filled");
        }
        if (rs == RFC_OUTFULL) /* more than AVAIL_OUT bytes precede any error */
                VASSERT(ret == ISAL_OUT_OVERFLOW && st.total_out == AVAIL_OUT,
                        "output larger than the window: OUT_OVERFLOW with the window filled");
        /* ---- documented error classes ---- */
        if (rs == RFC_BAD_SYMBOL) { /* lit/len 286,287 or distance code 30,31 */
                if (r.out_len <= AVAIL_OUT)
                        VASSERT(ret == ISAL_INVALID_SYMBOL, "undefined symbol => ISAL_INVALID_SYMBOL");
                else
                        VASSERT(ret == ISAL_INVALID_SYMBOL || ret == ISAL_OUT_OVERFLOW, "undefined symbol after the window filled");
        }
        if (rs == RFC_BAD_DIST) {
                if (r.out_len <= AVAIL_OUT)
                        VASSERT(ret == ISAL_INVALID_LOOKBACK, "distance > bytes produced => ISAL_INVALID_LOOKBACK");
                else
                        VASSERT(ret == ISAL_INVALID_LOOKBACK || ret == ISAL_OUT_OVERFLOW, "bad distance after the window filled");
        }
        if (rs == RFC_TRUNCATED) {
                if (r.out_len <= AVAIL_OUT)
                        VASSERT(ret == ISAL_END_INPUT || (doomed && ret == ISAL_INVALID_SYMBOL),
                                "input ends inside a symbol => ISAL_END_INPUT (INVALID_SYMBOL only if every continuation is undefined)");
                else
                        VASSERT(ret == ISAL_END_INPUT || ret == ISAL_OUT_OVERFLOW || (doomed && ret == ISAL_INVALID_SYMBOL),
                                "truncated after the window filled");
                if (ret == ISAL_END_INPUT)
                        VASSERT(st.read_in_length >= 0 && ic_bitpos(&st, I.in) <= N * 8 && st.block_state == ISAL_BLOCK_CODED,
                                "END_INPUT: bit buffer rolled back to a symbol boundary, block still open");
        }
        VREACHED();
}
VERIF_MAIN
