/* (lead) The same harness and oracle as C02/h_fixed.c, with the decoder under test selectable:
 *   default            decode_huffman_code_block_stateless_base (C)
 *   -DASMDEC=01 / 04   the ASSEMBLY kernel decode_huffman_code_block_stateless_01/_04, lifted instruction by
 *                      instruction to C at check time (vlib/x86lift.py -> lift_asmdec.c in the scratch include
 *                      directory) and run on an explicit address-space model (state / input / output arena /
 *                      stack / the image's constant tables); any access outside those regions is a violation.
 *   -DPAD=k            k concrete zero bytes (end-of-block codes) follow the N arbitrary bytes, so that the kernel's
 *                      speculative main loop (needs >= 8 input bytes and > 274 bytes of output space) is entered.
 *
 * C02(b) / C06(b): decode_huffman_code_block_stateless_base entered in ISAL_BLOCK_CODED with the
 * in-tree static (fixed-Huffman) lookup tables of igzip/static_inflate.h (struct-assigned, as
 * setup_static_header's memcpy does), on N arbitrary input bytes, differential against the
 * fixed-block symbol loop of the independent spec/rfc1951.h decoder (rfc_codes).
 *
 * Concrete per query: N (1..4), AVAIL_OUT.  Symbolic: the N input bytes, bfinal.
 * The output window sits inside a zero-filled arena with 32 KiB + 258 bytes in front of it
 * (DESIGN 3.4: CBMC cannot evaluate `next_out - dist < start_out` when the left side falls before
 * the object); a decoder that wrongly reads that prefix succeeds where the reference rejects,
 * which is asserted against.
 *
 *  -DVALID_ONLY : C02 flavour, assume the reference decodes the bytes up to an end-of-block code.
 *  default      : C06 flavour, arbitrary bytes.
 */
#define IC_LOOP_MEMCPY
#include "harness/inflate_common/inflate_common.h"

#ifndef N
#define N 2
#endif
#ifndef PAD
#define PAD 0
#endif
#define NT (N + PAD)
#ifndef AVAIL_OUT
#define AVAIL_OUT 3
#endif
/* Arena bytes in front of the output window, and the largest "reach before the start of output"
 * (distance minus bytes produced) the query admits.  A 32 KiB + 258 arena as planned in DESIGN 3.4
 * is out of reach (measured: N=2, > 17 GB); with PRE = 256 every distance reachable with N <= 2
 * input bytes (<= 64) is covered exactly, for N >= 3 inputs that attempt to reach further back than
 * DLIM bytes before the start of output are EXCLUDED by assumption (their only correct outcomes
 * are INVALID_LOOKBACK; CBMC's pointer model cannot evaluate the look-back guard for them). */
#ifndef PRE
#define PRE 256
#endif
#define DLIM PRE
/* The reference gets room for one byte more than the window: enough to tell "fits" from "does not
 * fit" (then the only correct answer is OUT_OVERFLOW with the window filled) while keeping its
 * match-copy loop short (a 600-byte capacity made symbolic execution run > 15 min for N=1). */
#ifndef REFCAP
#define REFCAP (AVAIL_OUT + 1)
#else
#define REF_LIMITED 1 /* -DREFCAP=k with a large AVAIL_OUT: inputs whose output exceeds k-1 bytes are outside the query */
#endif

struct inputs {
        uint8_t in[N];
        uint8_t bfinal;
        uint8_t ext[2]; /* arbitrary continuation of a truncated input (oracle only, see below) */
};
DECLARE_INPUTS

static struct inflate_state st;
static uint8_t arena[PRE + AVAIL_OUT + 8];
static uint8_t inb[NT];

#ifndef ASMDEC
#define DECODER decode_huffman_code_block_stateless_base
#else
/* ---------------------------------------------------------------- address-space model for the lifted kernel */
#define STATE_BASE 0x10000000ULL
#define IN_BASE 0x20000000ULL
#define OUT_BASE 0x30000000ULL /* arena[0] */
#define STACK_BASE 0x40000000ULL
#define STACK_SIZE 256
/* 8-byte slots (<= 64 of them): CBMC keeps small arrays field-sensitive, so saved registers and spilled loop bounds stay
 * concrete for the symbolic executor (as a byte array the spilled loop bound became symbolic and every loop was unrolled
 * to its limit); the kernels only use aligned 8-byte stack accesses, anything else is reported */
static uint64_t lift_stack[STACK_SIZE / 8];
static uint64_t v_next_in, v_next_out;
#define OFF(f) offsetof(struct inflate_state, f)
static uint64_t LIFT_RD(uint64_t a, int n);
static void LIFT_WR(uint64_t a, int n, uint64_t v);
#define LIFT_UNREACHABLE() VASSERT(0, "lifted code: fell through the end of a basic block that cannot fall through")
#include "lift_asmdec.c"

static uint64_t
state_rd(uint64_t off, int n)
{
        if (off == OFF(next_out) && n == 8)
                return v_next_out;
        if (off == OFF(next_in) && n == 8)
                return v_next_in;
        if (off == OFF(read_in) && n == 8)
                return st.read_in;
        if (n == 4) {
                if (off == OFF(avail_out))
                        return st.avail_out;
                if (off == OFF(total_out))
                        return st.total_out;
                if (off == OFF(avail_in))
                        return st.avail_in;
                if (off == OFF(read_in_length))
                        return (uint32_t) st.read_in_length;
                if (off == OFF(bfinal))
                        return st.bfinal;
                if (off == OFF(block_state))
                        return (uint32_t) st.block_state;
                if (off == OFF(write_overflow_lits))
                        return (uint32_t) st.write_overflow_lits;
                if (off == OFF(write_overflow_len))
                        return (uint32_t) st.write_overflow_len;
                if (off == OFF(copy_overflow_length))
                        return (uint32_t) st.copy_overflow_length;
                if (off == OFF(copy_overflow_distance))
                        return (uint32_t) st.copy_overflow_distance;
                if (off >= OFF(lit_huff_code.short_code_lookup) && off < OFF(lit_huff_code.long_code_lookup) && !(off & 3))
                        return st.lit_huff_code.short_code_lookup[(off - OFF(lit_huff_code.short_code_lookup)) / 4];
        }
        if (n == 2 && !(off & 1)) {
                if (off >= OFF(lit_huff_code.long_code_lookup) && off < OFF(lit_huff_code.long_code_lookup) + sizeof(st.lit_huff_code.long_code_lookup))
                        return st.lit_huff_code.long_code_lookup[(off - OFF(lit_huff_code.long_code_lookup)) / 2];
                if (off >= OFF(dist_huff_code.short_code_lookup) && off < OFF(dist_huff_code.long_code_lookup))
                        return st.dist_huff_code.short_code_lookup[(off - OFF(dist_huff_code.short_code_lookup)) / 2];
                if (off >= OFF(dist_huff_code.long_code_lookup) && off < OFF(dist_huff_code.long_code_lookup) + sizeof(st.dist_huff_code.long_code_lookup))
                        return st.dist_huff_code.long_code_lookup[(off - OFF(dist_huff_code.long_code_lookup)) / 2];
        }
        VASSERT(0, "assembly decoder reads a state field / width outside the modelled set");
        return 0;
}

static void
state_wr(uint64_t off, int n, uint64_t v)
{
        if (off == OFF(next_out) && n == 8)
                v_next_out = v;
        else if (off == OFF(next_in) && n == 8)
                v_next_in = v;
        else if (off == OFF(read_in) && n == 8)
                st.read_in = v;
        else if (off == OFF(avail_out) && n == 4)
                st.avail_out = (uint32_t) v;
        else if (off == OFF(total_out) && n == 4)
                st.total_out = (uint32_t) v;
        else if (off == OFF(avail_in) && n == 4)
                st.avail_in = (uint32_t) v;
        else if (off == OFF(read_in_length) && n == 4)
                st.read_in_length = (int32_t) (uint32_t) v;
        else if (off == OFF(block_state) && (n == 4 || n == 1))
                st.block_state = (n == 4) ? (uint32_t) v : ((uint32_t) st.block_state & ~0xffu) | (uint8_t) v;
        else if (off == OFF(write_overflow_lits) && n == 4)
                st.write_overflow_lits = (int32_t) (uint32_t) v;
        else if (off == OFF(write_overflow_len) && n == 4)
                st.write_overflow_len = (int32_t) (uint32_t) v;
        else if (off == OFF(copy_overflow_length) && n == 4)
                st.copy_overflow_length = (int32_t) (uint32_t) v;
        else if (off == OFF(copy_overflow_distance) && n == 4)
                st.copy_overflow_distance = (int32_t) (uint32_t) v;
        else
                VASSERT(0, "assembly decoder writes a state field / width outside the modelled set");
}

static uint8_t
rd8(uint64_t a)
{
        uint8_t b;
        if (a - IN_BASE < NT)
                return inb[a - IN_BASE];
        if (a - OUT_BASE < sizeof(arena))
                return arena[a - OUT_BASE];
        if (lift_img_byte(a, &b))
                return b;
        VASSERT(0, "assembly decoder reads outside the input, the output arena, its stack and its constant tables");
        return 0;
}

static uint64_t
LIFT_RD(uint64_t a, int n)
{
        if (a - STATE_BASE < sizeof(struct inflate_state))
                return state_rd(a - STATE_BASE, n);
        if (a - STACK_BASE < STACK_SIZE) {
                VASSERT(n == 8 && !(a & 7), "stack access is an aligned 8-byte slot");
                return lift_stack[(a - STACK_BASE) / 8];
        }
        uint64_t v = 0;
        for (int i = 0; i < n; i++)
                v |= (uint64_t) rd8(a + i) << (8 * i);
        return v;
}

static void
LIFT_WR(uint64_t a, int n, uint64_t v)
{
        if (a - STATE_BASE < sizeof(struct inflate_state)) {
                state_wr(a - STATE_BASE, n, v);
                return;
        }
        if (a - STACK_BASE < STACK_SIZE) {
                VASSERT(n == 8 && !(a & 7), "stack access is an aligned 8-byte slot");
                lift_stack[(a - STACK_BASE) / 8] = v;
                return;
        }
        for (int i = 0; i < n; i++) {
                uint64_t p = a + i;
                uint8_t b = (uint8_t) (v >> (8 * i));
                if (p - OUT_BASE < sizeof(arena))
                        arena[p - OUT_BASE] = b;
                else
                        VASSERT(0, "assembly decoder writes outside the output arena and its stack");
        }
}

#define LIFTFN_(v) lift_decode_huffman_code_block_stateless_##v
#define LIFTFN(v) LIFTFN_(v)
static int
asm_decode(struct inflate_state *s, uint8_t *start_out)
{
        v_next_in = IN_BASE + (uint64_t) (s->next_in - inb);
        v_next_out = OUT_BASE + (uint64_t) (s->next_out - arena);
        uint64_t r = LIFTFN(ASMDEC)(STATE_BASE, OUT_BASE + (uint64_t) (start_out - arena), 0, 0, STACK_BASE + STACK_SIZE - 64);
        VASSERT(v_next_in - IN_BASE <= NT, "next_in inside the input");
        VASSERT(v_next_out - OUT_BASE <= sizeof(arena), "next_out inside the arena");
        s->next_in = inb + (v_next_in - IN_BASE);
        s->next_out = arena + (v_next_out - OUT_BASE);
        return (int) (int32_t) (uint32_t) r;
}
#define DECODER asm_decode
#endif
static uint8_t ref_out[REFCAP], ref_out2[REFCAP];

static int
run_ref(struct rfc_st *r, const uint8_t *in, size_t nbytes, uint8_t *o, const uint8_t *dict, size_t dict_len)
{
        r->in = in, r->in_bits = nbytes * 8, r->pos = 0, r->out = o, r->out_cap = REFCAP, r->out_len = 0;
        r->dict = dict, r->dict_len = dict_len, r->eof = 0, r->max_dist = 0, r->nmatches = 0;
        return rfc_codes(r, 1, 0, 0);
}

void
harness(void)
{
        VERIF_INPUTS();
        for (int i = 0; i < NT; i++)
                inb[i] = i < N ? I.in[i] : 0; /* PAD concrete zero bytes: end-of-block codes */
        uint8_t *out = arena + PRE;
        struct rfc_st r;
        VASSUME(I.bfinal <= 1);

        /* reference: the same bytes as the body of a fixed-Huffman block, unlimited output */
        int rs = run_ref(&r, inb, NT, ref_out, 0, 0);
#if NT >= 3
        {       /* exclusion described at PRE/DLIM: with DLIM zero bytes of pretend history the reference
                 * must not hit a distance error */
                struct rfc_st rd;
                VASSUME(run_ref(&rd, inb, NT, ref_out2, arena + PRE - DLIM, DLIM) != RFC_BAD_DIST);
        }
#endif
        /* A truncated input may already be doomed: the bits present only continue to undefined
         * symbols (lit/len 1100011x = 286/287, distance 1111x = 30/31, one bit missing).  Then both
         * END_INPUT and INVALID_SYMBOL are defensible.  `doomed` is evaluated for an ARBITRARY
         * continuation ext[], i.e. INVALID_SYMBOL is accepted only if no continuation is valid. */
        int doomed = 0;
        if (rs == RFC_TRUNCATED) {
                uint8_t in2[NT + 2];
                struct rfc_st r2;
                for (int i = 0; i < NT; i++)
                        in2[i] = inb[i];
                in2[NT] = I.ext[0], in2[NT + 1] = I.ext[1];
                doomed = run_ref(&r2, in2, NT + 2, ref_out2, 0, 0) == RFC_BAD_SYMBOL && r2.pos <= NT * 8 + 1;
        }
#ifdef VALID_ONLY
        VASSUME(rs == RFC_OK);
#endif
#ifdef REF_LIMITED
        VASSUME(rs != RFC_OUTFULL && r.out_len < REFCAP);
#endif

        for (int i = 0; i < 8; i++)
                arena[PRE + AVAIL_OUT + i] = 0xA5;
        isal_inflate_init(&st);
        st.lit_huff_code = static_lit_huff_code;
        st.dist_huff_code = static_dist_huff_code;
        st.block_state = ISAL_BLOCK_CODED;
        st.bfinal = I.bfinal;
        st.next_in = inb;
        st.avail_in = NT;
        st.next_out = out;
        st.avail_out = AVAIL_OUT;

        int ret = DECODER(&st, out);

        /* ---- safety / contract (C06) ---- */
        VASSERT(ret == ISAL_DECOMP_OK || ret == ISAL_END_INPUT || ret == ISAL_OUT_OVERFLOW ||
                        ret == ISAL_INVALID_SYMBOL || ret == ISAL_INVALID_LOOKBACK,
                "return code in the documented set");
        VASSERT(st.total_out <= AVAIL_OUT && st.next_out == out + st.total_out &&
                        st.avail_out == AVAIL_OUT - st.total_out,
                "total_out <= avail_out, next_out/avail_out consistent");
        for (int i = 0; i < 8; i++)
                VASSERT(arena[PRE + AVAIL_OUT + i] == 0xA5, "bytes after the output window untouched");
        VASSERT(st.next_in >= inb && st.next_in <= inb + NT && st.avail_in == (uint32_t) (NT - (st.next_in - inb)),
                "next_in/avail_in consistent");
        for (unsigned i = 0; i < AVAIL_OUT; i++)
                if (i < st.total_out && i < r.out_len)
                        VASSERT(out[i] == ref_out[i], "delivered byte equals the reference decoder's");
        VASSERT(st.total_out <= r.out_len, "never more output than the reference produced");

        /* ---- never falsely succeeds; exact end position ---- */
        if (ret == ISAL_DECOMP_OK) {
                VASSERT(rs == RFC_OK, "success only if the reference decodes up to the end-of-block code");
                VASSERT(st.total_out == r.out_len, "same number of bytes as the reference");
                VASSERT(st.block_state == (I.bfinal ? ISAL_BLOCK_INPUT_DONE : ISAL_BLOCK_NEW_HDR), "block finished state");
                VASSERT(st.read_in_length >= 0 && ic_bitpos(&st, inb) == r.pos,
                        "bit position (next_in*8 - read_in_length) == true end of the block");
        }
        /* ---- every valid block is reproduced ---- */
        if (rs == RFC_OK) {
                if (r.out_len <= AVAIL_OUT)
                        VASSERT(ret == ISAL_DECOMP_OK, "valid block that fits is decoded successfully");
                else
                        VASSERT(ret == ISAL_OUT_OVERFLOW && st.total_out == AVAIL_OUT,
                                "valid block that does not fit: OUT_OVERFLOW with the window filled");
        }
        if (rs == RFC_OUTFULL) /* more than AVAIL_OUT bytes precede any error */
                VASSERT(ret == ISAL_OUT_OVERFLOW && st.total_out == AVAIL_OUT,
                        "output larger than the window: OUT_OVERFLOW with the window filled");
        /* ---- documented error classes ---- */
        if (rs == RFC_BAD_SYMBOL) { /* lit/len 286,287 or distance code 30,31 */
                if (r.out_len <= AVAIL_OUT)
                        VASSERT(ret == ISAL_INVALID_SYMBOL, "undefined symbol => ISAL_INVALID_SYMBOL");
                else
                        VASSERT(ret == ISAL_INVALID_SYMBOL || ret == ISAL_OUT_OVERFLOW, "undefined symbol after the window filled");
        }
        if (rs == RFC_BAD_DIST) {
                if (r.out_len <= AVAIL_OUT)
                        VASSERT(ret == ISAL_INVALID_LOOKBACK, "distance > bytes produced => ISAL_INVALID_LOOKBACK");
                else
                        VASSERT(ret == ISAL_INVALID_LOOKBACK || ret == ISAL_OUT_OVERFLOW, "bad distance after the window filled");
        }
        if (rs == RFC_TRUNCATED) {
                if (r.out_len <= AVAIL_OUT)
                        VASSERT(ret == ISAL_END_INPUT || (doomed && ret == ISAL_INVALID_SYMBOL),
                                "input ends inside a symbol => ISAL_END_INPUT (INVALID_SYMBOL only if every continuation is undefined)");
                else
                        VASSERT(ret == ISAL_END_INPUT || ret == ISAL_OUT_OVERFLOW || (doomed && ret == ISAL_INVALID_SYMBOL),
                                "truncated after the window filled");
                if (ret == ISAL_END_INPUT)
                        VASSERT(st.read_in_length >= 0 && ic_bitpos(&st, inb) <= NT * 8 && st.block_state == ISAL_BLOCK_CODED,
                                "END_INPUT: bit buffer rolled back to a symbol boundary, block still open");
        }
        VREACHED();
}
VERIF_MAIN
