from vlib.core import Query, Plan
from harness.inflate_common import plans as P


def plan(tier, ctx):
    qs = []
    quick = tier == "quick"
    # (a) stored blocks, valid streams only
    ns = [5, 6, 8, 10, 12] if quick else list(range(0, 13))
    aos = [0, 1, 3, 8] if quick else list(range(0, 9))
    for n in ns:
        for ao in aos:
            core = (n, ao) in ((10, 3), (6, 8))
            qs.append(P.stored_query("C02", n, ao, True, core=core, witness=core))
    return Plan("C02", "model_checking", qs,
                functions_encoded=["isal_inflate_stateless (driver loop, crc_flag=ISAL_DEFLATE)", "read_header",
                                   "decode_literal_block", "inflate_in_load", "inflate_in_read_bits"],
                bounds={}, stubs=[], assumptions=[], outside=[])
