from vlib.core import Plan
from harness.inflate_common import plans as P


def plan(tier, ctx):
    qs = []
    quick = tier == "quick"
    # (a) stored blocks through the real isal_inflate_stateless, valid streams only
    ns = [5, 6, 8, 10, 12] if quick else list(range(0, 13))
    aos = [0, 1, 3, 8] if quick else list(range(0, 9))
    for n in ns:
        for ao in aos:
            core = (n, ao) in ((10, 3), (6, 8))
            qs.append(P.stored_query("C02", n, ao, True, core=core, witness=core))
    # (c) canonical code assignment / over-subscription, dynamic-header prefix
    #     (measured: nsym=5 110 s, nsym=19 > 150 s; cost is the ordered next_code[len]++ chain)
    for nsym in ([2, 3, 4] if quick else list(range(1, 9))):
        qs.append(P.setcodes_query(nsym, core=(nsym == 3), witness=(nsym == 3), timeout=(None if quick else 2400)))
    qs.append(P.dynprefix_query())
    # (d) dynamic header: code-length decoding loop, concrete prefix + arbitrary tail (lead)
    #     measured (loaded machine): tail=1 ~180 s / 2.8 GB, tail=2 ~510 s / 3.6 GB per query
    dl = [(5, 3, 1, 1)] if quick else [(0, 0, 2, 1), (5, 3, 1, 1), (29, 29, 3, 1), (0, 0, 2, 2), (2, 1, 1, 2), (0, 4, 0, 2)]
    for (hlit, hdist, back, tail) in dl:
        qs.append(P.dynlens_query(hlit, hdist, back, tail, core=False, witness=(not quick and tail == 1 and hlit == 0), timeout=(600 if quick else 2400),
                                  mem_gb=12))
    #     the pair cut out of (d): table builder + symbol decoder of the code-length code, concrete shapes
    for i, lens in enumerate(P.MKHDR_SHAPES):
        qs.append(P.mkhdr_query(i, lens, core=(i == 0), witness=(i == 0)))
    # (e) trailer consumption: exact end position with data following the trailer (1-2 s each)
    rils = [0, 3, 8, 31, 32, 35, 40, 61, 64] if quick else list(range(0, 65))
    avs = [0, 3, 6, 9] if quick else [0, 1, 2, 3, 4, 5, 7, 8, 9, 11]
    for kind in ("zlib", "gzip"):
        for ril in rils:
            for av in avs:
                core = (kind, ril, av) in (("zlib", 40, 3), ("gzip", 64, 3))
                qs.append(P.trailer_query(kind, ril, av, core=core, witness=core))
    # (b) fixed-Huffman block decoder unit (measured: n=1 ~115 s, n=2 ~265 s, n=3 ~310 s per cbmc run)
    if quick:
        fixed = [(1, 0), (1, 3), (2, 3)]
    else:
        fixed = [(n, ao) for n in (1, 2) for ao in (0, 1, 2, 3, 16)] + [(3, 3), (3, 0), (3, 16), (4, 3)]
    for (n, ao) in fixed:
        qs.append(P.fixed_query("C02", n, ao, True, core=False, witness=(not quick and (n, ao) == (2, 3)),
                                timeout=(600 if quick else 2400), mem_gb=(None if quick else 24)))
    # (f) (lead) engine C: the assembly decoders lifted to C, valid blocks ("every decode-kernel variant gives the same result")
    if not quick:
        for v in ("04", "01"):
            qs.append(P.asmdec_query(v, 1, 0, 3, True, unwind=4, timeout=2400, mem_gb=16))
    # opt-in experiment, NOT part of the registered check (measured 2026-10-03: no verdict in 1500 s even for the C decoder with one
    # symbolic byte -- the tables built from a dynamic header stay array-theory objects of 20 KB): dynamic block with long codes
    import os
    if os.environ.get("VERIF_DYNCODES"):
        qs.append(P.dyncodes_query(os.environ["VERIF_DYNCODES"], 1, 3, True, timeout=1500, mem_gb=20))
    return Plan("C02", "model_checking", qs,
                functions_encoded=P.FUNCS, bounds=P.bounds(True), stubs=P.STUBS,
                assumptions=P.ASSUMPTIONS + ["flavour: the reference decoder accepts the input (well-formed stream / block)"],
                outside=P.OUTSIDE, trusted_base=["cbmc 6.11 C front end + SAT back end", "spec/rfc1951.h (self-tested against zlib)"])
