/* C02 (trailer accepted, exact end position): check_zlib_checksum / check_gzip_checksum
 * (igzip_inflate.c) entered the way isal_inflate enters them after the last block: an arbitrary bit
 * buffer holding RIL bits (concrete per query, 0..64; contents symbolic), AVAIL further input
 * bytes (concrete, contents symbolic), arbitrary running checksum / total_out.
 * The stream seen by a reader is: the whole bytes left in the bit buffer after discarding the
 * sub-byte remainder of the last deflate block, followed by the input bytes.
 *   enough bytes:  exactly the trailer (4 resp. 8 bytes) is consumed - the position the API reports
 *                  (next_in minus whole bytes still buffered) is the true end of the stream even when
 *                  more data follows in the same buffer; OK <=> trailer equals the checksum;
 *   too few bytes: ISAL_END_INPUT, state ISAL_CHECKSUM_CHECK, nothing lost (bytes kept in tmp_in_buffer). */
#include "harness/inflate_common/inflate_common.h"

#ifndef RIL
#define RIL 40
#endif
#ifndef AVAIL
#define AVAIL 3
#endif
#ifdef H_GZIP
#define TRL 8
#else
#define TRL 4
#endif

struct inputs {
        uint64_t read_in;
        uint8_t in[AVAIL ? AVAIL : 1];
        uint32_t crc, total_out;
};
DECLARE_INPUTS

static struct inflate_state st;

void
harness(void)
{
        VERIF_INPUTS();
        uint8_t inbuf[AVAIL ? AVAIL : 1];
        uint8_t stream[8 + AVAIL]; /* what a reader sees: whole buffered bytes, then the input */
        for (int i = 0; i < AVAIL; i++)
                inbuf[i] = I.in[i];
        /* invariant of inflate_in_load: bits above read_in_length are zero */
        uint64_t rin = RIL >= 64 ? I.read_in : (I.read_in & ((1ull << (RIL % 64)) - 1));
        unsigned whole = RIL / 8;
        for (unsigned i = 0; i < whole; i++)
                stream[i] = (uint8_t) (rin >> (RIL % 8 + 8 * i));
        for (int i = 0; i < AVAIL; i++)
                stream[whole + i] = I.in[i];

        st.read_in = rin;
        st.read_in_length = RIL;
        st.next_in = inbuf;
        st.avail_in = AVAIL;
        st.tmp_in_size = 0;
        st.crc = I.crc;
        st.total_out = I.total_out;
        st.block_state = ISAL_BLOCK_INPUT_DONE;
#ifdef H_GZIP
        int ret = check_gzip_checksum(&st);
#else
        int ret = check_zlib_checksum(&st);
#endif
        unsigned left = (unsigned) (st.read_in_length / 8) + st.avail_in; /* whole bytes the API reports as unconsumed */
        VASSERT(st.read_in_length >= 0 && st.next_in == inbuf + (AVAIL - st.avail_in), "bit buffer / input cursor consistent");
        if (whole + AVAIL >= TRL) {
                VASSERT(ret == ISAL_DECOMP_OK || ret == ISAL_INCORRECT_CHECKSUM, "complete trailer: OK or INCORRECT_CHECKSUM");
                VASSERT(left == whole + AVAIL - TRL, "exactly the trailer is consumed: reported position == true end of the stream");
                VASSERT(st.block_state == ISAL_BLOCK_FINISH && st.tmp_in_size == 0, "finished, no bytes parked");
#ifdef H_GZIP
                uint32_t t_crc = stream[0] | (stream[1] << 8) | (stream[2] << 16) | ((uint32_t) stream[3] << 24);
                uint32_t t_len = stream[4] | (stream[5] << 8) | (stream[6] << 16) | ((uint32_t) stream[7] << 24);
                VASSERT((ret == ISAL_DECOMP_OK) == (t_crc == I.crc && t_len == I.total_out), "OK <=> CRC32 and ISIZE (little-endian) match");
#else
                uint32_t t_adler = ((uint32_t) stream[0] << 24) | (stream[1] << 16) | (stream[2] << 8) | stream[3];
                VASSERT((ret == ISAL_DECOMP_OK) == (t_adler == I.crc), "OK <=> Adler-32 (most significant byte first) matches");
#endif
                /* bytes following the trailer are still there for the caller */
                for (unsigned i = 0; i < 8 + AVAIL; i++)
                        if (i < left) {
                                unsigned idx = TRL + i; /* position in `stream` */
                                unsigned inbuf_left = (unsigned) (st.read_in_length / 8);
                                uint8_t got = i < inbuf_left ? (uint8_t) (st.read_in >> (st.read_in_length % 8 + 8 * i))
                                                             : st.next_in[i - inbuf_left];
                                VASSERT(got == stream[idx], "data after the trailer is preserved in order");
                        }
        } else {
                VASSERT(ret == ISAL_END_INPUT && st.block_state == ISAL_CHECKSUM_CHECK, "incomplete trailer => END_INPUT, resumable");
                VASSERT(st.avail_in == 0 && (unsigned) st.tmp_in_size + (unsigned) (st.read_in_length / 8) == whole + AVAIL,
                        "every trailer byte seen so far is kept for the next call");
        }
        VREACHED();
}
VERIF_MAIN
