from vlib.core import Query, Plan

R = "vlib.cbmc:cbmc_query"
H = "harness/C12/h_gf.c"


def plan(tier, ctx):
    qs = []
    for cfg, defs in (("default", []), ("large_tables", ["GF_LARGE_TABLES"])):
        units = ["erasure_code/ec_base.c"]
        for h, unw in (("H_INV", 9), ("H_TBL", 49)) + ((("H_MUL", 9),) if not defs else ()):
            qs.append(Query("%s/%s" % (h, cfg), R, dict(harness=H, units=units, defines=defs, hdefines=[h],
                                                        unwind=unw, witness=True, timeout=600), core=True, family=h))
        if cfg == "default":
            for off in (1, 3, 4, 7):
                qs.append(Query("H_TBL/%s/off%d" % (cfg, off), R, dict(harness=H, units=units, defines=defs, hdefines=["H_TBL", "TBL_OFF=%d" % off],
                                                                      unwind=49, witness=False, timeout=600), core=False, family="H_TBL"))
        if defs:  # 64 KiB table: case split on the high nibble of b, all 16 cases
            for bh in range(16):
                qs.append(Query("H_MUL/%s/bhi%d" % (cfg, bh), R,
                                dict(harness=H, units=units, defines=defs, hdefines=["H_MUL", "B_HI=%d" % bh],
                                     unwind=9, witness=(bh == 7), timeout=600), core=True, family="H_MUL", weight=5))
        if cfg == "default":
            # gf_vect_mul_init has a second, portable body ("32-bit or other", also big-endian hosts) that the x86-64 build never
            # compiles: decided here by overriding the predefined byte-order macro for the unit (word-size independent C)
            qs.append(Query("H_TBL/portable_branch", R, dict(harness=H, units=units, defines=["__BYTE_ORDER__=4321"], hdefines=["H_TBL"],
                                                             unwind=49, witness=True, timeout=600), core=False, family="H_TBL"))
            for (k, rows) in [(1, 1), (2, 3), (3, 2), (4, 4), (1, 4), (4, 1)] + ([(2, 2), (3, 3), (4, 3), (3, 4)] if tier != "quick" else []):
                qs.append(Query("H_INIT/k%d_r%d" % (k, rows), R,
                                dict(harness=H, units=units, hdefines=["H_INIT", "KK=%d" % k, "ROWS=%d" % rows],
                                     unwind=max(9, k * rows + 1), witness=(k == 4 and rows == 4)),
                                core=(k == 4 and rows == 4), family="H_INIT"))
                qs.append(Query("H_GFNI_INIT/k%d_r%d" % (k, rows), R,
                                dict(harness=H, units=["erasure_code/ec_highlevel_func.c"],
                                     hdefines=["H_GFNI_INIT", "KK=%d" % k, "ROWS=%d" % rows],
                                     unwind=max(9, k * rows + 1), witness=(k == 4 and rows == 4)),
                                core=(k == 4 and rows == 4), family="H_GFNI_INIT"))
    # field axioms of the specification, case-split on a (quick: 6 values, thorough: all 256)
    avals = [0, 1, 2, 0x1d, 0x80, 0xff] if tier == "quick" else list(range(256))
    for a in avals:
        for h in ("H_AXIOMS", "H_ASSOC"):
            qs.append(Query("%s/a%d" % (h, a), R, dict(harness=H, units=["erasure_code/ec_base.c"],
                                                       hdefines=[h, "A_CONST=%d" % a], unwind=9,
                                                       witness=(a == 2), timeout=600), core=False, family=h))
    qs.append(Query("H_GFNI/default", R, dict(harness=H, units=[], hdefines=["H_GFNI"], unwind=9, witness=True),
                    core=True, family="H_GFNI"))
    return Plan("C12", "model_checking", qs,
                functions_encoded=["gf_mul", "gf_inv", "gf_vect_mul_init", "ec_init_tables_base", "ec_init_tables_gfni",
                                   "tables gff_base/gflog_base/gf_mul_table_base/gf_inv_table_base/gf_table_gfni"],
                bounds={"operands": "all 2^8 (a), 2^16 (a,b), 2^24 (a,b,c) values symbolic; k,rows in 1..4 for table layout",
                        "builds": ["default", "-DGF_LARGE_TABLES"]},
                outside=["ec_init_tables layout for k*rows > 16"],
                assumptions=["spec/gf256.h is the definition of GF(2^8)/0x11D (8-step shift-xor, no tables)",
                             "GF2P8AFFINEQB semantics transcribed from the Intel SDM"],
                trusted_base=["cbmc 6.11 C front end + SAT back end", "spec/gf256.h"],
                extra={"exhaustive": True})
