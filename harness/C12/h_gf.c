/* C12: GF(2^8) scalar arithmetic and table builders of erasure_code/ec_base.c against the
 * polynomial specification, for ALL operands (exhaustive by solver). */
#include <string.h>
#include "verif.h"
#include "gf256.h"
#include "erasure_code.h"
#include "ec_base.h"

struct inputs {
        uint8_t a, b, c, s;
        uint8_t i;
        uint8_t k, rows;
        uint8_t coef[16];
        uint8_t r, j;
        uint8_t stale[2]; /* previous contents of the observed table entry / of an arbitrary other byte of the buffer */
        uint16_t stale_at;
};
DECLARE_INPUTS

#ifdef H_GFNI_INIT
void ec_init_tables_gfni(int k, int rows, unsigned char *a, unsigned char *g_tbls);
#endif

void
harness(void)
{
        VERIF_INPUTS();
#if defined(H_MUL)
#ifdef B_HI
        VASSUME((I.b >> 4) == B_HI); /* case split, all 16 cases are swept */
#endif
        uint8_t r = gf_mul(I.a, I.b);
        VASSERT(r == spec_gf_mul(I.a, I.b), "gf_mul(a,b) == clmul(a,b) mod 0x11D");
#elif defined(H_INV)
        uint8_t v = gf_inv(I.a);
        if (I.a == 0)
                VASSERT(v == 0, "gf_inv(0)==0");
        else {
                VASSERT(spec_gf_mul(I.a, v) == 1, "a*inv(a)==1 (spec mul)");
#ifndef GF_LARGE_TABLES
                VASSERT(gf_mul(I.a, v) == 1, "a*inv(a)==1 (gf_mul)");
#endif
        }
#elif defined(H_AXIOMS)
        /* field axioms of the specification itself (gf_mul == spec is H_MUL) */
        uint8_t a = A_CONST, b = I.b, c = I.c; /* case split on a: swept by the plan */
        VASSERT(spec_gf_mul(a, b) == spec_gf_mul(b, a), "commutative");
        VASSERT(spec_gf_mul(a, b ^ c) == (spec_gf_mul(a, b) ^ spec_gf_mul(a, c)), "distributive");
        VASSERT(spec_gf_mul(a, 0) == 0 && spec_gf_mul(0, a) == 0, "zero absorbing");
        VASSERT(spec_gf_mul(a, 1) == a, "one neutral");
        VASSERT(gf_mul(a, 0) == 0 && gf_mul(0, a) == 0 && gf_mul(a, 1) == a && gf_mul(1, a) == a, "gf_mul 0/1");
#elif defined(H_ASSOC)
        uint8_t a = A_CONST, b = I.b, c = I.c;
        VASSERT(spec_gf_mul(spec_gf_mul(a, b), c) == spec_gf_mul(a, spec_gf_mul(b, c)), "associative");
#elif defined(H_TBL)
#ifndef TBL_OFF
#define TBL_OFF 0
#endif
        /* the table pointer carries no documented alignment: place it at every offset 0..7 of an 8-aligned arena */
        static uint64_t arena64[6];
        uint8_t *tbl = (uint8_t *) arena64 + TBL_OFF;
        for (int q = 0; q < 48; q++)
                ((uint8_t *) arena64)[q] = 0xA5;
        gf_vect_mul_init(I.c, tbl);
        VASSERT(((uint8_t *) arena64)[TBL_OFF + 32] == 0xA5 && (TBL_OFF == 0 || ((uint8_t *) arena64)[TBL_OFF - 1] == 0xA5), "nothing written outside the 32-byte table");
        VASSUME(I.i < 16);
        VASSERT(tbl[I.i] == spec_gf_mul(I.c, I.i), "tbl[i]==c*i");
        VASSERT(tbl[16 + I.i] == spec_gf_mul(I.c, (uint8_t) (I.i << 4)), "tbl[16+i]==c*(16i)");
        VASSERT((tbl[I.s & 15] ^ tbl[16 + (I.s >> 4)]) == spec_gf_mul(I.c, I.s), "lo[s&15]^hi[s>>4]==c*s");
#elif defined(H_GFNI)
        VASSERT(spec_gf2p8affine_byte(gf_table_gfni[I.c], I.s) == spec_gf_mul(I.c, I.s),
                "gf2p8affineqb(gf_table_gfni[c], s) == c*s");
#elif defined(H_INIT)
        /* ec_init_tables_base layout: rows x k coefficient matrix -> 32-byte tables in (row,k) order */
        uint8_t g[16 * 32 + 1];
        int k = KK, rows = ROWS;
        /* what the caller's table buffer held before (reused buffer, malloc garbage) is arbitrary and must not matter:
         * the observed entry and one more byte anywhere get explicit symbolic previous contents (the rest: zero) */
        memset(g, 0, sizeof(g));
        VASSUME(I.r < rows && I.j < k && I.i < 32);
        g[(I.r * k + I.j) * 32 + I.i] = I.stale[0];
        VASSUME(I.stale_at < k * rows * 32);
        if (I.stale_at != (I.r * k + I.j) * 32 + I.i)
                g[I.stale_at] = I.stale[1];
        g[k * rows * 32] = 0xA5; /* canary */
        ec_init_tables_base(k, rows, I.coef, g);
        uint8_t c = I.coef[I.r * k + I.j];
        uint8_t expect = I.i < 16 ? spec_gf_mul(c, I.i) : spec_gf_mul(c, (uint8_t) ((I.i - 16) << 4));
        VASSERT(g[(I.r * k + I.j) * 32 + I.i] == expect, "ec_init_tables_base entry");
        VASSERT(g[k * rows * 32] == 0xA5, "nothing written past k*rows*32");
#elif defined(H_GFNI_INIT)
        uint64_t g64[17];
        int k = KK, rows = ROWS;
        VASSUME(I.r < rows && I.j < k);
        memset(g64, 0, sizeof(g64));
        g64[I.r * k + I.j] = 0x0101010101010101ull * I.stale[0] ^ ((uint64_t) I.stale[1] << 24); /* arbitrary previous contents */
        g64[k * rows] = 0xA5A5A5A5A5A5A5A5ull;
        ec_init_tables_gfni(k, rows, I.coef, (unsigned char *) g64);
        uint8_t c = I.coef[I.r * k + I.j];
        VASSERT(spec_gf2p8affine_byte(g64[I.r * k + I.j], I.s) == spec_gf_mul(c, I.s), "gfni table entry acts as *c");
        VASSERT(g64[k * rows] == 0xA5A5A5A5A5A5A5A5ull, "nothing written past k*rows*8");
#else
#error no harness selected
#endif
        VREACHED();
}
VERIF_MAIN
