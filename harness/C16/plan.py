from vlib.core import Plan, Query
from vlib.x86sym import libindex, loader
from harness.C16.x86 import MB_FILES, Cfg

R = "harness.C16.x86:resolver_query"


def plan(tier, ctx):
    # the resolver list is read from the freshly assembled objects (every *_dispatched cell)
    qs = []
    idx = libindex.build_index(ctx.repo, ctx.scratch)
    n = 0
    for key, rel in MB_FILES.items():
        img = loader.build_image(ctx.repo, [rel], ctx.scratch, with_stubs=True)
        for fn in sorted(s[:-len("_dispatched")] for s in img.symbols if s.endswith("_dispatched")):
            qs.append(Query("resolver/%s/%s" % (key, fn), R, dict(file=key, fn=fn), core=True, family="resolver/" + key))
            n += 1
    # cross-resolver agreement: ec_init_tables writes tables in the format (32-byte nibble tables vs 8-byte GFNI
    # matrices) that the encode/update implementation selected on the same CPU must expect
    qs.append(Query("agreement/ec_table_format", "harness.C16.x86:agreement_query",
                    dict(group=[["ec", "ec_init_tables"], ["ec", "ec_encode_data"], ["ec", "ec_encode_data_update"]], family_regex="gfni$"),
                    core=True, family="agreement"))
    axioms = [t for t, _ in Cfg().consistent()]

    def finish(c, results):
        sel = {}
        for qid, r in results.items():
            if r.get("selections"):
                sel[qid.split("/")[-1]] = r["selections"]
        return {"selectable_implementations_and_their_isa_requirements": sel, "programs": len(sel)}
    return Plan("C16", "model_checking", qs, engine="x86sym",
                functions_encoded=["all %d <fn>_dispatch_init resolvers of %s (machine code)" % (n, ", ".join(MB_FILES.values())),
                                   "ISA requirement of every selectable implementation and its callees: objdump of the %d library objects (asm kernels and gcc -O2 builds of the C units), encoding class from the instruction bytes" % len(idx["objects"])],
                bounds={"cpu configurations": "CPUID leaves 0,1,7.0,0x80000001 (all four registers, 32 bits each) and XCR0 fully symbolic, constrained only by the consistency axioms listed under assumptions",
                        "paths": "every feasible path of every resolver"},
                assumptions=["consistency axioms: " + a for a in axioms] +
                            ["legacy-encoded TZCNT counts as baseline (executes as BSF; equal results for non-zero operands)",
                             "x86 instruction semantics of vlib/x86sym for the ~25 scalar instructions resolvers use; ISA classification table vlib/x86sym/isa.py (unknown mnemonics abort the query)"],
                outside=["agreement of the selected implementations with each other: covered only where C03/C04/C08/C13/C20 prove each kernel equal to the same specification (all igzip kernels: selection only)",
                         "32-bit builds; non-x86 resolvers", "native replay of a counterexample configuration (needs CPUID interception; the violating configuration is reported)"],
                trusted_base=["z3", "nasm/ld/objdump/gcc", "vlib/x86sym"], finish=finish)
