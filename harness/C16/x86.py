"""C16: every resolver of the *_multibinary.asm objects executed symbolically with CPUID/XGETBV results as
free bit-vector variables; for every path and every selectable implementation z3 decides that the path condition
implies availability of every ISA extension the implementation (and its callees) uses."""
import time
import z3
from vlib.core import HOLDS, VIOLATED, UNDECIDED, ERROR
from vlib.x86sym import loader, bv, libindex
from vlib.x86sym.interp import Exec
from vlib.x86sym.machine import Violation, Unsupported
from vlib.x86sym.runner import Setup, smt_check

MB_FILES = {"crc": "crc/crc_multibinary.asm", "crc64": "crc/crc64_multibinary.asm", "ec": "erasure_code/ec_multibinary.asm",
            "raid": "raid/raid_multibinary.asm", "mem": "mem/mem_multibinary.asm", "igzip": "igzip/igzip_multibinary.asm",
            "inflate": "igzip/igzip_inflate_multibinary.asm"}


class Cfg:
    """symbolic CPU configuration"""

    def __init__(self):
        self.l1 = {r: z3.BitVec("cpuid1_" + r, 32) for r in ("eax", "ebx", "ecx", "edx")}
        self.l7 = {r: z3.BitVec("cpuid7_" + r, 32) for r in ("eax", "ebx", "ecx", "edx")}
        self.l0 = {r: z3.BitVec("cpuid0_" + r, 32) for r in ("eax", "ebx", "ecx", "edx")}
        self.ext = {r: z3.BitVec("cpuid80000001_" + r, 32) for r in ("eax", "ebx", "ecx", "edx")}
        self.xcr0 = z3.BitVec("xcr0_lo", 32)
        self.xcr0_hi = z3.BitVec("xcr0_hi", 32)
        self.other = {}

    def bit(self, reg, i):
        return z3.Extract(i, i, reg) == 1

    def feature(self, name):
        c1, b7, c7 = self.l1["ecx"], self.l7["ebx"], self.l7["ecx"]
        tab = {"SSE3": (c1, 0), "PCLMULQDQ": (c1, 1), "SSSE3": (c1, 9), "FMA": (c1, 12), "SSE4_1": (c1, 19), "SSE4_2": (c1, 20),
               "MOVBE": (c1, 22), "POPCNT": (c1, 23), "AES": (c1, 25), "XSAVE": (c1, 26), "OSXSAVE": (c1, 27), "AVX": (c1, 28),
               "BMI1": (b7, 3), "AVX2": (b7, 5), "BMI2": (b7, 8), "AVX512F": (b7, 16), "AVX512DQ": (b7, 17), "AVX512CD": (b7, 28),
               "AVX512BW": (b7, 30), "AVX512VL": (b7, 31), "AVX512_VBMI": (c7, 1), "AVX512_VBMI2": (c7, 6), "GFNI": (c7, 8),
               "VAES": (c7, 9), "VPCLMULQDQ": (c7, 10), "AVX512_VNNI": (c7, 11), "AVX512_BITALG": (c7, 12), "AVX512_VPOPCNTDQ": (c7, 14),
               "LZCNT": (self.ext["ecx"], 5)}
        r, i = tab[name]
        return self.bit(r, i)

    def os_avx(self):
        return z3.And(self.feature("OSXSAVE"), (self.xcr0 & 6) == 6)

    def os_avx512(self):
        return z3.And(self.os_avx(), (self.xcr0 & 0xE0) == 0xE0)

    def available(self, feat):
        """the configuration reports `feat` as usable (CPUID bit + OS-enabled state)"""
        if feat in ("SSE3", "SSSE3", "SSE4_1", "SSE4_2", "PCLMULQDQ", "POPCNT", "MOVBE", "AES", "LZCNT", "BMI1", "BMI2"):
            return self.feature(feat)
        if feat in ("AVX", "AVX2", "FMA"):
            return z3.And(self.feature(feat), self.os_avx())
        if feat.startswith("AVX512"):
            return z3.And(self.feature(feat), self.feature("AVX512F"), self.os_avx512())
        if feat in ("GFNI", "VAES", "VPCLMULQDQ"):
            return self.feature(feat)   # register-state requirement comes with the accompanying AVX/AVX512F requirement
        raise KeyError(feat)

    def consistent(self):
        f = self.feature
        imp = lambda a, b: z3.Implies(a, b)
        ax = [
            ("XCR0 readable (non-zero) only with OSXSAVE; XCR0.x87/SSE set whenever OSXSAVE", imp(f("OSXSAVE"), (self.xcr0 & 3) == 3)),
            ("OSXSAVE => XSAVE", imp(f("OSXSAVE"), f("XSAVE"))),
            ("XCR0.AVX => XCR0.SSE", imp((self.xcr0 & 4) == 4, (self.xcr0 & 2) == 2)),
            ("XCR0 opmask/ZMM_Hi256/Hi16_ZMM set together and only with AVX state", z3.And(z3.Or((self.xcr0 & 0xE0) == 0, (self.xcr0 & 0xE0) == 0xE0),
                                                                                   imp((self.xcr0 & 0xE0) == 0xE0, (self.xcr0 & 4) == 4))),
            ("XCR0 AVX/AVX-512 state only if the CPU has AVX/AVX512F", z3.And(imp((self.xcr0 & 4) == 4, f("AVX")), imp((self.xcr0 & 0xE0) != 0, f("AVX512F")))),
            ("SSE4.2 => SSE4.1 => SSSE3 => SSE3", z3.And(imp(f("SSE4_2"), f("SSE4_1")), imp(f("SSE4_1"), f("SSSE3")), imp(f("SSSE3"), f("SSE3")))),
            ("AVX => SSE4.2 and XSAVE", z3.And(imp(f("AVX"), f("SSE4_2")), imp(f("AVX"), f("XSAVE")))),
            ("AVX2 => AVX ; AVX512F => AVX2 ; FMA => AVX", z3.And(imp(f("AVX2"), f("AVX")), imp(f("AVX512F"), f("AVX2")), imp(f("FMA"), f("AVX")))),
            ("AVX512{DQ,CD,BW,VL,VBMI,VBMI2,VNNI,BITALG,VPOPCNTDQ} => AVX512F",
             z3.And(*[imp(f(x), f("AVX512F")) for x in ("AVX512DQ", "AVX512CD", "AVX512BW", "AVX512VL", "AVX512_VBMI", "AVX512_VBMI2", "AVX512_VNNI", "AVX512_BITALG", "AVX512_VPOPCNTDQ")])),
            ("VAES => AES ; VPCLMULQDQ => PCLMULQDQ ; VAES/VPCLMULQDQ => AVX", z3.And(imp(f("VAES"), f("AES")), imp(f("VPCLMULQDQ"), f("PCLMULQDQ")), imp(f("VAES"), f("AVX")), imp(f("VPCLMULQDQ"), f("AVX")))),
            ("PCLMULQDQ => SSE2 only (no further implication assumed)", z3.BoolVal(True)),
            ("[unexamined by resolvers] AVX2 => BMI1, BMI2, LZCNT, MOVBE (every shipping AVX2 CPU)", z3.And(*[imp(f("AVX2"), f(x)) for x in ("BMI1", "BMI2", "LZCNT", "MOVBE")])),
            ("[unexamined by resolvers] SSE4.2 => POPCNT", imp(f("SSE4_2"), f("POPCNT"))),
            ("CPUID max basic leaf >= 7", z3.UGE(self.l0["eax"], 7)),
        ]
        return ax


def resolver_query(qid, params, ctx):
    """params: file key, fn (entry point name)"""
    t0 = time.time()
    fn = params["fn"]
    try:
        img = loader.build_image(ctx["repo"], [MB_FILES[params["file"]]], ctx["scratch"], with_stubs=True)
        idx = libindex.load_index(ctx["scratch"])
        cfg = Cfg()
        axioms = cfg.consistent()
        base = [a for _, a in axioms]
        solver = z3.SolverFor("QF_BV")
        solver.add(*base)
        ex = Exec(img, solver)
        xg_conds = []
        sites = {}
        entry = img.symbols[fn + "_dispatch_init"]

        def cpuid_model(st, leaf, sub):
            if leaf == 1:
                d = cfg.l1
            elif leaf == 7 and sub in (0, None):
                d = cfg.l7
            elif leaf == 0:
                d = cfg.l0
            elif leaf == 0x80000001:
                d = cfg.ext
            else:
                key = (leaf, sub)
                d = cfg.other.setdefault(key, {r: z3.BitVec("cpuid%x_%s_%s" % (leaf, sub, r), 32) for r in ("eax", "ebx", "ecx", "edx")})
            if leaf == 7 and sub is None:
                raise Unsupported("cpuid leaf 7 with symbolic subleaf")
            sites[st.pc - entry] = ("cpuid", leaf)
            return d["eax"], d["ebx"], d["ecx"], d["edx"]

        def xgetbv_model(st, idx_):
            if idx_ != 0:
                raise Unsupported("xgetbv index %d" % idx_)
            xg_conds.append(list(st.path))
            sites[st.pc - entry] = ("xgetbv", 0)
            return cfg.xcr0, cfg.xcr0_hi
        ex.cpuid_model = cpuid_model
        ex.xgetbv_model = xgetbv_model
        s = Setup(img, fn + "_dispatch_init")
        s.args = []
        disp = img.symbols[fn + "_dispatched"]
        # the dispatch pointer cell is the only writable library datum
        cell = [img.data[disp + i] for i in range(8)]
        s.region("dispatched_cell", 8, r=True, w=True, init=cell)
        s.regions[-1]["base"] = disp
        st0 = s.initial_state()
        finals = ex.run(st0)
        addr2name = {}
        for n, a in img.symbols.items():
            if n in idx["symbols"] or n in img.undefined:
                addr2name.setdefault(a, n)
        stats = {"paths": len(finals), "variables": ex.n_insns, "clauses": 0}
        selections = {}
        problems = []

        def native_replay(m, expect):
            """run the real resolver under gdb with CPUID/XGETBV results forced to the model"""
            from harness.C16 import gdb_replay
            ev = lambda v: m.eval(v, model_completion=True).as_long()
            vals = {1: tuple(ev(cfg.l1[r]) for r in ("eax", "ebx", "ecx", "edx")), 7: tuple(ev(cfg.l7[r]) for r in ("eax", "ebx", "ecx", "edx")),
                    0: tuple(ev(cfg.l0[r]) for r in ("eax", "ebx", "ecx", "edx")), 0x80000001: tuple(ev(cfg.ext[r]) for r in ("eax", "ebx", "ecx", "edx")),
                    "xcr0": (ev(cfg.xcr0), ev(cfg.xcr0_hi))}
            try:
                got, log = gdb_replay.replay(img, fn, [(off, k, leaf) for off, (k, leaf) in sorted(sites.items())], vals, ctx["scratch"])
            except Exception as e:
                return None, "gdb replay failed: %r" % e
            return (True if got == expect else (None if got is None else False)), "gdb: real resolver selected %s (expected %s)\n%s" % (got, expect, log[-600:])

        def model_cfg(m):
            ev = lambda v: m.eval(v, model_completion=True).as_long()
            return {"cpuid1_ecx": hex(ev(cfg.l1["ecx"])), "cpuid7_ebx": hex(ev(cfg.l7["ebx"])), "cpuid7_ecx": hex(ev(cfg.l7["ecx"])),
                    "xcr0": hex(ev(cfg.xcr0)), "cpuid80000001_ecx": hex(ev(cfg.ext["ecx"]))}

        for st, out in finals:
            if isinstance(out, Violation):
                return {"status": VIOLATED, "detail": "resolver %s: %s at %r" % (fn, out, out.insn), "cex": None, "replay_ok": None, "stats": stats}
            abi = None
            # resolver must preserve every register (it runs in front of the real call)
            for r_, v0 in st0.r.items():
                if r_ in ("rsp",):
                    continue
                v1 = st.r[r_]
                if not (bv.is_c(v1) and bv.is_c(v0) and v1 == v0):
                    abi = "register %s not preserved by the resolver" % r_
            if abi:
                return {"status": VIOLATED, "detail": "resolver %s: %s" % (fn, abi), "cex": None, "replay_ok": None, "stats": stats}
            written = {a for a in st.mem.written}
            if not written <= set(range(disp, disp + 8)):
                return {"status": VIOLATED, "detail": "resolver %s writes outside its dispatch cell" % fn, "cex": None, "replay_ok": None, "stats": stats}
            ptr = bv.join_bytes([st.mem.b[disp + i] for i in range(8)])
            # enumerate the selectable targets on this path
            cands = set()
            if bv.is_c(ptr):
                cands.add(ptr)
            else:
                for a in addr2name:
                    r_, _m = smt_check(base + st.path + [ptr == a])
                    stats["clauses"] += 1
                    if r_ == z3.sat:
                        cands.add(a)
                r_, m = smt_check(base + st.path + [z3.And(*[ptr != a for a in cands])] if cands else base + st.path)
                if cands and r_ == z3.sat:
                    return {"status": VIOLATED, "detail": "resolver %s can store a pointer that is no known implementation" % fn,
                            "cex": model_cfg(m), "replay_ok": None, "stats": stats}
            for a in cands:
                name = addr2name.get(a)
                if name is None:
                    return {"status": VIOLATED, "detail": "resolver %s stores 0x%x which is not a function symbol" % (fn, a), "cex": None, "replay_ok": None}
                feats, details, probs = libindex.func_requirements(idx, name)
                problems += probs
                sel = (ptr == a) if not bv.is_c(ptr) else z3.BoolVal(True)
                selections.setdefault(name, sorted(feats))
                for ft in sorted(feats):
                    stats["clauses"] += 1
                    r_, m = smt_check(base + st.path + [sel, z3.Not(cfg.available(ft))])
                    if r_ == z3.unknown:
                        return {"status": UNDECIDED, "detail": "z3 unknown"}
                    if r_ == z3.sat:
                        why = [d for d in details if d.endswith("needs " + ft)][:2]
                        mc = model_cfg(m)
                        key = "dispatch:%s->%s:missing-%s" % (fn, name, ft)
                        rep, rlog = native_replay(m, name)
                        return {"status": VIOLATED, "finding_key": key, "replay_log": rlog,
                                "detail": "resolver %s selects %s on a consistent configuration that does not report %s as available (%s); config %s" % (fn, name, ft, "; ".join(why), mc),
                                "cex": {"resolver": fn, "selected": name, "missing": ft, "config": mc, "why": why}, "replay_ok": rep, "stats": stats,
                                "selections": selections}
        # xgetbv only with OSXSAVE
        for pc in xg_conds:
            r_, m = smt_check(base + pc + [z3.Not(cfg.feature("OSXSAVE"))])
            stats["clauses"] += 1
            if r_ == z3.sat:
                return {"status": VIOLATED, "finding_key": "dispatch:%s:xgetbv-without-osxsave" % fn,
                        "detail": "resolver %s executes XGETBV on a path where CPUID.1:ECX.OSXSAVE=0 (#UD); config %s" % (fn, model_cfg(m)),
                        "cex": {"resolver": fn, "config": model_cfg(m)}, "replay_ok": None, "stats": stats}
        if problems:
            return {"status": ERROR, "detail": "ISA classification incomplete: %s" % problems[:4], "stats": stats}
    except Unsupported as e:
        return {"status": ERROR, "detail": "outside encodable class: %s" % e}
    return {"status": HOLDS, "stats": stats, "solver_time_s": time.time() - t0, "witness_ok": len(selections) > 0, "selections": selections}


def _explore(ctx, filekey, fn, cfg, base):
    """all feasible (path condition, stored pointer term) pairs of one resolver under configuration symbols `cfg`"""
    img = loader.build_image(ctx["repo"], [MB_FILES[filekey]], ctx["scratch"], with_stubs=True)
    solver = z3.SolverFor("QF_BV")
    solver.add(*base)
    ex = Exec(img, solver)

    def cpuid_model(st, leaf, sub):
        d = {1: cfg.l1, 7: cfg.l7, 0: cfg.l0, 0x80000001: cfg.ext}.get(leaf)
        if d is None:
            d = cfg.other.setdefault((leaf, sub), {r: z3.BitVec("cpuid%x_%s_%s" % (leaf, sub, r), 32) for r in ("eax", "ebx", "ecx", "edx")})
        return d["eax"], d["ebx"], d["ecx"], d["edx"]
    ex.cpuid_model = cpuid_model
    ex.xgetbv_model = lambda st, i: (cfg.xcr0, cfg.xcr0_hi)
    s = Setup(img, fn + "_dispatch_init")
    s.args = []
    disp = img.symbols[fn + "_dispatched"]
    s.region("dispatched_cell", 8, r=True, w=True, init=[img.data[disp + i] for i in range(8)])
    s.regions[-1]["base"] = disp
    out = []
    for st, res in ex.run(s.initial_state()):
        if isinstance(res, Violation):
            raise Unsupported("resolver %s: %s" % (fn, res))
        out.append((list(st.path), bv.join_bytes([st.mem.b[disp + i] for i in range(8)])))
    names = {a: n for n, a in img.symbols.items() if not n.endswith("_dispatched") and not n.endswith("_mbinit") and "dispatch_init" not in n and not n.startswith("_")}
    return out, names, ex.n_insns


def agreement_query(qid, params, ctx):
    """Entry points that exchange data in an implementation-specific format must resolve to the same family on EVERY
    configuration.  params: group = [[filekey, fn], ...], family_regex: names matching it form family 1, others family 0."""
    import re as _re
    t0 = time.time()
    try:
        cfg = Cfg()
        base = [a for _, a in cfg.consistent()]
        rx = _re.compile(params["family_regex"])
        explored = []
        stats = {"paths": 0, "variables": 0, "clauses": 0}
        for fk, fn in params["group"]:
            paths, names, ni = _explore(ctx, fk, fn, cfg, base)
            stats["paths"] += len(paths)
            stats["variables"] += ni
            fam = {a: (1 if rx.search(n) else 0) for a, n in names.items()}
            explored.append((fn, paths, names, fam))

        def in_family(ptr, fam, f):
            addrs = [a for a, v in fam.items() if v == f]
            if bv.is_c(ptr):
                return z3.BoolVal(fam.get(ptr) == f)
            return z3.Or(*[ptr == a for a in addrs]) if addrs else z3.BoolVal(False)
        for i in range(len(explored)):
            for j in range(i + 1, len(explored)):
                fa, pa, na, fama = explored[i]
                fb, pb, nb, famb = explored[j]
                for (c1, p1) in pa:
                    for (c2, p2) in pb:
                        for f in (0, 1):
                            stats["clauses"] += 1
                            r, m = smt_check(base + c1 + c2 + [in_family(p1, fama, f), in_family(p2, famb, 1 - f)])
                            if r == z3.unknown:
                                return {"status": UNDECIDED, "detail": "z3 unknown"}
                            if r == z3.sat:
                                ev = lambda v: m.eval(v, model_completion=True).as_long()
                                s1 = na.get(ev(p1) if not bv.is_c(p1) else p1)
                                s2 = nb.get(ev(p2) if not bv.is_c(p2) else p2)
                                mc = {"cpuid1_ecx": hex(ev(cfg.l1["ecx"])), "cpuid7_ebx": hex(ev(cfg.l7["ebx"])), "cpuid7_ecx": hex(ev(cfg.l7["ecx"])), "xcr0": hex(ev(cfg.xcr0))}
                                return {"status": VIOLATED, "finding_key": "dispatch-agreement:%s/%s" % (fa, fb),
                                        "detail": "on configuration %s %s resolves to %s but %s resolves to %s: the two exchange data in different formats (%s)" % (mc, fa, s1, fb, s2, params["family_regex"]),
                                        "cex": {"config": mc, fa: s1, fb: s2}, "replay_ok": None, "stats": stats}
    except Unsupported as e:
        return {"status": ERROR, "detail": "outside encodable class: %s" % e}
    return {"status": HOLDS, "stats": stats, "solver_time_s": time.time() - t0, "witness_ok": stats["paths"] > 0}
