"""Replay of a resolver counterexample against the REAL resolver code: the multibinary object is linked into a
native executable (candidate implementations = stub symbols), run under `gdb -batch`; breakpoints right after
every CPUID / XGETBV instruction of the resolver overwrite the result registers with the counterexample
configuration; afterwards the dispatch cell is read back."""
import os
import re
import subprocess


def replay(img, fn, sites, cfgvals, scratch):
    """sites: list of (offset_after_insn_from_dispatch_init, kind 'cpuid'|'xgetbv', leaf)
       cfgvals: {(leaf): (eax,ebx,ecx,edx)} and 'xcr0': (lo,hi).  Returns (selected symbol name or None, log)."""
    d = os.path.join(scratch, "gdb_" + fn)
    os.makedirs(d, exist_ok=True)
    stubs = os.path.join(d, "stubs.c")
    with open(stubs, "w") as fh:
        for s in img.undefined:
            fh.write("void %s(void){}\n" % s)
        fh.write("extern void %s(void);\nvoid verif_done(void){}\nint main(void){ %s(); verif_done(); return 0; }\n" % (fn, fn))
    exe = os.path.join(d, "exe")
    p = subprocess.run(["gcc", "-O0", "-no-pie", "-w", stubs] + list(img.objs) + ["-o", exe], stdout=subprocess.PIPE, stderr=subprocess.PIPE)
    if p.returncode != 0:
        return None, "link failed: " + p.stderr.decode()[-400:]
    script = os.path.join(d, "cmds.gdb")
    with open(script, "w") as fh:
        fh.write("set pagination off\nset confirm off\n")
        for off, kind, leaf in sites:
            fh.write("break *((char*)%s_dispatch_init + %d)\ncommands\nsilent\n" % (fn, off))
            if kind == "cpuid":
                a, b, c, dd = cfgvals.get(leaf, (0, 0, 0, 0))
                fh.write("set $rax=%d\nset $rbx=%d\nset $rcx=%d\nset $rdx=%d\n" % (a, b, c, dd))
            else:
                lo, hi = cfgvals.get("xcr0", (0, 0))
                fh.write("set $rax=%d\nset $rdx=%d\n" % (lo, hi))
            fh.write("continue\nend\n")
        fh.write("break verif_done\nrun\n")
        fh.write("printf \"DISPATCHED %%lx\\n\", *(unsigned long*)&%s_dispatched\n" % fn)
        fh.write("info symbol *(unsigned long*)&%s_dispatched\n" % fn)
    p = subprocess.run(["gdb", "-batch", "-nx", "-x", script, exe], stdout=subprocess.PIPE, stderr=subprocess.PIPE, timeout=120)
    out = p.stdout.decode("utf8", "replace")
    m = re.search(r"^(\w+) in section", out, re.M)
    return (m.group(1) if m else None), out[-1500:] + p.stderr.decode("utf8", "replace")[-500:]
