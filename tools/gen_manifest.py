#!/usr/bin/env python3
"""Regenerates /verif/MANIFEST.json from the table below (edit here, not the JSON)."""
import json, os
V = os.path.dirname(os.path.dirname(os.path.abspath(__file__)))

CHECKS = {
 "C12": dict(
    engine="cbmc-c", category="model_checking", design_ref="DESIGN.md §5 C12",
    technique="bounded symbolic execution of ec_base.c with CBMC (SAT), operands fully symbolic => exhaustive over the finite domain",
    text="CBMC decides gf_mul==carry-less product mod 0x11D for all 2^16 pairs, a*inv(a)=1 for all a, all 32 entries of gf_vect_mul_init "
         "for all c, the GFNI matrix table for all (c,s), and the ec_init_tables_{base,gfni} layouts for k,rows<=4; both default and GF_LARGE_TABLES builds, and the portable (non-x86-64) body of gf_vect_mul_init; previous contents of the table buffers symbolic. "
         "The domain is finite and covered completely by the solver, so this is the strongest bounded claim available short of a proof assistant.",
    note="Trusted: cbmc 6.11 front end/SAT back end, spec/gf256.h (8-step shift-xor definition), SDM transcription of GF2P8AFFINEQB. "
         "Field axioms are decided on the specification with a case split on one operand (quick: 6 values, thorough: all 256)."),
 "C20": dict(
    engine="x86sym", category="model_checking", design_ref="DESIGN.md §5 C20, §4",
    technique="symbolic execution of the assembled kernels (own x86-64 interpreter -> z3 bit-vectors), all buffer bytes symbolic, every path decided by z3; CBMC for the portable C variant",
    text="For every length 0..330 (thorough 0..700) and a set of alignments, the four assembled mem_zero_detect_* kernels are executed symbolically from their machine code with all bytes symbolic; "
         "z3 decides on every feasible path that the return value is 0 iff all bytes are zero and the access monitor shows every load lies inside [buf,buf+len). Bounded model checking of the real binaries.",
    note="Trusted: the interpreter's instruction semantics (cross-validated every run against native execution of the same objects), z3, nasm/ld/objdump. Lengths beyond the bound are outside the claim. "
         "Dispatcher selection is C16."),
 "C16": dict(
    engine="x86sym", category="model_checking", design_ref="DESIGN.md §5 C16, §4.5",
    technique="symbolic execution of all 42 resolvers (machine code) with CPUID/XGETBV results as free bit-vectors; z3 decides path-condition => availability of every ISA extension used by the selected implementation and its callees",
    text="Every <fn>_dispatch_init resolver is executed symbolically over fully symbolic CPUID leaves and XCR0; for each feasible path and each implementation it can store, z3 shows that no architecturally "
         "consistent configuration reaches that choice while lacking an extension that the implementation's instructions (classified from their encoding) require; also XGETBV only under OSXSAVE, registers preserved, "
         "only the dispatch cell written. Exhaustive over the configuration space within the stated consistency axioms.",
    note="Trusted: ISA classification table (encoding class from instruction bytes, sub-feature from mnemonic), consistency axioms listed in the evidence (incl. AVX2=>BMI1/BMI2/LZCNT/MOVBE, SSE4.2=>POPCNT for bits no resolver examines), "
         "objdump/nasm/gcc, z3. 'All choices agree' is covered only through C03/C04/C08/C13/C20."),
 "C03": dict(
    engine="x86sym + cbmc-c", category="translation_validation", design_ref="DESIGN.md §5 C03",
    technique="symbolic execution of the assembled gf_Nvect_dot_prod kernels against a structural GF(2^8) table-lookup specification decided by z3; CBMC on ec_base.c and the ec_highlevel_func.c row-batching glue",
    text="Each of the 33 assembled dot-product kernels (6 ISA flavours) is executed symbolically with all source, table and destination bytes symbolic for a sweep of lengths/source counts/alignments; z3 proves every stored byte "
         "equals the XOR of table lookups, nothing else is written, loads stay inside the declared buffers. CBMC proves the portable functions equal the polynomial definition and that the glue hands every row to exactly one kernel call.",
    note="Kernel = structural spec; table contents = field product is C12. Trusted: interpreter semantics (validated natively each run), z3, CBMC. Bounds: see evidence (len <= 4W+17, k <= 8)."),
 "C13": dict(
    engine="x86sym + cbmc-c", category="translation_validation", design_ref="DESIGN.md §5 C13",
    technique="symbolic execution of the assembled gf_Nvect_mad and gf_vect_mul kernels against the multiply-accumulate specification decided by z3; CBMC on the base functions and update glue",
    text="Each of the 35 assembled multiply-accumulate kernels and gf_vect_mul_{sse,avx} is executed symbolically (source, tables, initial parity symbolic): z3 proves dest' = dest ^ lookup(T[r*k+vec_i], src) bytewise, "
         "nothing outside the parity blocks is written, failure returns store nothing. Order independence / cancellation follow from XOR-accumulation of per-source terms.",
    note="As C03. Masked/overlapped tails are inside the swept lengths (every residue up to W+1 and around 2W, 3W)."),
 "C08": dict(
    engine="x86sym + cbmc-c", category="model_checking", design_ref="DESIGN.md §5 C08",
    technique="symbolic execution of the assembled RAID kernels, z3 decides P/Q equality and check soundness+completeness on every path; CBMC on raid_base.c",
    text="xor_gen/pq_gen kernels (7 objects): all data symbolic, z3 proves P = xor and Q = Horner/0x11D bytewise, sources read-only, aligned/non-temporal accesses legal. xor_check/pq_check: every feasible path, "
         "z3 proves return==0 <=> parity-consistent (so any single-byte change is detected). Arguments below the documented minimum return non-zero with zero memory accesses.",
    note="Trusted: interpreter semantics (validated natively each run), z3, CBMC. vects <= 8 (20 thorough), len <= 300/320 (640)."),
 "C04": dict(
    engine="x86sym (gf2-affine) + cbmc-c", category="translation_validation", design_ref="DESIGN.md §5 C04, §4.4",
    technique="symbolic execution of the 40 assembled CRC kernels in a GF(2)-affine term domain (every bit an affine form over all seed and message bits), compared bit by bit with the bit-serial CRC definition; z3 bit-vector queries for the Adler-32 scalar path; CBMC for the table-driven C routines",
    text="Each CRC kernel is run from its machine code with the seed and all message bits symbolic for every length 0..300 (thorough 0..1200) plus block boundaries, one length per 24-byte-group count (crc32_iscsi_00/01 folding-constant table) and several alignments; the result bits are affine forms whose "
         "difference from the published-check-value-anchored bit-serial definition must be identically zero; copy forms also reproduce the source. Composition over splits follows from equality with the state-passing definition.",
    note="Trusted: interpreter semantics incl. the affine-domain operations (each case cross-checked against native execution on random assignments), spec/crc_py.py anchors. Adler-32 assembly kernels are decided only on their scalar path "
         "(len < 24/32); their vector path is out of reach (DESIGN). Known finding: crc32_iscsi_00/01 aligned-word tail over-read."),
 "C05": dict(
    engine="x86sym + cbmc-c", category="model_checking", design_ref="DESIGN.md §5 C05, §4.2",
    technique="access monitor inside the symbolic execution of every assembled leaf kernel (true access width, masked lanes, alignment-faulting forms) against exact caller-declared regions; CBMC pointer checks on the C codec harnesses",
    text="All 125 assembled leaf kernels (zero detect, RAID, erasure code, CRC, Adler) are executed symbolically over a memory-safety sweep (lengths 0,1,every vector-width remainder; buffer starts at odd alignments); every load and store on every feasible path "
         "must fall inside the regions implied by the arguments, violations are replayed natively against a guard page. For all data: the check is decided by the solver-driven path exploration, not sampled.",
    note="igzip assembly bodies are outside engine B (data-dependent addressing; isal_deflate_finish_01 and the Huffman decoders are decided on tiny inputs by engine C under C10/C06). Known finding: crc32_iscsi_00/01 read up to 7 bytes past the buffer inside one aligned word. Fixed findings: zero-detect avx2/avx512, gf_vect_mul len=0, gf_5vect_dot_prod_avx512_gfni."),
 "C15": dict(
    engine="x86sym + cbmc-c", category="model_checking", design_ref="DESIGN.md §5 C15",
    technique="symbolic execution of all resolvers with symbolic caller registers and CPUID results: store set, dependency set of the stored pointer, register preservation decided with z3; 2-safety CBMC harnesses for context independence (when present)",
    text="Shows the structural facts thread-safety rests on: each resolver's only store outside its stack is one aligned 8-byte store to its dispatch cell, the stored value and the control flow depend on CPUID/XGETBV results only, all caller registers are preserved; kernels write only caller-declared memory (C05).",
    note="Interleavings themselves are not explored (argued from the established facts). Levels 1-3/level buffers outside."),
 "C19": dict(
    engine="cbmc-c", category="model_checking", design_ref="DESIGN.md §5b C19",
    technique="CBMC bounded model checking of isal_write_gzip_header/isal_write_zlib_header/isal_read_gzip_header/isal_read_zlib_header and the header path of isal_inflate against an independent RFC 1952/1950 layout producer+parser; field values and payload bytes symbolic, sizes and split points swept",
    text="Writers: for all scalar field values (symbolic) and small optional fields the emitted bytes equal the RFC layout, too-small output returns the required size and touches nothing. Readers: on spec-generated and writer-generated headers, one-shot and at "
         "every two-chunk split, the same fields are recovered and next_in stops at the first deflate byte; undersized buffers give the documented overflow code and resume; on arbitrary bytes (<= 16) the verdict equals the independent parser's, no out-of-bounds access.",
    note="Bounds: name/comment/extra <= 4 bytes, arbitrary headers <= 16 bytes. Trusted: cbmc, spec/rfc1950_1952.h. Known findings (not repaired): isal_inflate loses gzip/zlib header parse state between calls; gz_hdr.hcrc partial value after a chunked read. Fixed: zlib DICTID byte order."),
 "C11": dict(
    engine="cbmc-c", category="model_checking", design_ref="DESIGN.md §5b C11",
    technique="CBMC on the trailer verification paths of isal_inflate (check_gzip_checksum / check_zlib_checksum / ISAL_CHECKSUM_CHECK re-entry / finalize_adler32) from an arbitrary decoder state, and on write_trailer; bit-buffer, saved bytes, input, running checksum and length symbolic; the three sizes swept",
    text="Verifier: from an arbitrary state (symbolic bit buffer, saved bytes, remaining input, running crc/adler, total_out) isal_inflate reports ISAL_DECOMP_OK iff the assembled trailer equals crc||isize (LE) resp. Adler-32 (BE); too few bytes leave state CHECKSUM_CHECK with all bytes saved, "
         "and the continuation call gives the same verdict. Producer: write_trailer emits crc||isize / Adler from any bit-buffer fill. The meaning of the checksum functions themselves is C04.",
    note="Delivered bytes are abstracted by the symbolic running checksum/length (end-to-end corruption of Huffman bodies needs whole inflate: out of reach). Producer-side checksums for whole streams are asserted in the C01/C07 harnesses."),
 "C09": dict(
    engine="cbmc-c", category="model_checking", design_ref="DESIGN.md §5b C09",
    technique="CBMC on erasure_code/ec_base.c: gf_invert_matrix over ALL matrices with entries in a subfield (cofactor determinant + product oracle), generator formulas at symbolic (i,j), recovery with a symbolic erasure pattern through the real inversion",
    text="Inversion: for every n x n matrix over GF(16) (n=2), GF(4) (n=2; n=3 thorough), GF(2) (n<=3; n<=5 thorough): ret in {0,-1}, ret==0 iff det != 0, A*out = out*A = I. Generators: identity top block, cauchy[i][j]=inv(i^j), rs[i][j]=(2^(i-k))^j for symbolic (i,j) and (m,k) up to (256,10)/(32,16). "
         "Recovery: for concrete (m,k) <= (9,3)/(8,4) (thorough (12,6)) and k symbolic strictly increasing survivors, the decode matrix built as the example does is invertible and inv*B = I (Cauchy; Vandermonde on documented-safe pairs).",
    note="Inversion over all of GF(2^8) is undecided (900 s, 5 back ends) and outside; subfield entries exercise every pivot/swap/singular pattern with real field arithmetic. Larger recovery instances use C12's lemmas to replace gf_mul/gf_inv by the specification."),
 "C01": dict(
    engine="cbmc-c", category="model_checking", design_ref="DESIGN.md §5b C01",
    technique="CBMC on isal_deflate_stateless / single-call isal_deflate (level 0, portable C kernels) with all input bytes symbolic; independent RFC 1951 reference decoder inside the same formula; literal code lengths made concrete per query (class vectors, completeness proved by OTHER queries)",
    text="For every input of n <= 3 bytes (thorough 4..6), five wrappers, flush modes, default and static tables and avail_out in {bound, bound+8, 64}: the output has an RFC-conformant wrapper header, the reference decoder accepts it, decodes exactly the input, "
         "consumes it to its last byte, the trailer is CRC-32||ISIZE (LE) resp. Adler-32 (BE), final state ZSTATE_END. Plus the constant-run shortcut of the stateless API (whole input = 8..300 bytes of 0x00/0xFF, every tail-shape boundary of (n-1) mod 258, NO_FLUSH and FULL_FLUSH) over an avail_out sweep.",
    note="Levels 1-3, custom tables, inputs > 6 bytes, and EVERY assembly body are outside (measured: symbolic sizes/longer inputs do not finish). Default-table streaming is decided only for n=0 (dynamic header parse goes symbolic). "
         "Assumptions: per-query literal code-length class vector, swept completely. Trusted: cbmc, spec/rfc1951.h (self-tested against zlib)."),
 "C10": dict(
    engine="cbmc-c + x86sym", category="model_checking", design_ref="DESIGN.md §5b C10",
    technique="CBMC: avail_out sweep on exact-size output objects for the one-shot API; stored-block fallback with SYMBOLIC n <= 200000 and a range-recording memcpy; parameter validation with fully symbolic level/flush/level_buf_size; symbolic execution (x86sym + z3) of the assembled ICF bit emitters; the assembly level-0 kernel isal_deflate_finish_01 lifted to C (vlib/x86lift.py) and decided by CBMC for memory safety and accounting (shallow bug-hunting pre-pass, then the full bounded run)",
    text="(a) avail_out 0..bound+9 for n <= 2 (3): COMP_OK whenever avail_out >= n+5*blocks+wrapper, a COMP_OK result is a complete correct stream, no byte written past avail_out, counters consistent. (b) stored fallback for all n <= 200000 symbolically: block count, LEN/NLEN, BFINAL on the last block only, "
         "tiling of the input, total_out formula, no arithmetic wrap; the real stored_len arithmetic at the 65535-byte boundaries. (c) every invalid level/flush/level buffer is rejected with the documented code before any output. "
         "(d) engine B on the assembly bit emitters encode_deflate_icf_04/06: all stores inside the bit buffer, emitted bits equal the ICF encoding specification for symbolic code bits, incl. every per-lane long-code threshold. (e) engine C on isal_deflate_finish_01: with n <= 3 input bytes and any output space, or n <= 6 and avail_out < 8, every load/store stays inside the input chunk / output window, counters move together.",
    note="Streaming termination is asserted in C07's bounded call loops. Levels 1-3 outside. Doc/code mismatch noted: undersized level_buf returns ISAL_INVALID_LEVEL (documented ISAL_INVALID_LEVEL_BUF); the check accepts either."),
 "C07": dict(
    engine="cbmc-c", category="model_checking", design_ref="DESIGN.md §5b C07",
    technique="CBMC on multi-call isal_deflate (level 0) over every 3-chunk input split x output chunk sizes {1,2,7,8,9,64} x early/late end_of_stream x flush sequences, input bytes symbolic, reference decoder as oracle; trailer-consumption units for streaming inflate",
    text="For total n <= 3 and every slicing in the swept set the call loop reaches ZSTATE_END within the bound, every call makes progress, and the concatenated output decodes to the concatenated input with a correct trailer; the ZSTATE_TMP_* staging paths (avail_out < 8) are exercised by output chunks 1,2,7.",
    note="Decompression side: only trailer/stored/wrapper units (C02, C11, C19) - the streaming Huffman decoder needs the big tables (out of reach). Levels 1-3 outside. Observation (not a violation as worded): SYNC_FLUSH with 2..6-byte output buffers keeps emitting empty blocks (harness/C07/repro_flush_livelock.c)."),
 "C14": dict(
    engine="cbmc-c", category="model_checking", design_ref="DESIGN.md §5b C14",
    technique="CBMC on the C07 streaming harness with flush requests (two symbolic segments, SYNC/FULL flush, output chunkings) plus the stateless raw FULL_FLUSH append harness and the constant-run shortcut with FULL_FLUSH/end_of_stream=0; reference decoder run on the prefix and on the suffix in isolation; white-box hash-head invariant (no head denotes a position before the last history reset)",
    text="When the flushing call returns with all input consumed and space left: output ends 00 00 FF FF on a byte boundary, the prefix decodes exactly to segment 1 without BFINAL, state is ZSTATE_NEW_HDR; after FULL_FLUSH the suffix decodes alone (no history) to segment 2; stateless raw FULL_FLUSH output is aligned, unterminated and appendable.",
    note="total input <= 3 (4) bytes, level 0: real back-references across a flush need >= 8 bytes and are outside; the history/hash reset logic is covered by C05's history invariant."),
 "C02": dict(
    engine="cbmc-c", category="model_checking", design_ref="DESIGN.md §5b C02",
    technique="CBMC differential checking of igzip_inflate.c units against the independent RFC 1951 decoder: stored blocks through the real isal_inflate_stateless, the fixed-Huffman block decoder unit, set_codes vs RFC 3.2.2, the dynamic-header code-length loop (concrete prefix + symbolic tail, check-time source instrumentation), trailer consumption; stream bytes symbolic; thorough: the assembly decoders _01/_04 lifted to C (vlib/x86lift.py) under the same oracle",
    text="Valid stored-block streams (<= 12 bytes) and fixed-Huffman blocks (<= 2 (3) bytes) decode to exactly the reference output with the exact end position and finished state; canonical code assignment equals RFC 3.2.2 for alphabets <= 4 (5..19 thorough); the code-length decoding loop of setup_dynamic_header (symbols 0-15, repeats 16/17/18 crossing the literal/distance boundary, histograms) equals RFC 3.2.7 for every 1-2 byte tail after a concrete prefix; "
         "after the gzip/zlib trailer the reported input position is the true end of the stream.",
    note="Whole isal_inflate on Huffman data and the lookup-table builders on symbolic code lengths (multi-symbol packing, long codes) are out of reach (measured). The assembly decoders are decided on 1 arbitrary byte per query (slow path only; the speculative main loop needs >= 8 input bytes and 274 bytes of output: no verdict). Output arena prefix 256 bytes (stated assumption for n >= 3)."),
 "C06": dict(
    engine="cbmc-c", category="model_checking", design_ref="DESIGN.md §5b C06",
    technique="the C02 unit harnesses on ARBITRARY bytes (validity assumption dropped) + make_inflate_huff_code_dist/decode_next_dist with symbolic stale table contents; differential against the reference decoder; the assembly decoder decode_huffman_code_block_stateless_04 (thorough: + _01) lifted instruction by instruction to C at check time (vlib/x86lift.py) and decided by CBMC on an explicit address-space model",
    text="On arbitrary input bytes: only documented status codes, never more than avail_out written, success only if the reference decoder accepts with equal output; LEN/NLEN mismatch and BTYPE=3 => INVALID_BLOCK, symbols 286/287 and distance codes 30/31 => INVALID_SYMBOL, distance > produced => INVALID_LOOKBACK, truncation => END_INPUT; "
         "undefined distance codes are invalid whatever the lookup table held before.",
    note="Same reach limits as C02: table builders on symbolic lengths, inputs > 3 Huffman bytes (assembly decoders: 1 byte, slow path only) are outside."),
 "C17": dict(
    engine="cbmc-c", category="model_checking", design_ref="DESIGN.md §5b C17",
    technique="CBMC: one-iteration match-finder harness for isal_deflate_finish_base with all loaded values arbitrary (loads/emission redirected by macros), zlib CINFO for all hist_bits/levels, dictionary API calls with SYMBOLIC dict_len <= 70000 and range-recording memcpy, hash priming",
    text="Every match emitted by the level-0 finish kernel has 1 <= distance <= 2^hist_bits <= 32768 and every load stays inside the stream (position symbolic, hist_bits 9..15); the zlib header announces a window >= the one used; set_dict/process_dict/reset_dict/inflate_set_dict copy exactly the last min(len, 32 KiB) bytes, "
         "keep bookkeeping consistent and refuse from every wrong state without side effects.",
    note="Match finder: holds with a constant hash function only (arbitrary hash: OOM); isal_deflate_body_base, ICF match finders, assembly bodies, end-to-end dictionary round trips are outside."),
 "C18": dict(
    engine="cbmc-c", category="model_checking", design_ref="DESIGN.md §5b C18",
    technique="CBMC unit checks of huff_codes.c: run-length encoding of code lengths vs its expansion, packed length/distance tables vs the RFC 1951 symbol+extra-bit encoding for arbitrary codes, usability bound, isal_deflate_set_hufftables over all states, write_deflate_header_unaligned_stateless unit; engine B (x86sym) on the assembly heap primitives build_heap/build_huff_tree",
    text="rl_encode/write_rl reproduce every code-length sequence (<= 6 entries, 2-run sequences over 24, runs <= 300); packed (code, extra bits, length) equals the RFC encoding for symbolic length 3..258 / distance 1..32768 and arbitrary code words; set_hufftables is refused in every state != ZSTATE_NEW_HDR without side effects.",
    note="The tree construction (build_huff_tree/gen_huff_code_lens/fix_code_lens) is NOT decided: CBMC 6.11 mis-models struct heap_tree's anonymous union (sanity assertion fails in CBMC, passes natively; array-backed object OOM at 19 GB); isal_create_hufftables call sites, create_header, 286-symbol instances, assembly histogram collectors are outside."),
}

NOT_YET = {}

def main():
    props = [json.loads(l)["id"] for l in open(os.path.join(V, "properties.jsonl"))]
    checks, na = [], []
    for p in props:
        if p in CHECKS:
            c = CHECKS[p]
            checks.append({
                "property_id": p,
                "quick_cmd": "./check %s --tier quick" % p,
                "thorough_cmd": "./check %s --tier thorough" % p,
                "evidence_file": "evidence/%s.json" % p,
                "replay_cmd_template": "./check %s --replay {path}" % p,
                "engine": c["engine"],
                "level_claimed": {"category": c["category"], "text": c["text"], "design_ref": c["design_ref"]},
                "level_note": c["note"],
                "technique": c["technique"],
            })
        else:
            na.append({"property_id": p, "reason": NOT_YET.get(p, "check under construction in this round; not claimed until its harnesses pass on the unchanged tree")})
    m = {
        "version": 1,
        "setup_cmd": "./setup.sh",
        "hooks": {"guard": "ISAL_VERIF", "enable": "-DISAL_VERIF passed by the harness build (goto-cc/gcc); no hook is currently needed",
                  "baseline_off_cmd": "cd /repo && make -j8 check", "source_commits": [], "add_only": True},
        "engines": [
            {"name": "cbmc-c", "path": "vlib/cbmc.py", "serves_properties": [p for p in props if p in CHECKS and "cbmc" in CHECKS[p]["engine"]],
             "kind_free_text": "CBMC 6.11 bounded model checking of the real C translation units (goto-cc with the build's -I/-D), harness per property, native replay of counterexamples"},
            {"name": "x86sym", "path": "vlib/x86sym", "serves_properties": [p for p in props if p in CHECKS and "x86sym" in CHECKS[p]["engine"]],
             "kind_free_text": "own symbolic interpreter for the assembled nasm kernels (objdump -> z3 bit-vector terms), translator validated against native execution each run"},
        ],
        "checks": checks,
        "not_applicable": na,
        "notes": "All checks are solver-decided within stated bounds (see DESIGN.md and each evidence file: functions_encoded, bounds, queries, solver_time_s). "
                 "Exit 0 = held on everything explored; exit 1 + VIOLATION line = reproduced counterexample; exit 2 = machinery failure (undecided core query / unreproducible counterexample).",
    }
    json.dump(m, open(os.path.join(V, "MANIFEST.json"), "w"), indent=1)

main()
