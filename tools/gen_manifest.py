#!/usr/bin/env python3
"""Regenerates /verif/MANIFEST.json from the table below (edit here, not the JSON)."""
import json, os
V = os.path.dirname(os.path.dirname(os.path.abspath(__file__)))

CHECKS = {
 "C12": dict(
    engine="cbmc-c", category="model_checking", design_ref="DESIGN.md §5 C12",
    technique="bounded symbolic execution of ec_base.c with CBMC (SAT), operands fully symbolic => exhaustive over the finite domain",
    text="CBMC decides gf_mul==carry-less product mod 0x11D for all 2^16 pairs, a*inv(a)=1 for all a, all 32 entries of gf_vect_mul_init "
         "for all c, the GFNI matrix table for all (c,s), and the ec_init_tables_{base,gfni} layouts for k,rows<=4; both default and GF_LARGE_TABLES builds. "
         "The domain is finite and covered completely by the solver, so this is the strongest bounded claim available short of a proof assistant.",
    note="Trusted: cbmc 6.11 front end/SAT back end, spec/gf256.h (8-step shift-xor definition), SDM transcription of GF2P8AFFINEQB. "
         "Field axioms are decided on the specification with a case split on one operand (quick: 6 values, thorough: all 256)."),
 "C20": dict(
    engine="x86sym", category="model_checking", design_ref="DESIGN.md §5 C20, §4",
    technique="symbolic execution of the assembled kernels (own x86-64 interpreter -> z3 bit-vectors), all buffer bytes symbolic, every path decided by z3; CBMC for the portable C variant",
    text="For every length 0..330 (thorough 0..700) and a set of alignments, the four assembled mem_zero_detect_* kernels are executed symbolically from their machine code with all bytes symbolic; "
         "z3 decides on every feasible path that the return value is 0 iff all bytes are zero and the access monitor shows every load lies inside [buf,buf+len). Bounded model checking of the real binaries.",
    note="Trusted: the interpreter's instruction semantics (cross-validated every run against native execution of the same objects), z3, nasm/ld/objdump. Lengths beyond the bound are outside the claim. "
         "Dispatcher selection is C16."),
}

NOT_YET = {}

def main():
    props = [json.loads(l)["id"] for l in open(os.path.join(V, "properties.jsonl"))]
    checks, na = [], []
    for p in props:
        if p in CHECKS:
            c = CHECKS[p]
            checks.append({
                "property_id": p,
                "quick_cmd": "./check %s --tier quick" % p,
                "thorough_cmd": "./check %s --tier thorough" % p,
                "evidence_file": "evidence/%s.json" % p,
                "replay_cmd_template": "./check %s --replay {path}" % p,
                "engine": c["engine"],
                "level_claimed": {"category": c["category"], "text": c["text"], "design_ref": c["design_ref"]},
                "level_note": c["note"],
                "technique": c["technique"],
            })
        else:
            na.append({"property_id": p, "reason": NOT_YET.get(p, "check under construction in this round; not claimed until its harnesses pass on the unchanged tree")})
    m = {
        "version": 1,
        "setup_cmd": "./setup.sh",
        "hooks": {"guard": "ISAL_VERIF", "enable": "-DISAL_VERIF passed by the harness build (goto-cc/gcc); no hook is currently needed",
                  "baseline_off_cmd": "cd /repo && make -j8 check", "source_commits": [], "add_only": True},
        "engines": [
            {"name": "cbmc-c", "path": "vlib/cbmc.py", "serves_properties": [p for p in props if p in CHECKS and CHECKS[p]["engine"].startswith("cbmc")],
             "kind_free_text": "CBMC 6.11 bounded model checking of the real C translation units (goto-cc with the build's -I/-D), harness per property, native replay of counterexamples"},
            {"name": "x86sym", "path": "vlib/x86sym", "serves_properties": [p for p in props if p in CHECKS and "x86sym" in CHECKS[p]["engine"]],
             "kind_free_text": "own symbolic interpreter for the assembled nasm kernels (objdump -> z3 bit-vector terms), translator validated against native execution each run"},
        ],
        "checks": checks,
        "not_applicable": na,
        "notes": "All checks are solver-decided within stated bounds (see DESIGN.md and each evidence file: functions_encoded, bounds, queries, solver_time_s). "
                 "Exit 0 = held on everything explored; exit 1 + VIOLATION line = reproduced counterexample; exit 2 = machinery failure (undecided core query / unreproducible counterexample).",
    }
    json.dump(m, open(os.path.join(V, "MANIFEST.json"), "w"), indent=1)

main()
