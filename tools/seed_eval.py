#!/usr/bin/env python3
"""Evaluate one seeded change: tools/seed_eval.py <mutation dir> <seed name> <property> [--checks "C20:--only x" ...]
 1. in a scratch worktree: suite passes with the change; demo fails with it and passes without it
 2. apply to /repo, run the listed checks, undo.  Writes /verif/seeded/<seed name>/{patch.diff,demo*,meta.json}."""
import json, os, re, shutil, subprocess, sys, time

mdir, name, prop = sys.argv[1], sys.argv[2], sys.argv[3]
checks = sys.argv[4:] or [prop]
V = "/verif"
out = os.path.join(V, "seeded", name)
os.makedirs(out, exist_ok=True)
for f in os.listdir(mdir):
    if f in ("demo", "check.log") or f.endswith(".o"):
        continue
    src = os.path.join(mdir, f)
    if os.path.isfile(src) and os.path.getsize(src) < 200000:
        shutil.copy(src, out)
patch = os.path.join(out, "patch.diff")


def sh(cmd, cwd=None, timeout=3600):
    p = subprocess.run(cmd, shell=True, cwd=cwd, stdout=subprocess.PIPE, stderr=subprocess.STDOUT, timeout=timeout)
    return p.returncode, p.stdout.decode("utf8", "replace")


wt = "/tmp/seedwt-%d" % os.getpid()
sh("git -C /repo worktree add -q --detach %s HEAD" % wt)
meta = {"property": prop, "seed": name, "source": mdir}
try:
    readme = open(os.path.join(mdir, "README.txt")).read() if os.path.exists(os.path.join(mdir, "README.txt")) else ""
    m = re.search(r"^\s*(gcc .*)$", readme, re.M)
    demo_cmd = m.group(1).strip() if m else "gcc -O1 -I include demo.c bin/isa-l.a -o demo && ./demo"
    demo_cmd = re.sub(r"\s*;\s*echo .*$", "", demo_cmd)
    if os.path.exists(os.path.join(mdir, "demo.sh")):
        demo_cmd = "sh ./demo.sh"
    for f in os.listdir(out):
        if f.startswith("demo") or f.endswith(".h"):
            shutil.copy(os.path.join(out, f), wt)
    shutil.copytree(mdir, os.path.join(wt, os.path.basename(mdir.rstrip("/"))), ignore=shutil.ignore_patterns("demo", "*.o"))
    rc, o = sh("git apply %s" % patch, wt)
    meta["patch_applies"] = rc == 0
    rc, o = sh("make -f Makefile.unx clean >/dev/null 2>&1; rm -rf bin && make -f Makefile.unx -j8 >/dev/null 2>&1; make -f Makefile.unx -j8 check 2>&1 | tail -40", wt)
    meta["suite_with_change"] = "pass" if ("Finished running check" in o and o.count("Completed run") >= 1 and not re.search(r"\bFail|\bfail(ed)?\b|Error ", o)) else "FAIL"
    rc, o = sh("make -f Makefile.unx -j8 check 2>&1 | grep -c 'Completed run'", wt)
    meta["suite_tests_completed"] = o.strip()
    rc1, o1 = sh(demo_cmd, wt, 600)
    meta["demo_with_change"] = {"rc": rc1, "tail": o1[-400:]}
    sh("git checkout -- . && make -f Makefile.unx clean >/dev/null 2>&1; rm -rf bin && make -f Makefile.unx -j8 >/dev/null 2>&1", wt)
    rc2, o2 = sh(demo_cmd, wt, 600)
    meta["demo_without_change"] = {"rc": rc2, "tail": o2[-200:]}
    meta["demo_cmd"] = demo_cmd
    meta["confirmed"] = bool(meta["patch_applies"] and meta["suite_with_change"] == "pass" and rc1 != 0 and rc2 == 0)
finally:
    sh("git -C /repo worktree remove --force %s" % wt)
# run checks with the patch applied: to /repo itself (--in-repo) or to a patched scratch worktree (VERIF_REPO)
res = {}
if "--no-checks" in checks:
    old = json.load(open(os.path.join(out, "meta.json"))) if os.path.exists(os.path.join(out, "meta.json")) else {}
    for k in ("checks", "detected_by", "checks_ran_against"):
        if k in old:
            meta[k] = old[k]
    json.dump(meta, open(os.path.join(out, "meta.json"), "w"), indent=1)
    print(json.dumps({k: meta.get(k) for k in ("seed", "confirmed", "suite_with_change", "detected_by")}))
    sys.exit(0)
in_repo = "--in-repo" in checks
checks = [c for c in checks if c != "--in-repo"]
if in_repo:
    target = "/repo"
    rc, o = sh("git -C /repo apply %s" % patch)
else:
    target = "/tmp/seedrepo-%d" % os.getpid()
    sh("git -C /repo worktree add -q --detach %s HEAD" % target)
    rc, o = sh("git apply %s" % patch, target)
meta["checks_ran_against"] = "/repo (patch applied, then undone)" if in_repo else "patched scratch worktree via VERIF_REPO"
if rc != 0:
    res["apply_error"] = o[-300:]
else:
    try:
        for c in checks:
            pid, _, extra = c.partition(":")
            t0 = time.time()
            rc, o = sh("VERIF_REPO=%s ./check %s --tier quick %s" % (target, pid, extra), V, 3600)
            lines = [l for l in o.splitlines() if l.startswith("VIOLATION") or "tier=" in l or l.startswith("MACHINERY") or l.startswith("  violated")]
            res[c] = {"exit": rc, "detected": rc == 1, "wall_s": round(time.time() - t0), "lines": [l[:400] for l in lines[:6]]}
    finally:
        if in_repo:
            sh("git -C /repo checkout -- .")
if not in_repo:
    sh("git -C /repo worktree remove --force %s" % target)
meta["checks"] = res
meta["detected_by"] = [c for c, r in res.items() if isinstance(r, dict) and r.get("detected")]
if os.path.exists(os.path.join(mdir, "meta.txt")):
    meta["needs_to_manifest"] = open(os.path.join(mdir, "meta.txt")).read()[:3000]
json.dump(meta, open(os.path.join(out, "meta.json"), "w"), indent=1)
print(json.dumps({k: meta[k] for k in ("seed", "confirmed", "suite_with_change", "detected_by")}, indent=None))
for c, r in res.items():
    print("  ", c, r if not isinstance(r, dict) else (r["exit"], r["wall_s"], r["lines"][:2]))
