#!/usr/bin/env python3
"""Markdown table of all seeded changes (seeded/*/meta.json) for DESIGN.md §8."""
import glob, json, os
rows = []
for f in sorted(glob.glob(os.path.join(os.path.dirname(os.path.dirname(os.path.abspath(__file__))), "seeded", "*", "meta.json"))):
    m = json.load(open(f))
    det = ", ".join(c.split(":")[0] + ("" if ":" not in c else " (" + c.split(":", 1)[1].replace("--only ", "") + ")") for c in m.get("detected_by", [])) or "**missed**"
    ran = ", ".join(m.get("checks", {}).keys())
    need = (m.get("needs_to_manifest") or "").strip().splitlines()
    need = next((l for l in need if l.strip()), "")[:160]
    rows.append("| %s | %s | %s | %s | %s |" % (m["seed"], m["property"], "yes" if m.get("confirmed") else "no", det, m.get("note", need).replace("|", "/")))
print("| seeded change | property | confirmed (suite passes, demo fails/passes) | caught by | note |\n|---|---|---|---|---|")
print("\n".join(rows))
