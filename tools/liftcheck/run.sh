#!/bin/bash
# Translator validation for engine C (vlib/x86lift.py): the lifted C of isal_deflate_finish_01 against the real assembled
# kernel of /repo on random inputs (state, output bytes, bit buffer must agree).  Needs /repo built (.libs/libisal.a).
# usage: tools/liftcheck/run.sh   (uses a scratch directory that it removes)
set -e
V=/verif; W=$(mktemp -d)
python3-vt - <<PY
import sys; sys.path.insert(0, "$V")
from harness.inflate_common import lift_gen
open("$W/lift_asmfinish.c", "w").write(lift_gen.gen_asmfinish({"repo": "/repo", "scratch": "$W"}, {}))
PY
echo '#define REPLAY_INIT { .in = { 0 }, .pend = 0, .hist = 0 }' > $W/rf.h
rc=0
for cfg in "8 64" "16 64" "5 3" "12 9" "40 20" "300 400"; do
  set -- $cfg
  gcc -O1 -w -DN=$1 -DAVAIL_OUT=$2 -I$W -I/repo/include -I/repo/igzip -I$V/spec -I$V -Dx86_64 $V/tools/liftcheck/cmp_finish.c /repo/.libs/libisal.a -o $W/cmp && $W/cmp 1 || rc=1
done
rm -rf $W
exit $rc
