/* one-off validation of the lifter on isal_deflate_finish_01: lifted C vs the real assembled kernel */
#define REPLAY 1
#define REPLAY_INPUTS "rf.h"
#define main harness_main
#include "/verif/harness/C10/h_asmfinish.c"
#undef main
void isal_deflate_finish_01(struct isal_zstream *s);
int main(int argc, char **argv) {
    srand(atoi(argv[1])); int fails = 0;
    for (int it = 0; it < 2000; it++) {
        for (int i = 0; i < N; i++) I.in[i] = (rand() % 4 == 0) ? rand() : "abcab"[rand() % 5];
        I.pend = rand() & 7; I.hist = rand() & 1;
        memset(outw, 0, sizeof outw); memset(lift_stack, 0, sizeof lift_stack);
        /* lifted */
        for (int i = 0; i < N; i++) inb[i] = I.in[i];
        isal_deflate_init(&S); S.hufftables = (struct isal_hufftables *) &hufftables_static; S.end_of_stream = 1; S.flush = NO_FLUSH;
        S.avail_in = N; S.avail_out = AVAIL_OUT; S.internal_state.state = ZSTATE_FLUSH_READ_BUFFER; S.internal_state.dist_mask = IGZIP_HIST_SIZE - 1;
        S.internal_state.hash_mask = IGZIP_LVL0_HASH_SIZE - 1; S.internal_state.has_hist = I.hist; S.internal_state.bitbuf.m_bits = I.pend; S.internal_state.bitbuf.m_bit_count = PEND;
        v_next_in = IN_BASE; v_next_out = OUT_BASE;
        lift_isal_deflate_finish_01(STREAM_BASE, 0, 0, 0, STACK_BASE + STACK_SIZE - 64);
        /* real */
        static struct isal_zstream R; static uint8_t rin[N + 64], rout[AVAIL_OUT + 64];
        memset(rout, 0, sizeof rout); memcpy(rin, I.in, N);
        isal_deflate_init(&R); R.hufftables = (struct isal_hufftables *) &hufftables_static; R.end_of_stream = 1; R.flush = NO_FLUSH;
        R.next_in = rin; R.avail_in = N; R.next_out = rout; R.avail_out = AVAIL_OUT; R.internal_state.state = ZSTATE_FLUSH_READ_BUFFER; R.internal_state.dist_mask = IGZIP_HIST_SIZE - 1;
        R.internal_state.hash_mask = IGZIP_LVL0_HASH_SIZE - 1; R.internal_state.has_hist = I.hist; R.internal_state.bitbuf.m_bits = I.pend; R.internal_state.bitbuf.m_bit_count = PEND;
        isal_deflate_finish_01(&R);
        int bad = 0;
        if (R.total_out != S.total_out || R.total_in != S.total_in || R.avail_in != S.avail_in || R.internal_state.state != S.internal_state.state ||
            R.internal_state.bitbuf.m_bits != S.internal_state.bitbuf.m_bits || R.internal_state.bitbuf.m_bit_count != S.internal_state.bitbuf.m_bit_count) bad = 1;
        if (memcmp(rout, outw, R.total_out < AVAIL_OUT ? R.total_out : AVAIL_OUT)) bad = 2;
        if (bad) { fails++; if (fails < 5) printf("MISMATCH kind %d: out %u/%u in %u/%u state %d/%d\n", bad, R.total_out, S.total_out, R.total_in, S.total_in, R.internal_state.state, S.internal_state.state); }
    }
    printf("N=%d AO=%d fails=%d\n", N, AVAIL_OUT, fails); return fails != 0;
}
