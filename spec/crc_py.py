"""Bit-at-a-time CRC definitions (independent of every ISA-L table), used by the engine-B CRC checks.
Each routine: (width, poly (normal form), reflected, invert)  with ISA-L's seed convention:
   crc = seed ^ (all-ones if invert) ; process bytes ; return crc ^ (all-ones if invert)
Anchored at import time to published check values on "123456789"."""

ROUTINES = {
    # name: (width, poly, reflected, invert)
    "crc16_t10dif": (16, 0x8BB7, False, False),
    "crc32_ieee": (32, 0x04C11DB7, False, True),
    "crc32_gzip_refl": (32, 0x04C11DB7, True, True),
    "crc32_iscsi": (32, 0x1EDC6F41, True, False),
    "crc64_ecma_refl": (64, 0x42F0E1EBA9EA3693, True, True),
    "crc64_ecma_norm": (64, 0x42F0E1EBA9EA3693, False, True),
    "crc64_iso_refl": (64, 0x000000000000001B, True, True),
    "crc64_iso_norm": (64, 0x000000000000001B, False, True),
    "crc64_jones_refl": (64, 0xAD93D23594C935A9, True, True),
    "crc64_jones_norm": (64, 0xAD93D23594C935A9, False, True),
    "crc64_rocksoft_refl": (64, 0xAD93D23594C93659, True, True),
    "crc64_rocksoft_norm": (64, 0xAD93D23594C93659, False, True),
}


def reflect(v, w):
    r = 0
    for i in range(w):
        if (v >> i) & 1:
            r |= 1 << (w - 1 - i)
    return r


def crc_int(name, seed, data):
    w, poly, refl, inv = ROUTINES[name]
    m = (1 << w) - 1
    crc = (seed ^ (m if inv else 0)) & m
    if refl:
        pr = reflect(poly, w)
        for b in data:
            crc ^= b
            for _ in range(8):
                crc = (crc >> 1) ^ (pr if crc & 1 else 0)
    else:
        for b in data:
            crc ^= b << (w - 8)
            for _ in range(8):
                crc = ((crc << 1) & m) ^ (poly if (crc >> (w - 1)) & 1 else 0)
    return crc ^ (m if inv else 0)


def crc_bits(name, seed_bits, data_bytes_bits):
    """GF(2)-affine version: seed_bits = list of w masks (bit i of the seed), data_bytes_bits = list of
    8-element mask lists (bit i of each byte).  A mask is a Python int: bit 0 = constant 1, bit j = variable j.
    Returns the w result-bit masks."""
    w, poly, refl, inv = ROUTINES[name]
    c = [b ^ (1 if inv else 0) for b in seed_bits]
    if refl:
        pr = reflect(poly, w)
        taps = [j for j in range(w) if (pr >> j) & 1]
        for byte in data_bytes_bits:
            for i in range(8):
                c[i] ^= byte[i]
            for _ in range(8):
                lsb = c[0]
                c = c[1:] + [0]
                if lsb:
                    for j in taps:
                        c[j] ^= lsb
    else:
        taps = [j for j in range(w) if (poly >> j) & 1]
        for byte in data_bytes_bits:
            for i in range(8):
                c[w - 8 + i] ^= byte[i]
            for _ in range(8):
                msb = c[w - 1]
                c = [0] + c[:w - 1]
                if msb:
                    for j in taps:
                        c[j] ^= msb
    return [b ^ (1 if inv else 0) for b in c]


CHECK = b"123456789"
_M64 = (1 << 64) - 1
ANCHORS = [
    ("crc16_t10dif", 0, 0xD0DB, "CRC-16/T10-DIF"),
    ("crc32_gzip_refl", 0, 0xCBF43926, "CRC-32/ISO-HDLC"),
    ("crc32_ieee", 0, 0xFC891918, "CRC-32/BZIP2"),
    ("crc32_iscsi", 0xFFFFFFFF, 0xE3069283 ^ 0xFFFFFFFF, "CRC-32/ISCSI (init ~0, result before final xor)"),
    ("crc64_ecma_refl", 0, 0x995DC9BBDF1939FA, "CRC-64/XZ"),
    ("crc64_ecma_norm", 0, 0x62EC59E3F1A4F00A, "CRC-64/WE"),
    ("crc64_ecma_norm", _M64, 0x6C40DF5F0B497347 ^ _M64, "CRC-64/ECMA-182 (init 0, xorout 0) via seed=~0"),
    ("crc64_iso_refl", 0, 0xB90956C775A41001, "CRC-64/GO-ISO"),
    ("crc64_jones_refl", _M64, 0xE9C6D914C4B8D9CA ^ _M64, "CRC-64/REDIS (init 0, xorout 0) via seed=~0"),
    ("crc64_rocksoft_refl", 0, 0xAE8B14860A799888, "CRC-64/NVME"),
]


def self_test():
    bad = []
    for name, seed, want, label in ANCHORS:
        got = crc_int(name, seed, CHECK)
        if got != want:
            bad.append("%s (%s): got %x want %x" % (name, label, got, want))
    # bit-level version agrees with the integer version on a few inputs
    import random
    rnd = random.Random(7)
    for name, (w, poly, refl, inv) in ROUTINES.items():
        for n in (0, 1, 5):
            seed = rnd.getrandbits(w)
            data = [rnd.randrange(256) for _ in range(n)]
            sb = [(seed >> i) & 1 for i in range(w)]
            db = [[(b >> i) & 1 for i in range(8)] for b in data]
            r = crc_bits(name, sb, db)
            if sum((x & 1) << i for i, x in enumerate(r)) != crc_int(name, seed, data):
                bad.append("%s bit/int mismatch n=%d" % (name, n))
    return bad


if __name__ == "__main__":
    print(self_test() or "crc spec anchors OK")
