/* Bit-at-a-time CRC and byte-at-a-time Adler-32 specifications, independent of every ISA-L table.
 *
 * A CRC flavour is (width w, generator polynomial in normal form without the x^w term, reflected?,
 * invert?) and ISA-L's calling convention for all 13 routines is
 *        reg = seed ^ (invert ? all-ones : 0);  feed the message bits;  return reg ^ (invert ? all-ones : 0)
 * The register is a plain LFSR fed ONE MESSAGE BIT per step:
 *   non-reflected: bits of each byte MSB first;  fb = msb(reg) ^ bit;  reg = (reg << 1) ^ (fb ? poly : 0)
 *   reflected    : bits of each byte LSB first;  fb = lsb(reg) ^ bit;  reg = (reg >> 1) ^ (fb ? reflect(poly) : 0)
 *
 * routine (crc.h / crc64.h)          w   poly                refl inv   catalogue name of f(0, m)           check("123456789")
 *  crc16_t10dif, crc16_t10dif_copy  16  0x8BB7               no   no    CRC-16/T10-DIF                      0xD0DB
 *  crc32_ieee                       32  0x04C11DB7           no   yes   CRC-32/BZIP2 (NOT the reflected     0xFC891918
 *                                                                        CRC-32/ISO-HDLC 0xCBF43926: ISA-L's
 *                                                                        "ieee" routine is MSB-first)
 *  crc32_gzip_refl                  32  0x04C11DB7           yes  yes   CRC-32/ISO-HDLC (zlib, gzip)        0xCBF43926
 *  crc32_iscsi                      32  0x1EDC6F41           yes  no    raw register; CRC-32/ISCSI is       0xE3069283
 *                                                                        ~f(0xFFFFFFFF, m)
 *  crc64_ecma_refl                  64  0x42F0E1EBA9EA3693   yes  yes   CRC-64/XZ                           0x995DC9BBDF1939FA
 *  crc64_ecma_norm                  64  0x42F0E1EBA9EA3693   no   yes   CRC-64/WE; CRC-64/ECMA-182 is       0x62EC59E3F1A4F00A
 *                                                                        ~f(~0, m)                          (0x6C40DF5F0B497347)
 *  crc64_iso_refl                   64  0x000000000000001B   yes  yes   CRC-64/GO-ISO                       0xB90956C775A41001
 *  crc64_iso_norm                   64  0x000000000000001B   no   yes   (no catalogue entry; anchored by the bit-reversal duality
 *                                                                        norm(m) == reflect(refl(bit-reversed bytes of m)))
 *  crc64_jones_refl                 64  0xAD93D23594C935A9   yes  yes   CRC-64/REDIS is ~f(~0, m)           (0xE9C6D914C4B8D9CA)
 *  crc64_jones_norm                 64  0xAD93D23594C935A9   no   yes   (duality with jones_refl)
 *  crc64_rocksoft_refl              64  0xAD93D23594C93659   yes  yes   CRC-64/NVME                         0xAE8B14860A799888
 *  crc64_rocksoft_norm              64  0xAD93D23594C93659   no   yes   (duality with rocksoft_refl)
 * The check values are those of the "Catalogue of parametrised CRC algorithms" (reveng); harness
 * harness/C04/h_crc_base.c -DH_ANCHOR evaluates this specification on "123456789" against them.
 */
#ifndef SPEC_CRC_SPEC_H
#define SPEC_CRC_SPEC_H
#include <stdint.h>
#include <stddef.h>

struct crc_flavour {
        int width;
        uint64_t poly;
        int refl;
        int inv;
};

#define CRCF_T10DIF        { 16, 0x8BB7ull, 0, 0 }
#define CRCF_IEEE          { 32, 0x04C11DB7ull, 0, 1 }
#define CRCF_GZIP_REFL     { 32, 0x04C11DB7ull, 1, 1 }
#define CRCF_ISCSI         { 32, 0x1EDC6F41ull, 1, 0 }
#define CRCF_ECMA_REFL     { 64, 0x42F0E1EBA9EA3693ull, 1, 1 }
#define CRCF_ECMA_NORM     { 64, 0x42F0E1EBA9EA3693ull, 0, 1 }
#define CRCF_ISO_REFL      { 64, 0x000000000000001Bull, 1, 1 }
#define CRCF_ISO_NORM      { 64, 0x000000000000001Bull, 0, 1 }
#define CRCF_JONES_REFL    { 64, 0xAD93D23594C935A9ull, 1, 1 }
#define CRCF_JONES_NORM    { 64, 0xAD93D23594C935A9ull, 0, 1 }
#define CRCF_ROCKSOFT_REFL { 64, 0xAD93D23594C93659ull, 1, 1 }
#define CRCF_ROCKSOFT_NORM { 64, 0xAD93D23594C93659ull, 0, 1 }

static inline uint64_t
spec_crc_mask(int w)
{
        return w == 64 ? ~0ull : ((1ull << w) - 1);
}

static inline uint64_t
spec_reflect(uint64_t v, int w)
{
        uint64_t r = 0;
        for (int i = 0; i < w; i++)
                if ((v >> i) & 1)
                        r |= 1ull << (w - 1 - i);
        return r;
}

/* one message bit through the LFSR */
static inline uint64_t
spec_crc_bit(const struct crc_flavour *f, uint64_t reg, unsigned bit)
{
        uint64_t m = spec_crc_mask(f->width);
        if (f->refl) {
                unsigned fb = (unsigned) (reg & 1) ^ bit;
                reg >>= 1;
                if (fb)
                        reg ^= spec_reflect(f->poly, f->width);
        } else {
                unsigned fb = (unsigned) ((reg >> (f->width - 1)) & 1) ^ bit;
                reg = (reg << 1) & m;
                if (fb)
                        reg ^= f->poly;
        }
        return reg & m;
}

static inline uint64_t
spec_crc(const struct crc_flavour *f, uint64_t seed, const uint8_t *buf, size_t n)
{
        uint64_t m = spec_crc_mask(f->width);
        uint64_t reg = (seed ^ (f->inv ? m : 0)) & m;
        for (size_t i = 0; i < n; i++)
                for (int b = 0; b < 8; b++)
                        reg = spec_crc_bit(f, reg, f->refl ? (buf[i] >> b) & 1 : (buf[i] >> (7 - b)) & 1);
        return (reg ^ (f->inv ? m : 0)) & m;
}

/* RFC 1950 section 8.2: s1 = 1 + sum of bytes, s2 = sum of the s1 values, both modulo 65521,
 * value = s2*65536 + s1; running form from a previous value (s2 << 16 | s1). */
#define SPEC_ADLER_MOD 65521u
static inline uint32_t
spec_adler32(uint32_t adler, const uint8_t *buf, size_t n)
{
        uint32_t s1 = adler & 0xffff, s2 = adler >> 16;
        for (size_t i = 0; i < n; i++) {
                s1 = (s1 + buf[i]) % SPEC_ADLER_MOD;
                s2 = (s2 + s1) % SPEC_ADLER_MOD;
        }
        return (s2 << 16) | s1;
}
/* The same definition with the reduction written as a conditional subtraction; exact whenever both
 * halves of the running value are < 65521 (then s1 + byte < 2*65521 and s2 + s1 < 2*65521).  Cheaper for a
 * SAT solver than 2n dividers; its equality with spec_adler32 is decided per step (H_ADLER_CS, all s1, s2 <
 * 65521, all bytes) and extends to every n by induction (both keep the halves < 65521). */
static inline uint32_t
spec_adler32_cs(uint32_t adler, const uint8_t *buf, size_t n)
{
        uint32_t s1 = adler & 0xffff, s2 = adler >> 16;
        for (size_t i = 0; i < n; i++) {
                s1 += buf[i];
                if (s1 >= SPEC_ADLER_MOD)
                        s1 -= SPEC_ADLER_MOD;
                s2 += s1;
                if (s2 >= SPEC_ADLER_MOD)
                        s2 -= SPEC_ADLER_MOD;
        }
        return (s2 << 16) | s1;
}
#endif
