/* Independent RFC 1951 reference decoder for the harnesses (puff-style, written for /verif).
 * Shares no code or table with ISA-L. Bit-serial, bounds-checked, CBMC-friendly:
 *  - fixed-Huffman symbols are decoded arithmetically from the code ranges of RFC 1951 3.2.6
 *  - dynamic blocks use canonical count/symbol arrays (RFC 1951 3.2.2)
 * It reports what the checks need: bytes produced, exact bit position after the last block,
 * whether BFINAL was seen, the largest match distance, number of blocks, and per-flush info.
 */
#ifndef SPEC_RFC1951_H
#define SPEC_RFC1951_H
#include <stdint.h>
#include <stddef.h>

enum {
        RFC_OK = 0,          /* BFINAL block decoded completely */
        RFC_BOUNDARY = 1,    /* input exhausted exactly at a block boundary, no BFINAL seen */
        RFC_TRUNCATED = 2,   /* input exhausted inside a block */
        RFC_OUTFULL = 3,     /* output capacity exceeded */
        RFC_BAD_BTYPE = 10,
        RFC_BAD_STORED = 11, /* LEN != ~NLEN */
        RFC_BAD_SYMBOL = 12, /* lit/len 286,287 or distance code 30,31 or undefined code */
        RFC_BAD_DIST = 13,   /* distance reaches before start of output (+dictionary) */
        RFC_BAD_HEADER = 14, /* HLIT/HDIST out of range, over-subscribed/incomplete code, bad repeat */
};

#ifndef RFC_MAXBLOCKS
#define RFC_MAXBLOCKS 8
#endif

struct rfc_res {
        int status;
        size_t out_len;      /* bytes produced */
        size_t bit_pos;      /* bit position just after the last completely decoded block */
        int saw_final;
        int nblocks;
        uint32_t max_dist;   /* largest match distance seen */
        uint32_t nmatches;
        uint8_t btype[RFC_MAXBLOCKS];
        size_t blk_end_bit[RFC_MAXBLOCKS];  /* bit position after block i */
        size_t blk_end_out[RFC_MAXBLOCKS];  /* out_len after block i */
};

struct rfc_st {
        const uint8_t *in;
        size_t in_bits;      /* total bits available */
        size_t pos;          /* current bit position */
        uint8_t *out;
        size_t out_cap, out_len;
        const uint8_t *dict;
        size_t dict_len;
        int eof;             /* set when a read ran past the input */
        uint32_t max_dist, nmatches;
};

static inline uint32_t
rfc_bits(struct rfc_st *s, int n)
{ /* n <= 16, LSB first */
        uint32_t v = 0;
        for (int i = 0; i < n; i++) {
                if (s->pos >= s->in_bits) {
                        s->eof = 1;
                        return 0;
                }
                v |= (uint32_t) ((s->in[s->pos >> 3] >> (s->pos & 7)) & 1) << i;
                s->pos++;
        }
        return v;
}

static inline uint32_t
rfc_code_bits(struct rfc_st *s, int n)
{ /* Huffman codes are packed MSB first */
        uint32_t v = 0;
        for (int i = 0; i < n; i++)
                v = (v << 1) | rfc_bits(s, 1);
        return v;
}

static const uint16_t rfc_len_base[29] = { 3, 4, 5, 6, 7, 8, 9, 10, 11, 13, 15, 17, 19, 23, 27, 31, 35, 43, 51, 59,
                                            67, 83, 99, 115, 131, 163, 195, 227, 258 };
static const uint8_t rfc_len_extra[29] = { 0, 0, 0, 0, 0, 0, 0, 0, 1, 1, 1, 1, 2, 2, 2, 2, 3, 3, 3, 3, 4, 4, 4, 4, 5, 5, 5, 5, 0 };
static const uint16_t rfc_dist_base[30] = { 1, 2, 3, 4, 5, 7, 9, 13, 17, 25, 33, 49, 65, 97, 129, 193, 257, 385, 513, 769,
                                             1025, 1537, 2049, 3073, 4097, 6145, 8193, 12289, 16385, 24577 };
static const uint8_t rfc_dist_extra[30] = { 0, 0, 0, 0, 1, 1, 2, 2, 3, 3, 4, 4, 5, 5, 6, 6, 7, 7, 8, 8, 9, 9, 10, 10, 11, 11, 12, 12, 13, 13 };

/* canonical code: count[len], symbol[] sorted by (len, symbol) */
struct rfc_huff {
        uint16_t count[16];
        uint16_t symbol[288];
};

/* returns 0 complete, >0 incomplete (left over), <0 over-subscribed */
static inline int
rfc_construct(struct rfc_huff *h, const uint8_t *length, int n)
{
        uint16_t offs[16];
        int left = 1;
        for (int len = 0; len <= 15; len++)
                h->count[len] = 0;
        for (int sym = 0; sym < n; sym++)
                h->count[length[sym]]++;
        if (h->count[0] == n)
                return 0; /* no codes: complete, but decode will fail */
        for (int len = 1; len <= 15; len++) {
                left <<= 1;
                left -= h->count[len];
                if (left < 0)
                        return left;
        }
        offs[1] = 0;
        for (int len = 1; len < 15; len++)
                offs[len + 1] = offs[len] + h->count[len];
        for (int sym = 0; sym < n; sym++)
                if (length[sym] != 0)
                        h->symbol[offs[length[sym]]++] = (uint16_t) sym;
        return left;
}

static inline int
rfc_decode(struct rfc_st *s, const struct rfc_huff *h)
{
        int code = 0, first = 0, index = 0;
        for (int len = 1; len <= 15; len++) {
                code |= (int) rfc_bits(s, 1);
                if (s->eof)
                        return -2;
                int count = h->count[len];
                if (code - count < first)
                        return h->symbol[index + (code - first)];
                index += count;
                first += count;
                first <<= 1;
                code <<= 1;
        }
        return -1; /* ran out of codes */
}

/* fixed lit/len symbol per RFC 1951 3.2.6; -2 on eof */
static inline int
rfc_fixed_litlen(struct rfc_st *s)
{
        uint32_t c = rfc_code_bits(s, 7);
        if (s->eof)
                return -2;
        if (c <= 0x17)
                return 256 + (int) c; /* 0000000..0010111 -> 256..279 */
        c = (c << 1) | rfc_bits(s, 1);
        if (s->eof)
                return -2;
        if (c >= 0x30 && c <= 0xBF)
                return (int) c - 0x30; /* 00110000..10111111 -> 0..143 */
        if (c >= 0xC0 && c <= 0xC7)
                return 280 + (int) c - 0xC0; /* 11000000..11000111 -> 280..287 */
        c = (c << 1) | rfc_bits(s, 1);
        if (s->eof)
                return -2;
        return 144 + (int) c - 0x190; /* 110010000..111111111 -> 144..255 */
}

/* one literal/match loop; fixed != 0 => fixed codes, else lencode/distcode */
static inline int
rfc_codes(struct rfc_st *s, int fixed, const struct rfc_huff *lencode, const struct rfc_huff *distcode)
{
        for (;;) {
                int sym = fixed ? rfc_fixed_litlen(s) : rfc_decode(s, lencode);
                if (sym == -2 || s->eof)
                        return RFC_TRUNCATED;
                if (sym < 0)
                        return RFC_BAD_SYMBOL;
                if (sym < 256) {
                        if (s->out_len >= s->out_cap)
                                return RFC_OUTFULL;
                        s->out[s->out_len++] = (uint8_t) sym;
                } else if (sym == 256) {
                        return RFC_OK;
                } else {
                        sym -= 257;
                        if (sym >= 29)
                                return RFC_BAD_SYMBOL;
                        uint32_t len = rfc_len_base[sym] + rfc_bits(s, rfc_len_extra[sym]);
                        if (s->eof)
                                return RFC_TRUNCATED;
                        int ds = fixed ? (int) rfc_code_bits(s, 5) : rfc_decode(s, distcode);
                        if (ds == -2 || s->eof)
                                return RFC_TRUNCATED;
                        if (ds < 0 || ds >= 30)
                                return RFC_BAD_SYMBOL;
                        uint32_t dist = rfc_dist_base[ds] + rfc_bits(s, rfc_dist_extra[ds]);
                        if (s->eof)
                                return RFC_TRUNCATED;
                        if (dist > s->out_len + s->dict_len)
                                return RFC_BAD_DIST;
                        if (dist > s->max_dist)
                                s->max_dist = dist;
                        s->nmatches++;
                        for (uint32_t i = 0; i < len; i++) {
                                if (s->out_len >= s->out_cap)
                                        return RFC_OUTFULL;
                                uint8_t b;
                                if (dist > s->out_len)
                                        b = s->dict[s->dict_len - (dist - s->out_len)];
                                else
                                        b = s->out[s->out_len - dist];
                                s->out[s->out_len++] = b;
                        }
                }
        }
}

static inline int
rfc_dynamic(struct rfc_st *s)
{
        static const uint8_t order[19] = { 16, 17, 18, 0, 8, 7, 9, 6, 10, 5, 11, 4, 12, 3, 13, 2, 14, 1, 15 };
        uint8_t lengths[320];
        struct rfc_huff lencode, distcode;
        int nlen = (int) rfc_bits(s, 5) + 257;
        int ndist = (int) rfc_bits(s, 5) + 1;
        int ncode = (int) rfc_bits(s, 4) + 4;
        if (s->eof)
                return RFC_TRUNCATED;
        if (nlen > 286 || ndist > 30)
                return RFC_BAD_HEADER;
        int index;
        for (index = 0; index < ncode; index++)
                lengths[order[index]] = (uint8_t) rfc_bits(s, 3);
        for (; index < 19; index++)
                lengths[order[index]] = 0;
        if (s->eof)
                return RFC_TRUNCATED;
        if (rfc_construct(&lencode, lengths, 19) != 0)
                return RFC_BAD_HEADER;
        index = 0;
        while (index < nlen + ndist) {
                int sym = rfc_decode(s, &lencode);
                if (sym == -2 || s->eof)
                        return RFC_TRUNCATED;
                if (sym < 0)
                        return RFC_BAD_HEADER;
                if (sym < 16)
                        lengths[index++] = (uint8_t) sym;
                else {
                        int len = 0, rep;
                        if (sym == 16) {
                                if (index == 0)
                                        return RFC_BAD_HEADER;
                                len = lengths[index - 1];
                                rep = 3 + (int) rfc_bits(s, 2);
                        } else if (sym == 17)
                                rep = 3 + (int) rfc_bits(s, 3);
                        else
                                rep = 11 + (int) rfc_bits(s, 7);
                        if (s->eof)
                                return RFC_TRUNCATED;
                        if (index + rep > nlen + ndist)
                                return RFC_BAD_HEADER;
                        while (rep--)
                                lengths[index++] = (uint8_t) len;
                }
        }
        if (lengths[256] == 0)
                return RFC_BAD_HEADER;
        int err = rfc_construct(&lencode, lengths, nlen);
        if (err < 0 || (err > 0 && nlen - lencode.count[0] != 1))
                return RFC_BAD_HEADER;
        err = rfc_construct(&distcode, lengths + nlen, ndist);
        if (err < 0 || (err > 0 && ndist - distcode.count[0] != 1))
                return RFC_BAD_HEADER;
        return rfc_codes(s, 0, &lencode, &distcode);
}

/* Decode blocks until BFINAL, an error, or the input is exhausted. */
static inline void
rfc1951_inflate(const uint8_t *in, size_t in_len, size_t start_bit, uint8_t *out, size_t out_cap, const uint8_t *dict,
                size_t dict_len, struct rfc_res *r)
{
        struct rfc_st s;
        s.in = in;
        s.in_bits = in_len * 8;
        s.pos = start_bit;
        s.out = out;
        s.out_cap = out_cap;
        s.out_len = 0;
        s.dict = dict;
        s.dict_len = dict_len;
        s.eof = 0;
        s.max_dist = 0;
        s.nmatches = 0;
        r->saw_final = 0;
        r->nblocks = 0;
        r->bit_pos = start_bit;
        r->out_len = 0;
        r->status = RFC_BOUNDARY;
        for (int blk = 0; blk < RFC_MAXBLOCKS; blk++) {
                if (s.pos + 3 > s.in_bits) {
                        r->status = (s.pos >= s.in_bits) ? RFC_BOUNDARY : RFC_TRUNCATED;
                        break;
                }
                int last = (int) rfc_bits(&s, 1);
                int type = (int) rfc_bits(&s, 2);
                int st;
                if (type == 0) {
                        s.pos = (s.pos + 7) & ~(size_t) 7;
                        if (s.pos + 32 > s.in_bits) {
                                st = RFC_TRUNCATED;
                        } else {
                                uint32_t len = rfc_bits(&s, 16);
                                uint32_t nlen = rfc_bits(&s, 16);
                                if (len != (~nlen & 0xffff))
                                        st = RFC_BAD_STORED;
                                else if (s.pos + 8 * (size_t) len > s.in_bits)
                                        st = RFC_TRUNCATED;
                                else if (s.out_len + len > s.out_cap)
                                        st = RFC_OUTFULL;
                                else {
                                        for (uint32_t i = 0; i < len; i++)
                                                s.out[s.out_len++] = s.in[(s.pos >> 3) + i];
                                        s.pos += 8 * (size_t) len;
                                        st = RFC_OK;
                                }
                        }
                } else if (type == 1)
                        st = rfc_codes(&s, 1, 0, 0);
                else if (type == 2)
                        st = rfc_dynamic(&s);
                else
                        st = RFC_BAD_BTYPE;
                if (st != RFC_OK) {
                        r->status = st;
                        break;
                }
                r->btype[blk] = (uint8_t) type;
                r->blk_end_bit[blk] = s.pos;
                r->blk_end_out[blk] = s.out_len;
                r->nblocks = blk + 1;
                r->bit_pos = s.pos;
                r->out_len = s.out_len;
                if (last) {
                        r->saw_final = 1;
                        r->status = RFC_OK;
                        break;
                }
                r->status = RFC_BOUNDARY;
                if (blk == RFC_MAXBLOCKS - 1)
                        r->status = RFC_TRUNCATED; /* too many blocks for this harness bound */
        }
        r->max_dist = s.max_dist;
        r->nmatches = s.nmatches;
        if (r->status != RFC_OK && r->status != RFC_BOUNDARY)
                r->out_len = s.out_len;
}
#endif
