/* Harness conventions shared by all CBMC harnesses (engine A).
 *
 *  - every nondeterministic input lives in one object `struct inputs I` that the harness
 *    initialises with VERIF_INPUTS(); under CBMC it is an arbitrary value, under -DREPLAY it is
 *    the counterexample the driver extracted from CBMC's trace (native replay with ASan/UBSan).
 *  - VASSERT/VASSUME work in both worlds; VREACHED() is the vacuity witness (-DWITNESS twin:
 *    must be reported FAILED, i.e. the end of the harness is reachable under the assumptions).
 */
#ifndef VERIF_H
#define VERIF_H
#include <stdint.h>
#include <stddef.h>
#include <string.h>

#ifdef REPLAY
#include <stdio.h>
#include <stdlib.h>
#include REPLAY_INPUTS
#define VASSERT(c, msg) do { if (!(c)) { printf("ASSERT-FAIL: %s\n", msg); fflush(stdout); exit(1); } } while (0)
#define VASSUME(c) do { if (!(c)) { printf("ASSUME-FAIL: %s\n", #c); fflush(stdout); exit(3); } } while (0)
#define VREACHED() do { } while (0)
#define VERIF_INPUTS() do { static const struct inputs I_replay = REPLAY_INIT; I = I_replay; } while (0)
#define VERIF_MAIN int main(void) { harness(); printf("REPLAY-PASS\n"); return 0; }
#else
#define VASSERT(c, msg) __CPROVER_assert(c, msg)
#define VASSUME(c) __CPROVER_assume(c)
#ifdef WITNESS
#define VREACHED() __CPROVER_assert(0, "WITNESS end of harness reachable")
#else
#define VREACHED() do { } while (0)
#endif
#define VERIF_INPUTS() do { I = nondet_inputs(); } while (0)
#define VERIF_MAIN
#endif

#define DECLARE_INPUTS struct inputs I; struct inputs nondet_inputs(void);

#endif
