/* Independent byte-layout specification of the gzip (RFC 1952) member header/trailer and the
 * zlib (RFC 1950) stream header/trailer.  Written from the RFC text only; it shares no code
 * with ISA-L's header writers/readers (igzip.c, igzip_inflate.c, igzip_wrapper.h, unaligned.h).
 *
 * The one thing that is NOT re-specified here is the value of CRC-32 itself: the caller passes
 * a function computing it (the harnesses pass ISA-L's portable crc32_gzip_refl_base, whose
 * meaning is the subject of property C04).  Everything else - field order, widths, byte order,
 * flag bits, FCHECK, termination of strings, which bytes the header CRC covers - is stated here.
 *
 * RFC 1952 section 2.3:
 *   +---+---+---+---+---+---+---+---+---+---+
 *   |ID1|ID2|CM |FLG|     MTIME     |XFL|OS |     ID1=0x1f ID2=0x8b CM=8; MTIME least
 *   +---+---+---+---+---+---+---+---+---+---+     significant byte first (section 2.1)
 *   (if FLG.FEXTRA)   | XLEN (2, LSB first) | XLEN bytes of "extra field" |
 *   (if FLG.FNAME)    | original file name, zero-terminated |
 *   (if FLG.FCOMMENT) | file comment, zero-terminated |
 *   (if FLG.FHCRC)    | CRC16 (2, LSB first) | = two least significant bytes of the CRC-32 of all
 *                                              bytes of the gzip header up to and not including
 *                                              the CRC16
 *   FLG bits: 0 FTEXT, 1 FHCRC, 2 FEXTRA, 3 FNAME, 4 FCOMMENT, 5..7 reserved
 *   trailer: CRC32 (4, LSB first) | ISIZE (4, LSB first) = size of the original input mod 2^32
 *
 * RFC 1950 section 2.2:
 *   | CMF | FLG | (if FLG.FDICT) DICTID (4) | ...compressed data... | ADLER32 (4) |
 *   CMF bits 0..3 CM (=8), bits 4..7 CINFO;  FLG bits 0..4 FCHECK, bit 5 FDICT, bits 6..7 FLEVEL
 *   FCHECK such that (CMF*256 + FLG) is a multiple of 31.
 *   Section 2.1 end: multi-byte numbers in the zlib format (DICTID, ADLER32) are stored
 *   MOST-significant byte first.
 */
#ifndef RFC1950_1952_H
#define RFC1950_1952_H
#include <stdint.h>
#include <stddef.h>

typedef uint32_t (*spec_crc32_fn)(uint32_t seed, const unsigned char *buf, uint64_t len);

#define SPEC_GZ_FTEXT    1u
#define SPEC_GZ_FHCRC    2u
#define SPEC_GZ_FEXTRA   4u
#define SPEC_GZ_FNAME    8u
#define SPEC_GZ_FCOMMENT 16u

/* abstract content of a gzip member header */
struct spec_gz_hdr {
        int ftext;
        uint32_t mtime;
        uint8_t xfl, os;
        int has_extra;
        uint16_t xlen;
        const uint8_t *extra; /* xlen bytes */
        int has_name;
        uint32_t name_len; /* number of non-zero bytes before the terminator */
        const uint8_t *name;
        int has_comment;
        uint32_t comment_len;
        const uint8_t *comment;
        int has_hcrc;
};

static inline uint32_t
spec_gz_hdr_size(const struct spec_gz_hdr *h)
{
        uint32_t n = 10;
        if (h->has_extra)
                n += 2u + h->xlen;
        if (h->has_name)
                n += h->name_len + 1u;
        if (h->has_comment)
                n += h->comment_len + 1u;
        if (h->has_hcrc)
                n += 2u;
        return n;
}

/* writes spec_gz_hdr_size(h) bytes to out; returns that size */
static inline uint32_t
spec_gz_hdr_build(uint8_t *out, const struct spec_gz_hdr *h, spec_crc32_fn crc32)
{
        uint32_t p = 0, i;
        out[p++] = 0x1f;
        out[p++] = 0x8b;
        out[p++] = 8;
        out[p++] = (uint8_t) ((h->ftext ? SPEC_GZ_FTEXT : 0) | (h->has_hcrc ? SPEC_GZ_FHCRC : 0) |
                              (h->has_extra ? SPEC_GZ_FEXTRA : 0) | (h->has_name ? SPEC_GZ_FNAME : 0) |
                              (h->has_comment ? SPEC_GZ_FCOMMENT : 0));
        out[p++] = (uint8_t) (h->mtime & 0xff);
        out[p++] = (uint8_t) ((h->mtime >> 8) & 0xff);
        out[p++] = (uint8_t) ((h->mtime >> 16) & 0xff);
        out[p++] = (uint8_t) ((h->mtime >> 24) & 0xff);
        out[p++] = h->xfl;
        out[p++] = h->os;
        if (h->has_extra) {
                out[p++] = (uint8_t) (h->xlen & 0xff);
                out[p++] = (uint8_t) (h->xlen >> 8);
                for (i = 0; i < h->xlen; i++)
                        out[p++] = h->extra[i];
        }
        if (h->has_name) {
                for (i = 0; i < h->name_len; i++)
                        out[p++] = h->name[i];
                out[p++] = 0;
        }
        if (h->has_comment) {
                for (i = 0; i < h->comment_len; i++)
                        out[p++] = h->comment[i];
                out[p++] = 0;
        }
        if (h->has_hcrc) {
                uint32_t c = crc32(0, out, p);
                out[p++] = (uint8_t) (c & 0xff);
                out[p++] = (uint8_t) ((c >> 8) & 0xff);
        }
        return p;
}

/* Independent parser of a gzip member header in in[0..n).  Verdicts: */
#define SPEC_GZ_OK        0 /* complete and well formed, *hdr_len = its length */
#define SPEC_GZ_SHORT     1 /* a prefix of a possibly valid header: more input needed */
#define SPEC_GZ_BAD_ID    2 /* ID1/ID2 wrong */
#define SPEC_GZ_BAD_CM    3 /* CM != 8 */
#define SPEC_GZ_BAD_HCRC  4 /* FHCRC present and CRC16 differs */
#define SPEC_GZ_OK_PRE    5 /* only when called with crc32 == NULL: complete, FHCRC present, both CRC16
                               bytes available but not judged; *hdr_len = offset of the CRC16 field */

struct spec_gz_parse {
        uint32_t hdr_len;
        uint8_t flg;
        uint32_t mtime;
        uint8_t xfl, os;
        uint32_t xlen, extra_off;          /* valid if FEXTRA and reached */
        uint32_t name_off, name_len;       /* valid if FNAME and reached */
        uint32_t comment_off, comment_len; /* valid if FCOMMENT and reached */
};

/* ID and CM are judged as soon as the 10 fixed bytes are available (a decoder cannot be asked to
 * judge them earlier or later than that by the RFC; ISA-L documents no other behaviour). */
static inline int
spec_gz_parse(const uint8_t *in, uint32_t n, struct spec_gz_parse *r, spec_crc32_fn crc32)
{
        uint32_t p;
        if (n < 10)
                return SPEC_GZ_SHORT;
        if (in[0] != 0x1f || in[1] != 0x8b)
                return SPEC_GZ_BAD_ID;
        if (in[2] != 8)
                return SPEC_GZ_BAD_CM;
        r->flg = in[3];
        r->mtime = (uint32_t) in[4] | ((uint32_t) in[5] << 8) | ((uint32_t) in[6] << 16) | ((uint32_t) in[7] << 24);
        r->xfl = in[8];
        r->os = in[9];
        p = 10;
        if (r->flg & SPEC_GZ_FEXTRA) {
                if (n - p < 2)
                        return SPEC_GZ_SHORT;
                r->xlen = (uint32_t) in[p] | ((uint32_t) in[p + 1] << 8);
                p += 2;
                r->extra_off = p;
                if (n - p < r->xlen)
                        return SPEC_GZ_SHORT;
                p += r->xlen;
        }
        if (r->flg & SPEC_GZ_FNAME) {
                r->name_off = p;
                while (p < n && in[p] != 0)
                        p++;
                if (p >= n)
                        return SPEC_GZ_SHORT;
                r->name_len = p - r->name_off;
                p++;
        }
        if (r->flg & SPEC_GZ_FCOMMENT) {
                r->comment_off = p;
                while (p < n && in[p] != 0)
                        p++;
                if (p >= n)
                        return SPEC_GZ_SHORT;
                r->comment_len = p - r->comment_off;
                p++;
        }
        if (r->flg & SPEC_GZ_FHCRC) {
                uint32_t c;
                if (n - p < 2)
                        return SPEC_GZ_SHORT;
                if (!crc32) {
                        r->hdr_len = p;
                        return SPEC_GZ_OK_PRE;
                }
                c = crc32(0, in, p);
                if (in[p] != (uint8_t) (c & 0xff) || in[p + 1] != (uint8_t) ((c >> 8) & 0xff)) {
                        r->hdr_len = p + 2;
                        return SPEC_GZ_BAD_HCRC;
                }
                p += 2;
        }
        r->hdr_len = p;
        return SPEC_GZ_OK;
}

/* gzip trailer: CRC32 then ISIZE, both least significant byte first */
static inline void
spec_gz_trailer_build(uint8_t out[8], uint32_t crc, uint32_t isize)
{
        int i;
        for (i = 0; i < 4; i++) {
                out[i] = (uint8_t) ((crc >> (8 * i)) & 0xff);
                out[4 + i] = (uint8_t) ((isize >> (8 * i)) & 0xff);
        }
}

/* ---------------------------------------------------------------- RFC 1950 */

struct spec_zlib_hdr {
        uint8_t cinfo;  /* 0..15 (RFC: <= 7 for CM=8) */
        uint8_t flevel; /* 0..3 */
        int fdict;
        uint32_t dictid;
};

static inline uint32_t
spec_zlib_hdr_size(const struct spec_zlib_hdr *h)
{
        return h->fdict ? 6u : 2u;
}

/* The header is fully determined by (cinfo, flevel, fdict, dictid) except for FCHECK, which the
 * RFC determines up to the one ambiguity 0 vs 31 when the other bits are already a multiple of 31;
 * spec_zlib_hdr_ok() is therefore a predicate, spec_zlib_hdr_build() picks the smallest FCHECK. */
static inline int
spec_zlib_cmf_flg_ok(const uint8_t *b, const struct spec_zlib_hdr *h)
{
        uint8_t cmf = b[0], flg = b[1];
        if ((cmf & 0x0f) != 8)
                return 0;
        if ((cmf >> 4) != h->cinfo)
                return 0;
        if ((flg >> 6) != h->flevel)
                return 0;
        if (((flg >> 5) & 1) != (h->fdict ? 1 : 0))
                return 0;
        if ((((uint32_t) cmf << 8) + flg) % 31u != 0)
                return 0;
        return 1;
}

static inline void
spec_be32_build(uint8_t out[4], uint32_t v)
{
        out[0] = (uint8_t) ((v >> 24) & 0xff); /* most significant byte first */
        out[1] = (uint8_t) ((v >> 16) & 0xff);
        out[2] = (uint8_t) ((v >> 8) & 0xff);
        out[3] = (uint8_t) (v & 0xff);
}

static inline int
spec_zlib_dictid_ok(const uint8_t *b, const struct spec_zlib_hdr *h)
{
        uint8_t d[4];
        spec_be32_build(d, h->dictid);
        return b[2] == d[0] && b[3] == d[1] && b[4] == d[2] && b[5] == d[3];
}

static inline uint32_t
spec_zlib_hdr_build(uint8_t *out, const struct spec_zlib_hdr *h)
{
        uint32_t cmf = 8u | ((uint32_t) (h->cinfo & 15) << 4);
        uint32_t flg = ((uint32_t) (h->flevel & 3) << 6) | (h->fdict ? 32u : 0u);
        uint32_t rem = (cmf * 256u + flg) % 31u;
        if (rem)
                flg += 31u - rem;
        out[0] = (uint8_t) cmf;
        out[1] = (uint8_t) flg;
        if (h->fdict) {
                spec_be32_build(out + 2, h->dictid);
                return 6;
        }
        return 2;
}

#define SPEC_ZLIB_OK         0
#define SPEC_ZLIB_SHORT      1
#define SPEC_ZLIB_BAD_CM     2
#define SPEC_ZLIB_BAD_FCHECK 3

struct spec_zlib_parse {
        uint32_t hdr_len;
        uint8_t cinfo, flevel, fdict;
        uint32_t dictid;
};

static inline int
spec_zlib_parse(const uint8_t *in, uint32_t n, struct spec_zlib_parse *r)
{
        if (n < 2)
                return SPEC_ZLIB_SHORT;
        r->cinfo = in[0] >> 4;
        r->flevel = in[1] >> 6;
        r->fdict = (in[1] >> 5) & 1;
        if ((in[0] & 0x0f) != 8)
                return SPEC_ZLIB_BAD_CM;
        if ((((uint32_t) in[0] << 8) + in[1]) % 31u != 0)
                return SPEC_ZLIB_BAD_FCHECK;
        if (r->fdict) {
                if (n < 6)
                        return SPEC_ZLIB_SHORT;
                r->dictid = ((uint32_t) in[2] << 24) | ((uint32_t) in[3] << 16) | ((uint32_t) in[4] << 8) | in[5];
                r->hdr_len = 6;
        } else
                r->hdr_len = 2;
        return SPEC_ZLIB_OK;
}

/* Adler-32 value from its two 16-bit halves (RFC 1950 section 2.2/8.2): s2*65536 + s1 */
static inline uint32_t
spec_adler_value(uint32_t s1, uint32_t s2)
{
        return (s2 << 16) | s1;
}

#endif
