/* native self-test of spec/rfc1951.h: reads hex-encoded (stream, expected) pairs on stdin */
#include <stdio.h>
#include <stdlib.h>
#include <string.h>
#include "rfc1951.h"
static uint8_t in[1 << 20], exp_[1 << 22], out[1 << 22];
static size_t rdhex(char *s, uint8_t *b) { size_t n = 0; while (s[0] && s[1] && s[0] != '\n') { unsigned v; sscanf(s, "%2x", &v); b[n++] = v; s += 2; } return n; }
int main(void) {
        static char line[1 << 23]; int n = 0, bad = 0;
        while (fgets(line, sizeof line, stdin)) {
                char *sp = strchr(line, ' '); *sp = 0;
                size_t il = rdhex(line, in), el = rdhex(sp + 1, exp_);
                struct rfc_res r; rfc1951_inflate(in, il, 0, out, sizeof out, 0, 0, &r);
                n++;
                if (r.status != RFC_OK || r.out_len != el || memcmp(out, exp_, el) || (r.bit_pos + 7) / 8 != il) { bad++; printf("FAIL case %d st=%d out=%zu exp=%zu pos=%zu il=%zu\n", n, r.status, r.out_len, el, r.bit_pos, il); }
        }
        printf("%d cases %d bad\n", n, bad); return bad != 0;
}
