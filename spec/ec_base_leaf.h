/* erasure_code/ec_base.c with its two scalar LEAF operations abstracted to the specification.
 *
 * Include this header from a harness INSTEAD of linking erasure_code/ec_base.c (units=[]).
 *
 * Why: every function of ec_base.c above gf_mul/gf_inv (matrix inversion, generators, dot product,
 * encode, update, vect_mul) calls the table-driven gf_mul (3 look-ups in 256-entry log/antilog
 * tables).  Comparing XOR-sums / Gauss-Jordan chains of such products against the polynomial
 * specification is an XOR miter that no SAT back end closes (measured: dot product len 2, k 2:
 * >300 s; 2x2 inversion over all of GF(2^8): >900 s), whereas
 *      forall a,b: gf_mul(a,b) == spec_gf_mul(a,b)      and
 *      forall a!=0: a*gf_inv(a) == 1, gf_inv(0) == 0
 * are decided exhaustively by property C12 (queries H_MUL/*, H_INV/*, both table configurations).
 * Using those two lemmas, the solver build of ec_base.c computes the leaves with spec_gf_mul /
 * spec_gf_inv (the inverse is unique, so the second lemma determines gf_inv completely).  This is
 * an assume-guarantee decomposition: "C12 holds" is an assumption of every check that includes
 * this header, and must be listed in its plan.
 *
 * How: ec_base.c is the repository's own text, compiled in its documented -DGF_LARGE_TABLES
 * configuration in which   gf_mul(a,b) { return gf_mul_table_base[b * 256 + a]; }
 *                          gf_inv(a)   { return gf_inv_table_base[a]; }
 * and the two table names are macros that turn those look-ups into calls of the specification.
 * (ec_base.h is skipped through its include guard; nothing else in ec_base.c uses it.)  If upstream
 * renames the parameters or changes those two bodies the build fails -- it cannot silently pass.
 *
 * Native replay (-DREPLAY): the real, unmodified ec_base.c with its real tables is compiled, so a
 * counterexample is always re-evaluated against the real library code.
 */
#ifndef SPEC_EC_BASE_LEAF_H
#define SPEC_EC_BASE_LEAF_H
#include "gf256.h"

#ifdef REPLAY
#include "ec_base.c"
#else
/* a^254 = a^-1 for a != 0, and 0 for a == 0: product of a^2, a^4, ..., a^128 */
#ifdef LEAF_INV_BY_CONSTRAINT
/* the unique v with a*v == 1 (exists for every a != 0: C12 H_INV exhibits it) */
uint8_t nondet_leaf_u8(void);
static inline uint8_t
spec_gf_inv(uint8_t a)
{
        if (!a)
                return 0;
        uint8_t v = nondet_leaf_u8();
        __CPROVER_assume(spec_gf_mul(a, v) == 1);
        return v;
}
#else
static inline uint8_t
spec_gf_inv(uint8_t a)
{
        uint8_t sq = a, r = 1;
        for (int i = 0; i < 7; i++) {
                sq = spec_gf_mul(sq, sq);
                r = spec_gf_mul(r, sq);
        }
        return a ? r : 0;
}
#endif
#define _EC_BASE_H_
#ifndef GF_LARGE_TABLES
#define GF_LARGE_TABLES
#endif
static const unsigned char verif_leaf_dummy_tbl[1] = { 0 };
#define gf_mul_table_base spec_gf_mul(a, b); (void) verif_leaf_dummy_tbl
#define gf_inv_table_base spec_gf_inv(a); (void) verif_leaf_dummy_tbl
#include "ec_base.c"
#undef gf_mul_table_base
#undef gf_inv_table_base
#endif
#endif
