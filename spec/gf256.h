/* Independent GF(2^8) specification: carry-less polynomial product reduced by
 * x^8+x^4+x^3+x^2+1 (0x11D). Uses no table of the library. */
#ifndef SPEC_GF256_H
#define SPEC_GF256_H
#include <stdint.h>
static inline uint8_t
spec_gf_mul(uint8_t a, uint8_t b)
{
        uint16_t p = 0, aa = a;
        for (int i = 0; i < 8; i++) {
                if (b & (1u << i))
                        p ^= (uint16_t) (aa << i);
        }
        for (int i = 14; i >= 8; i--) {
                if (p & (1u << i))
                        p ^= (uint16_t) (0x11Du << (i - 8));
        }
        return (uint8_t) p;
}
/* GF2P8AFFINEQB semantics (Intel SDM): per byte, bit i of the result is
 * parity(matrix.byte[7-i] & x) ^ imm8.bit[i]; imm8 = 0 here. */
static inline uint8_t
spec_gf2p8affine_byte(uint64_t matrix, uint8_t x)
{
        uint8_t r = 0;
        for (int i = 0; i < 8; i++) {
                uint8_t row = (uint8_t) (matrix >> (8 * (7 - i)));
                uint8_t t = row & x;
                t ^= t >> 4;
                t ^= t >> 2;
                t ^= t >> 1;
                r |= (uint8_t) ((t & 1) << i);
        }
        return r;
}
#endif
