"""Engine A: CBMC over the real C translation units of /repo.

Generic runner `cbmc_query(qid, params, ctx)`; params keys:
  harness      path of the harness .c relative to /verif
  units        list of /repo-relative C files linked in (compiled with the build's -I/-D)
  defines      list of "NAME" / "NAME=VAL" applied to harness AND units
  hdefines     defines applied to the harness only
  remove       function bodies removed with goto-instrument (=> nondet return, no side effects)
  unwindset    list "loop.id:N"; unwind: blanket bound (optional)
  flags        extra cbmc flags
  entry        entry function (default "harness")
  witness      bool: also run the -DWITNESS twin; its final assert must FAIL (reachability)
  replay       bool (default True): on failure, replay the inputs natively (gcc + ASan/UBSan)
  finding_key  optional python expression evaluated over the counterexample inputs `I` to give a key
  object_bits  default 12
  hunt_unwind  optional: first run cbmc with this blanket bound and WITHOUT unwinding assertions (bug hunting only); a
               reproduced failure is reported, otherwise the full bounded run decides (hunt_only: no full run, the query
               is then UNDECIDED -- for regions where the full run is known not to finish)
  instrument   list of [repo-relative source, output file name, anchor regex, text(, "replace")]: a copy of the CURRENT /repo
               source with `text` inserted on a line of its own before the one line matching the anchor (or, with
               "replace", substituted for the matched text) is generated into
               (an entry ["@gen", "module:function", output name, args] writes the C text returned by function(ctx, args))
               a scratch include directory (first on the include path) for the harness to #include, for the CBMC
               build and the native replay alike (check-time source instrumentation instead of a hook in /repo)
"""
import fcntl
import hashlib
import json
import os
import re
import resource
import subprocess
import time

from .core import HOLDS, VIOLATED, UNDECIDED, ERROR, VERIF

INC_DIRS = ["include", "igzip", "erasure_code", "crc", "raid", "mem"]
BUILD_DEFS = ["AS_FEATURE_LEVEL=10", "HAVE_AS_KNOWS_AVX512=1", "x86_64", "_GNU_SOURCE=1"]

BASE_FLAGS = ["--unwinding-assertions", "--drop-unused-functions", "--no-malloc-may-fail",
              "--signed-overflow-check", "--undefined-shift-check"]


def _limits(mem_gb):
    def f():
        b = int(mem_gb * (1 << 30))
        resource.setrlimit(resource.RLIMIT_AS, (b, b))
        try:   # deep recursion in cbmc's expression simplifier on large concrete copies
            resource.setrlimit(resource.RLIMIT_STACK, (resource.RLIM_INFINITY, resource.RLIM_INFINITY))
        except Exception:
            pass
        os.setsid()
    return f


def run(cmd, timeout, mem_gb, cwd=None, env=None):
    t0 = time.time()
    try:
        p = subprocess.Popen(cmd, stdout=subprocess.PIPE, stderr=subprocess.PIPE, cwd=cwd, env=env,
                             preexec_fn=_limits(mem_gb))
        try:
            out, err = p.communicate(timeout=timeout)
        except subprocess.TimeoutExpired:
            try:
                os.killpg(p.pid, 9)
            except Exception:
                p.kill()
            out, err = p.communicate()
            return -999, out.decode("utf8", "replace"), err.decode("utf8", "replace"), time.time() - t0
        return p.returncode, out.decode("utf8", "replace"), err.decode("utf8", "replace"), time.time() - t0
    except Exception as e:
        return -998, "", repr(e), time.time() - t0


def inc_flags(repo):
    return ["-I%s/%s" % (repo, d) for d in INC_DIRS] + ["-I%s/spec" % VERIF, "-I%s" % VERIF]


def _locked_build(out, cmd, timeout=300):
    """Build `out` with cmd once per run (file-lock protected cache in scratch)."""
    lock = out + ".lock"
    with open(lock, "w") as lf:
        fcntl.flock(lf, fcntl.LOCK_EX)
        if os.path.exists(out):
            return True, ""
        rc, o, e, _ = run(cmd, timeout, 8)
        if rc != 0 or not os.path.exists(out):
            return False, "build failed: %s\n%s\n%s" % (" ".join(cmd), o[-2000:], e[-2000:])
    return True, ""


def instrument_dir(ctx, params):
    """-> (include dir or None, error message)."""
    spec = params.get("instrument")
    if not spec:
        return None, ""
    key = hashlib.sha1(json.dumps(spec).encode()).hexdigest()[:16]
    d = os.path.join(ctx["scratch"], "instr_" + key)
    with open(os.path.join(ctx["scratch"], "instr_%s.lock" % key), "w") as lf:
        fcntl.flock(lf, fcntl.LOCK_EX)
        if os.path.exists(os.path.join(d, ".done")):
            return d, ""
        os.makedirs(d, exist_ok=True)
        files = {}
        for ent in spec:
            if ent[0] == "@gen":       # ["@gen", "module:function", output name, args]: C text generated from the current /repo
                import importlib       # (e.g. an assembly kernel lifted to C by vlib/x86lift.py)
                mod, fn = ent[1].split(":")
                try:
                    text = getattr(importlib.import_module(mod), fn)(ctx, ent[3])
                except Exception as e:
                    return None, "generator %s failed: %r" % (ent[1], e)
                with open(os.path.join(d, ent[2]), "w") as fh:
                    fh.write(text)
                continue
            src, outname, anchor, text = ent[:4]
            mode = ent[4] if len(ent) > 4 else "insert"
            if outname not in files:
                files[outname] = open(os.path.join(ctx["repo"], src)).read().split("\n")
            lines = files[outname]
            idx = [i for i, l in enumerate(lines) if re.search(anchor, l)]
            if len(idx) != 1:
                return None, "instrumentation anchor /%s/ matches %d lines of %s (expected 1)" % (anchor, len(idx), src)
            if mode == "replace":      # the matched text of that line is replaced
                lines[idx[0]] = re.sub(anchor, lambda m: text, lines[idx[0]], count=1)
            else:                      # a new line before the matching line
                lines.insert(idx[0], text)
        for outname, lines in files.items():
            with open(os.path.join(d, outname), "w") as fh:
                fh.write("\n".join(lines))
        open(os.path.join(d, ".done"), "w").close()
    return d, ""


def gb_for(ctx, src, defines, tag="", extra_inc=None):
    """goto-cc one translation unit (src absolute)."""
    key = hashlib.sha1((src + "|" + "|".join(defines) + tag + (extra_inc or "")).encode()).hexdigest()[:16]
    out = os.path.join(ctx["scratch"], "gb_%s_%s.gb" % (os.path.basename(src).replace(".", "_"), key))
    cmd = ["goto-cc", "-c", src, "-o", out] + (["-I" + extra_inc] if extra_inc else []) + inc_flags(ctx["repo"]) + \
          ["-D" + d for d in BUILD_DEFS + list(defines)]
    ok, msg = _locked_build(out, cmd)
    return (out if ok else None), msg


def parse_cbmc_json(text):
    try:
        data = json.loads(text)
    except Exception:
        # try to salvage: cbmc may be killed mid-output
        return None
    return data


def _val_to_c(v):
    """CBMC json trace value -> C initializer text."""
    n = v.get("name")
    if n == "struct":
        parts = []
        for m in v.get("members", []):
            if m["name"].startswith("$pad") or m["name"].startswith("__pad"):
                continue
            parts.append(".%s = %s" % (m["name"], _val_to_c(m["value"])))
        return "{ " + ", ".join(parts) + " }"
    if n == "array":
        return "{ " + ", ".join(_val_to_c(e["value"]) for e in v.get("elements", [])) + " }"
    if n == "union":
        m = v.get("member") or (v.get("members") or [None])[0]
        if m:
            return "{ .%s = %s }" % (m["name"], _val_to_c(m["value"]))
        return "{0}"
    if n in ("integer", "unknown"):
        d = v.get("data", "0")
        t = v.get("type", "")
        if isinstance(d, str) and d.endswith("u"):
            d = d[:-1]
        try:
            iv = int(str(d).rstrip("ulUL"), 0)
        except Exception:
            return "0 /*%s*/" % d
        if "unsigned" in t or iv >= 0:
            return "%dULL" % iv if iv > 0x7fffffff else str(iv)
        return "(%dLL)" % iv
    if n == "boolean":
        return "1" if v.get("data") else "0"
    if n == "pointer":
        return "0 /*ptr*/"
    if n == "float":
        return str(v.get("data", 0))
    return "0"


def _val_to_py(v):
    n = v.get("name")
    if n == "struct":
        return {m["name"]: _val_to_py(m["value"]) for m in v.get("members", []) if not m["name"].startswith("$pad")}
    if n == "array":
        return [_val_to_py(e["value"]) for e in v.get("elements", [])]
    if n == "integer":
        d = str(v.get("data", "0")).rstrip("ulUL")
        try:
            return int(d, 0)
        except Exception:
            return d
    if n == "boolean":
        return bool(v.get("data"))
    return v.get("data")


def extract_inputs(trace):
    """Last full assignment to the harness input object `I`."""
    last = None
    for st in trace:
        if st.get("stepType") == "assignment" and st.get("lhs") == "I" and "value" in st:
            last = st["value"]
    return last


UB_NOTE_PAT = re.compile(r"pointer relation|pointer arithmetic|pointer_arithmetic|pointer outside object bounds in|same object violation")


def classify(results, removed=()):
    """-> (violations, ub_notes, unwinding_failures) lists of (property, description)."""
    viol, notes, unw = [], [], []
    for r in results:
        if r.get("status") != "FAILURE":
            continue
        prop = r.get("property", "")
        desc = r.get("description", "")
        if ".no-body." in prop and prop.split(".no-body.")[-1] in removed:
            continue   # body deliberately removed by the plan (`remove`): CBMC 6 flags the call, not a violation
        if "unwinding assertion" in desc or ".unwind." in prop:
            unw.append((prop, desc))
        elif ".pointer_arithmetic." in prop or (UB_NOTE_PAT.search(desc) and "dereference" not in desc):
            notes.append((prop, desc))
        else:
            viol.append((prop, desc, r.get("trace")))
    return viol, notes, unw


def replay_native(ctx, params, cinit, workdir, tag):
    """Compile harness + units natively, inputs fixed to the counterexample; True if the
    harness' assertion (or a sanitizer) fires, False if the run passes, None if unusable."""
    hp = os.path.join(VERIF, params["harness"])
    inp = os.path.join(workdir, "replay_inputs_%s.h" % tag)
    with open(inp, "w") as fh:
        fh.write("#define REPLAY_INIT %s\n" % cinit)
    exe = os.path.join(workdir, "replay_%s" % tag)
    defs = ["-D" + d for d in BUILD_DEFS + list(params.get("defines", [])) + list(params.get("hdefines", []))]
    units = [os.path.join(ctx["repo"], u) for u in params.get("units", [])] + \
            [os.path.join(VERIF, u) for u in params.get("vunits", [])]
    idir, imsg = instrument_dir(ctx, params)
    if params.get("instrument") and not idir:
        return None, imsg
    cmd = ["gcc", "-O0", "-g", "-w", "-fsanitize=address,undefined", "-fno-sanitize-recover=undefined",
           "-DREPLAY", "-DREPLAY_INPUTS=\"%s\"" % inp, hp] + units + (["-I" + idir] if idir else []) + inc_flags(ctx["repo"]) + defs + ["-o", exe]
    rc, o, e, _ = run(cmd, 300, 16)
    if rc != 0:
        return None, "replay build failed: " + e[-1500:]
    env = dict(os.environ, ASAN_OPTIONS="detect_leaks=0:abort_on_error=0", UBSAN_OPTIONS="print_stacktrace=1")
    # no RLIMIT_AS here: ASan must reserve terabytes of shadow address space
    try:
        p = subprocess.run([exe], stdout=subprocess.PIPE, stderr=subprocess.PIPE, env=env, timeout=120)
        rc, o, e = p.returncode, p.stdout.decode("utf8", "replace"), p.stderr.decode("utf8", "replace")
    except subprocess.TimeoutExpired:
        return None, "replay timed out"
    log = (o + e)[-3000:]
    if "ReserveShadowMemoryRange" in log or "failed to allocate" in log:
        return None, "replay unusable (sanitizer could not start): " + log[-400:]
    if rc == 3 and "ASSUME-FAIL" in o:
        return None, "replay: assumption not satisfied natively (stubbed nondeterminism involved)\n" + log
    if rc == 0 and "REPLAY-PASS" in o:
        return False, log
    if "ASSERT-FAIL" in o or "ERROR: AddressSanitizer" in e or "runtime error:" in e:
        return True, log
    return None, "replay ended rc=%s without a recognisable verdict: %s" % (rc, log[-600:])


def cbmc_query(qid, params, ctx):
    t0 = time.time()
    scratch = ctx["scratch"]
    wd = os.path.join(scratch, "q_" + hashlib.sha1(qid.encode()).hexdigest()[:12])
    os.makedirs(wd, exist_ok=True)
    defines = list(params.get("defines", []))
    hdef = list(params.get("hdefines", []))
    timeout = params.get("timeout") or ctx["timeout"]
    mem = params.get("mem_gb") or ctx["mem_gb"]

    def build(extra_hdef, tag):
        gbs = []
        for u in params.get("units", []):
            g, msg = gb_for(ctx, os.path.join(ctx["repo"], u), defines)
            if not g:
                return None, msg
            gbs.append(g)
        for u in params.get("vunits", []):
            g, msg = gb_for(ctx, os.path.join(VERIF, u), defines)
            if not g:
                return None, msg
            gbs.append(g)
        idir, imsg = instrument_dir(ctx, params)
        if params.get("instrument") and not idir:
            return None, imsg
        g, msg = gb_for(ctx, os.path.join(VERIF, params["harness"]), defines + hdef + extra_hdef, tag, extra_inc=idir)
        if not g:
            return None, msg
        gbs.append(g)
        rem = params.get("remove", [])
        repl = params.get("replace_calls", [])
        if rem or repl:
            key = hashlib.sha1(("|".join(gbs) + "|".join(rem) + "|" + "|".join(repl)).encode()).hexdigest()[:16]
            linked = os.path.join(scratch, "lk_%s.gb" % key)
            ok, msg = _locked_build(linked, ["goto-cc", "-o", linked] + gbs)
            if not ok:
                return None, msg
            out = os.path.join(scratch, "rm_%s.gb" % key)
            cmd = ["goto-instrument"]
            for f in rem:
                cmd += ["--remove-function-body", f]
            for fg in repl:
                cmd += ["--replace-calls", fg]
            ok, msg = _locked_build(out, cmd + [linked, out])
            if not ok:
                return None, msg
            gbs = [out]
        return gbs, ""

    def run_cbmc(gbs, trace, hunt=None):
        cmd = ["cbmc"] + gbs + ["--function", params.get("entry", "harness"), "--json-ui", "--verbosity", "8",
                                "--object-bits", str(params.get("object_bits", 12))]
        if hunt is None:
            cmd += BASE_FLAGS
            if params.get("unwind") is not None:
                cmd += ["--unwind", str(params["unwind"])]
            if params.get("unwindset"):
                cmd += ["--unwindset", ",".join(params["unwindset"])]
        else:       # shallow pre-pass (`hunt_unwind`): no unwinding assertions => can only FIND violations, never prove
            cmd += [f for f in BASE_FLAGS if f != "--unwinding-assertions"] + ["--no-unwinding-assertions", "--unwind", str(hunt)]
            if params.get("unwindset"):     # helper loops (byte loops of the memory model, ...) keep their own bounds
                cmd += ["--unwindset", ",".join(params["unwindset"])]
        cmd += params.get("flags", [])
        if trace:
            cmd += ["--trace"]
        rc, out, err, dt = run(cmd, min(timeout, 300) if hunt is not None else timeout, mem)
        return rc, out, err, dt, cmd

    gbs, msg = build([], "")
    if gbs is None:
        return {"status": ERROR, "detail": msg}
    hunted = None
    if params.get("hunt_unwind") is not None:
        # Stage 1, bug hunting only: loops cut after `hunt_unwind` iterations WITHOUT unwinding assertions.  A failure found
        # here is a real path prefix (the counterexample is replayed natively like any other); no failure proves nothing and
        # the full bounded run below decides.  Used where a defect makes the full run explode before it can answer.
        rc, out, err, dt0, cmd = run_cbmc(gbs, True, hunt=params["hunt_unwind"])
        d0 = parse_cbmc_json(out) if rc != -999 else None
        r0 = None
        for item in d0 or []:
            if "result" in item:
                r0 = item["result"]
        if r0 is not None:
            v0, _, _ = classify(r0, params.get("remove", []))
            if v0:
                hunted = (rc, out, err, dt0, cmd)
    if hunted is not None:
        rc, out, err, dt, cmd = hunted
    elif params.get("hunt_only"):
        # the full bounded run is known not to finish for this query (stated in the plan): the pre-pass found nothing, which
        # proves nothing -- reported as UNDECIDED, never as a pass
        return {"status": UNDECIDED, "solver_time_s": dt0, "stats": {}, "cmd": " ".join(cmd),
                "detail": ("bug-hunting pass only (--unwind %s, no unwinding assertions) " % params["hunt_unwind"]) +
                          ("timed out" if rc == -999 else "found no violation") + "; not a proof"}
    else:
        rc, out, err, dt, cmd = run_cbmc(gbs, True)
    res = {"solver_time_s": dt, "stats": {}, "cmd": " ".join(cmd)}
    if hunted is not None:
        res["found_by"] = "shallow pre-pass (--unwind %s, no unwinding assertions)" % params["hunt_unwind"]
    if rc == -999:
        res.update(status=UNDECIDED, detail="timeout %ss" % timeout)
        return res
    data = parse_cbmc_json(out)
    if data is None:
        oom = "std::bad_alloc" in (out + err) or "Out of memory" in (out + err) or rc in (-9, -6, 134, 137)
        res.update(status=UNDECIDED if oom else ERROR, detail=("out of memory (cap %s GB)" % mem) if oom else
                   "cbmc rc=%s unparsable output: %s %s" % (rc, out[-600:], err[-600:]))
        return res
    results, nvars, ncl, errors = None, 0, 0, []
    for item in data:
        if "result" in item:
            results = item["result"]
        mt = item.get("messageText", "")
        m = re.search(r"(\d+) variables, (\d+) clauses", mt)
        if m:
            nvars += int(m.group(1))
            ncl += int(m.group(2))
        if item.get("messageType") == "ERROR":
            errors.append(mt)
    res["stats"] = {"variables": nvars, "clauses": ncl}
    if results is None:
        txt = " ".join(errors) + out[-400:]
        oom = "bad_alloc" in txt or "memory" in txt.lower()
        res.update(status=UNDECIDED if oom else ERROR, detail="cbmc gave no result (rc=%s): %s" % (rc, txt[-800:]))
        return res
    res["stats"]["properties_checked"] = len(results)
    viol, notes, unw = classify(results, params.get("remove", []))
    res["std_ub_notes"] = sorted({"%s: %s" % (p.split(".")[0], d[:100]) for p, d in notes})
    if unw and not viol:
        res.update(status=ERROR, detail="unwinding assertion failed (bound too small): %s" % unw[:3])
        return res
    if unw:
        res["unwinding_note"] = "an unwinding assertion also failed (%s); the reported assertion failure is a real path within the bound" % (unw[0],)
    if viol:
        prop, desc, trace = viol[0]
        res["status"] = VIOLATED
        res["detail"] = "%d failed: " % len(viol) + "; ".join("%s [%s]" % (d, p) for p, d, _ in viol[:4])
        iv = None
        for p, d, tr in viol:
            if tr:
                iv = extract_inputs(tr)
                if iv is not None:
                    break
        if iv is not None:
            pyv = _val_to_py(iv)
            res["cex"] = pyv
            if params.get("finding_key"):
                try:
                    res["finding_key"] = eval(params["finding_key"], {"I": pyv, "params": params})
                except Exception as e:
                    res["finding_key_error"] = repr(e)
            if params.get("replay", True):
                ok, log = replay_native(ctx, params, _val_to_c(iv), wd, "cex")
                res["replay_ok"] = ok
                res["replay_log"] = log
                if ok:
                    res["validated_traces"] = 1
        else:
            res["cex"] = None
            res["replay_ok"] = None
        return res
    res["status"] = HOLDS
    # reachability witness twin
    if params.get("witness"):
        gbs2, msg = build(["WITNESS"], "w")
        if gbs2 is None:
            res.update(status=ERROR, detail="witness build: " + msg)
            return res
        rc, out, err, dt2, _ = run_cbmc(gbs2, False)
        res["solver_time_s"] += dt2
        d2 = parse_cbmc_json(out) if rc != -999 else None
        wok = False
        if d2:
            for item in d2:
                for r in item.get("result", []) if "result" in item else []:
                    if "WITNESS" in r.get("description", "") and r.get("status") == "FAILURE":
                        wok = True
        res["witness_ok"] = wok
        if not wok:
            res.update(status=ERROR, detail="vacuity: witness twin did not reach the end of the harness (rc=%s)" % rc)
    res["time_s"] = time.time() - t0
    return res
