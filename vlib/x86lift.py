"""Engine C: lift one assembled x86-64 function of /repo to C (one C statement block per machine instruction) so that CBMC
decides properties of the ASSEMBLY kernel with data-dependent control flow and table lookups at symbolic indices --
what engine B's straight-line interpreter cannot follow.  The C text is regenerated from the current /repo source on
every run: nasm -> ld (fixed addresses) -> objdump (vlib/x86sym/loader.py) -> this translator.

Generated interface (all memory traffic goes through the harness, which owns the address-space model):
    uint64_t LIFT_RD(uint64_t addr, int nbytes);            little endian, nbytes in 1,2,4,8
    void     LIFT_WR(uint64_t addr, int nbytes, uint64_t v);
    uint64_t lift_<name>(uint64_t rdi, uint64_t rsi, uint64_t rdx, uint64_t rcx, uint64_t rsp);
Bytes of the image's own data sections (constants, tables of the .asm files linked in) are available as
    int lift_img_byte(uint64_t addr, uint8_t *out)          (1 if addr lies in an image data section)

Semantics implemented: the integer subset listed in HANDLERS with ZF/SF/CF/OF (PF/AF are not modelled: a jp/jnp or
adc-after-AF would be reported as unsupported), xmm registers as two 64-bit halves for (v)movdqu/(v)movdqa copies,
rep movsb/stosb as byte loops.  An instruction outside the subset aborts the translation (query ERROR), never a guess.
The translator itself is validated per query by running the lifted C natively against the real assembled function on
the harness' replay inputs (see the harness' differential self-check)."""
import re

from .x86sym import loader

R64 = ["rax", "rcx", "rdx", "rbx", "rsp", "rbp", "rsi", "rdi", "r8", "r9", "r10", "r11", "r12", "r13", "r14", "r15"]
REGS = {}
for i, r in enumerate(R64):
    REGS[r] = (r, 8, 0)
for r64, r32, r16, r8 in [("rax", "eax", "ax", "al"), ("rcx", "ecx", "cx", "cl"), ("rdx", "edx", "dx", "dl"), ("rbx", "ebx", "bx", "bl"),
                          ("rsp", "esp", "sp", "spl"), ("rbp", "ebp", "bp", "bpl"), ("rsi", "esi", "si", "sil"), ("rdi", "edi", "di", "dil")]:
    REGS[r32] = (r64, 4, 0)
    REGS[r16] = (r64, 2, 0)
    REGS[r8] = (r64, 1, 0)
for r64, h in [("rax", "ah"), ("rcx", "ch"), ("rdx", "dh"), ("rbx", "bh")]:
    REGS[h] = (r64, 1, 8)
for n in range(8, 16):
    REGS["r%dd" % n] = ("r%d" % n, 4, 0)
    REGS["r%dw" % n] = ("r%d" % n, 2, 0)
    REGS["r%db" % n] = ("r%d" % n, 1, 0)
SIZES = {"BYTE": 1, "WORD": 2, "DWORD": 4, "QWORD": 8, "XMMWORD": 16, "YMMWORD": 32}


class Unsupported(Exception):
    pass


class Op:
    def __init__(self, kind, size=None, **kw):
        self.kind, self.size = kind, size
        self.__dict__.update(kw)


def parse_op(text, insn):
    t = text.strip()
    if t in REGS:
        r, sz, sh = REGS[t]
        return Op("reg", sz, reg=r, shift=sh)
    m = re.match(r"^(x|y)mm(\d+)$", t)
    if m:
        return Op("xmm", 16 if m.group(1) == "x" else 32, n=int(m.group(2)))
    if re.match(r"^-?(0x[0-9a-f]+|\d+)$", t):
        return Op("imm", None, val=int(t, 0))
    m = re.match(r"^(?:(\w+) PTR )?(?:[a-z]s:)?\[(.*)\]$", t)
    if m:
        size = SIZES.get(m.group(1)) if m.group(1) else None
        base = index = None
        scale, disp = 1, 0
        for sign, term in re.findall(r"([+-]?)([^+-]+)", m.group(2)):
            term = term.strip()
            if "*" in term:
                a, b = term.split("*")
                index, scale = a.strip(), int(b, 0)
            elif term in REGS or term == "rip":
                if base is None:
                    base = term
                elif index is None:
                    index = term
                else:
                    raise Unsupported("address form %s" % t)
            else:
                v = int(term, 0)
                disp += -v if sign == "-" else v
        return Op("mem", size, base=base, index=index, scale=scale, disp=disp, next=insn.addr + insn.size)
    raise Unsupported("operand %r in %s" % (text, insn.text))


def branch_target(ins):
    t = ins.ops[0].strip()
    if re.match(r"^[0-9a-f]+$", t):          # objdump prints direct branch targets as bare hex
        return Op("imm", None, val=int(t, 16))
    return parse_op(t, ins)


def M(w):
    return "0x%xULL" % ((1 << (8 * w)) - 1)


class Lifter:
    def __init__(self, img, name, cname=None):
        self.img, self.name = img, name
        self.cname = cname or ("lift_" + name)
        self.entry = img.symbols[name]
        self.out = []
        self.xmm_used = set()

    # ---- operand access
    def addr(self, o):
        parts = []
        if o.base == "rip":
            return "0x%xULL" % ((o.next + o.disp) & 0xffffffffffffffff)
        if o.base:
            parts.append(self.rreg(REGS[o.base]))
        if o.index:
            ix = self.rreg(REGS[o.index])
            parts.append("%s * %dULL" % (ix, o.scale) if o.scale != 1 else ix)
        if o.disp or not parts:
            parts.append("0x%xULL" % (o.disp & 0xffffffffffffffff))
        return "(" + " + ".join(parts) + ")"

    def rreg(self, r):
        reg, sz, sh = r
        if sz == 8:
            return "R_" + reg
        if sh:
            return "((R_%s >> 8) & 0xffULL)" % reg
        return "(R_%s & %s)" % (reg, M(sz))

    def read(self, o, size=None):
        if o.kind == "reg":
            return self.rreg((o.reg, o.size, o.shift))
        if o.kind == "imm":
            sz = size or 8
            return "0x%xULL" % (o.val & ((1 << (8 * sz)) - 1))
        if o.kind == "mem":
            sz = o.size or size
            if sz not in (1, 2, 4, 8):
                raise Unsupported("memory operand size %s" % sz)
            return "LIFT_RD(%s, %d)" % (self.addr(o), sz)
        raise Unsupported("read of %s" % o.kind)

    def write(self, o, val, size=None):
        if o.kind == "reg":
            if o.size == 8:
                return "R_%s = (%s);" % (o.reg, val)
            if o.size == 4:
                return "R_%s = (%s) & 0xffffffffULL;" % (o.reg, val)
            if o.shift:
                return "R_%s = (R_%s & ~0xff00ULL) | (((%s) & 0xffULL) << 8);" % (o.reg, o.reg, val)
            return "R_%s = (R_%s & ~%s) | ((%s) & %s);" % (o.reg, o.reg, M(o.size), val, M(o.size))
        if o.kind == "mem":
            sz = o.size or size
            if sz not in (1, 2, 4, 8):
                raise Unsupported("memory operand size %s" % sz)
            return "LIFT_WR(%s, %d, (%s));" % (self.addr(o), sz, val)
        raise Unsupported("write of %s" % o.kind)

    def opsize(self, ops):
        for o in ops:
            if o.kind in ("reg", "mem") and o.size:
                return o.size
        raise Unsupported("operand size unknown")

    # ---- conditions
    COND = {"e": "ZF", "z": "ZF", "ne": "!ZF", "nz": "!ZF", "l": "(SF != OF)", "nge": "(SF != OF)", "ge": "(SF == OF)", "nl": "(SF == OF)",
            "g": "(!ZF && SF == OF)", "nle": "(!ZF && SF == OF)", "le": "(ZF || SF != OF)", "ng": "(ZF || SF != OF)",
            "a": "(!CF && !ZF)", "nbe": "(!CF && !ZF)", "ae": "!CF", "nb": "!CF", "nc": "!CF", "b": "CF", "c": "CF", "nae": "CF",
            "be": "(CF || ZF)", "na": "(CF || ZF)", "s": "SF", "ns": "!SF", "o": "OF", "no": "!OF"}

    def flags_zs(self, w):
        return "ZF = (r == 0); SF = (r >> %d) & 1;" % (8 * w - 1)

    # ---- one instruction
    def lift_insn(self, ins):
        mn = ins.mnem
        if mn.startswith("v") and mn[1:] in ("movdqu", "movdqa", "movups", "movaps", "movdqu8", "movdqu64"):
            mn = mn[1:]
        if mn in ("jmp", "call") or (mn.startswith("j") and mn[1:] in self.COND):
            ops = [branch_target(ins)]
        else:
            ops = [parse_op(t, ins) for t in ins.ops]
        e = self.emit
        if ins.prefix in ("rep", "repz") and mn in ("movs", "stos"):
            w = self.opsize(ops)
            # the string loops live in helper functions so that their CBMC loop ids (lift_rep_movs.0 / lift_rep_stos.0) do not
            # depend on the position of the instruction in the kernel
            if mn == "movs":
                e("lift_rep_movs(&R_rdi, &R_rsi, &R_rcx, %d);" % w)
            else:
                e("lift_rep_stos(&R_rdi, R_rax & %s, &R_rcx, %d);" % (M(w), w))
            return
        if ins.prefix and ins.prefix not in ("notrack", "bnd", "ds", "cs"):
            raise Unsupported("prefix %s: %s" % (ins.prefix, ins.text))
        if mn in ("nop", "endbr64", "nopw", "nopl", "xchg") and (mn != "xchg" or ins.text.replace(" ", "") in ("xchgax,ax",)):
            e(";")
            return
        if mn in ("mov", "movabs"):
            w = self.opsize(ops)
            e(self.write(ops[0], self.read(ops[1], w), w))
            return
        if mn == "movzx":
            e(self.write(ops[0], self.read(ops[1])))
            return
        if mn in ("movsx", "movsxd"):
            sw = ops[1].size
            e("{ uint64_t s = %s; s = (s ^ %s) - %s; %s }" % (self.read(ops[1]), "0x%xULL" % (1 << (8 * sw - 1)), "0x%xULL" % (1 << (8 * sw - 1)),
                                                          self.write(ops[0], "s")))
            return
        if mn == "lea":
            e(self.write(ops[0], self.addr(ops[1])))
            return
        if mn in ("add", "sub", "cmp", "and", "or", "xor", "test", "adc", "sbb"):
            w = self.opsize(ops)
            a, b = self.read(ops[0], w), self.read(ops[1], w)
            if ops[1].kind == "imm":   # sign-extended imm8/imm32 arrives from objdump already widened to the operand size
                b = "0x%xULL" % (ops[1].val & ((1 << (8 * w)) - 1))
            msb = 8 * w - 1
            s = "{ uint64_t a = %s, b = %s, r; " % (a, b)
            if mn == "add":
                s += "r = (a + b) & %s; CF = r < a; OF = (((a ^ r) & (b ^ r)) >> %d) & 1; " % (M(w), msb)
            elif mn == "adc":
                s += "r = (a + b + CF) & %s; { uint8_t c = (r < a) || (CF && r == a); OF = (((a ^ r) & (b ^ r)) >> %d) & 1; CF = c; } " % (M(w), msb)
            elif mn in ("sub", "cmp"):
                s += "r = (a - b) & %s; CF = a < b; OF = (((a ^ b) & (a ^ r)) >> %d) & 1; " % (M(w), msb)
            elif mn == "sbb":
                s += "r = (a - b - CF) & %s; { uint8_t c = (a < b) || (CF && a == b); OF = (((a ^ b) & (a ^ r)) >> %d) & 1; CF = c; } " % (M(w), msb)
            elif mn in ("and", "test"):
                s += "r = a & b; CF = 0; OF = 0; "
            elif mn == "or":
                s += "r = a | b; CF = 0; OF = 0; "
            else:
                s += "r = a ^ b; CF = 0; OF = 0; "
            s += self.flags_zs(w)
            if mn not in ("cmp", "test"):
                s += " " + self.write(ops[0], "r", w)
            e(s + " }")
            return
        if mn in ("inc", "dec", "neg", "not"):
            w = self.opsize(ops)
            a = self.read(ops[0], w)
            msb = 8 * w - 1
            if mn == "not":
                e(self.write(ops[0], "(~%s) & %s" % (a, M(w)), w))
                return
            s = "{ uint64_t a = %s, r; " % a
            if mn == "inc":
                s += "r = (a + 1) & %s; OF = (r == %s); " % (M(w), "0x%xULL" % (1 << msb))
            elif mn == "dec":
                s += "r = (a - 1) & %s; OF = (a == %s); " % (M(w), "0x%xULL" % (1 << msb))
            else:
                s += "r = (0 - a) & %s; CF = (a != 0); OF = (a == %s); " % (M(w), "0x%xULL" % (1 << msb))
            e(s + self.flags_zs(w) + " " + self.write(ops[0], "r", w) + " }")
            return
        if mn in ("shl", "sal", "shr", "sar"):
            w = self.opsize(ops[:1])
            a = self.read(ops[0], w)
            c = self.read(ops[1], 1) if len(ops) > 1 else "1ULL"
            bits = 8 * w
            s = "{ uint64_t a = %s, c = (%s) & %d, r; if (c) { " % (a, c, 63 if w == 8 else 31)
            if mn in ("shl", "sal"):
                s += "r = (c < %d) ? ((a << c) & %s) : 0; CF = (c <= %d) ? ((a >> (%d - c)) & 1) : 0; OF = ((r >> %d) & 1) ^ CF; " % (bits, M(w), bits, bits, bits - 1)
            elif mn == "shr":
                s += "r = (c < %d) ? (a >> c) : 0; CF = (c <= %d) ? ((a >> (c - 1)) & 1) : 0; OF = (a >> %d) & 1; " % (bits, bits, bits - 1)
            else:
                s += "{ uint64_t sg = (a >> %d) & 1, fill = sg ? %s : 0; uint64_t cc = c < %d ? c : %d; r = ((a >> cc) | (cc ? (fill << (%d - cc)) : 0)) & %s; CF = (a >> (cc - 1)) & 1; OF = 0; } " % (
                    bits - 1, M(w), bits, bits - 1, bits, M(w))
            s += self.flags_zs(w) + " " + self.write(ops[0], "r", w) + " } }"
            e(s)
            return
        if mn in ("shrx", "shlx", "sarx"):
            w = ops[0].size
            a, c = self.read(ops[1], w), self.read(ops[2], w)
            if mn == "shrx":
                e(self.write(ops[0], "(%s) >> ((%s) & %d)" % (a, c, 8 * w - 1)))
            elif mn == "shlx":
                e(self.write(ops[0], "((%s) << ((%s) & %d)) & %s" % (a, c, 8 * w - 1, M(w))))
            else:
                raise Unsupported(ins.text)
            return
        if mn == "bzhi":
            w = ops[0].size
            a, c = self.read(ops[1], w), self.read(ops[2], w)
            e("{ uint64_t a = %s, n = (%s) & 0xff, r = (n < %d) ? (a & ((1ULL << n) - 1)) : a; CF = n > %d; OF = 0; %s %s }" % (
                a, c, 8 * w, 8 * w - 1, self.flags_zs(w), self.write(ops[0], "r")))
            return
        if mn in ("tzcnt", "bsf", "lzcnt", "bsr", "popcnt"):
            w = ops[0].size
            a = self.read(ops[1], w)
            bits = 8 * w
            if mn in ("tzcnt", "bsf"):
                body = "uint64_t r = lift_ctz(a, %d);" % bits
                fl = "CF = (a == 0); ZF = (r == 0);" if mn == "tzcnt" else "ZF = (a == 0);"
                wr = self.write(ops[0], "r") if mn == "tzcnt" else "if (a) { %s }" % self.write(ops[0], "r")
            elif mn == "lzcnt":
                body = "uint64_t r = lift_clz(a, %d);" % bits
                fl = "CF = (a == 0); ZF = (r == 0);"
                wr = self.write(ops[0], "r")
            elif mn == "bsr":
                body = "uint64_t r = %d - lift_clz(a, %d);" % (bits - 1, bits)
                fl = "ZF = (a == 0);"
                wr = "if (a) { %s }" % self.write(ops[0], "r")
            else:
                body = "uint64_t r = lift_popcnt(a, %d);" % bits
                fl = "ZF = (a == 0); CF = 0; OF = 0; SF = 0;"
                wr = self.write(ops[0], "r")
            e("{ uint64_t a = %s; %s %s %s }" % (a, body, fl, wr))
            return
        if mn == "imul" and len(ops) >= 2:
            w = ops[0].size
            a = self.read(ops[1] if len(ops) == 3 else ops[0], w)
            b = self.read(ops[2] if len(ops) == 3 else ops[1], w)
            e("{ uint64_t r = ((%s) * (%s)) & %s; %s }" % (a, b, M(w), self.write(ops[0], "r")))   # CF/OF not modelled
            return
        if mn == "crc32":
            sw = ops[1].size or 8
            e("{ uint64_t c = LIFT_CRC32C(%s & 0xffffffffULL, %s, %d); %s }" % (
                self.read(ops[0], 4), self.read(ops[1], sw), 8 * sw, self.write(Op("reg", 8, reg=ops[0].reg, shift=0), "c")))
            return
        if mn.startswith("cmov"):
            cc = self.COND.get(mn[4:])
            if not cc:
                raise Unsupported(ins.text)
            w = ops[0].size
            e(self.write(ops[0], "%s ? %s : %s" % (cc, self.read(ops[1], w), self.read(ops[0], w))))
            return
        if mn.startswith("set") and mn[3:] in self.COND:
            e(self.write(ops[0], "(%s) ? 1ULL : 0ULL" % self.COND[mn[3:]], 1))
            return
        if mn == "jmp":
            if ops[0].kind != "imm":
                raise Unsupported("indirect jump: " + ins.text)
            e("goto L_%x;" % ops[0].val)
            return
        if mn.startswith("j") and mn[1:] in self.COND:
            e("if (%s) goto L_%x;" % (self.COND[mn[1:]], ops[0].val))
            return
        if mn == "push":
            e("R_rsp -= 8; LIFT_WR(R_rsp, 8, %s);" % self.read(ops[0], 8))
            return
        if mn == "pop":
            e("{ uint64_t v = LIFT_RD(R_rsp, 8); R_rsp += 8; %s }" % self.write(ops[0], "v"))
            return
        if mn == "ret":
            e("return R_rax;")
            return
        if mn in ("movdqu", "movdqa", "movups", "movaps"):
            d, s = ops
            if d.kind == "xmm" and s.kind == "mem":
                self.xmm_used.add(d.n)
                a = self.addr(s)
                e("{ uint64_t a = %s; X%d_lo = LIFT_RD(a, 8); X%d_hi = LIFT_RD(a + 8, 8); }" % (a, d.n, d.n))
            elif d.kind == "mem" and s.kind == "xmm":
                self.xmm_used.add(s.n)
                a = self.addr(d)
                e("{ uint64_t a = %s; LIFT_WR(a, 8, X%d_lo); LIFT_WR(a + 8, 8, X%d_hi); }" % (a, s.n, s.n))
            elif d.kind == "xmm" and s.kind == "xmm":
                self.xmm_used |= {d.n, s.n}
                e("X%d_lo = X%d_lo; X%d_hi = X%d_hi;" % (d.n, s.n, d.n, s.n))
            else:
                raise Unsupported(ins.text)
            if d.kind == "xmm" and d.size != 16 or s.kind == "xmm" and s.size != 16:
                raise Unsupported("ymm: " + ins.text)
            return
        raise Unsupported("instruction %s (%x)" % (ins.text, ins.addr))

    def emit(self, s):
        self.cur.append(s)

    def reachable(self):
        seen, todo = set(), [self.entry]
        while todo:
            a = todo.pop()
            if a in seen or a not in self.img.insns:
                if a not in self.img.insns and a not in seen:
                    raise Unsupported("control flow leaves the image at %x" % a)
                continue
            seen.add(a)
            ins = self.img.insns[a]
            mn = ins.mnem
            if mn == "ret":
                continue
            if mn == "jmp":
                o = branch_target(ins)
                if o.kind != "imm":
                    raise Unsupported("indirect jump " + ins.text)
                todo.append(o.val)
                continue
            if mn.startswith("j") and mn[1:] in self.COND:
                todo.append(branch_target(ins).val)
            if mn == "call":
                raise Unsupported("call " + ins.text)
            todo.append(a + ins.size)
        return sorted(seen)

    def lift(self):
        addrs = self.reachable()
        body = []
        prev_end = None
        for a in addrs:
            ins = self.img.insns[a]
            self.cur = []
            self.lift_insn(ins)
            if prev_end is not None and prev_end != a:
                body.append("        LIFT_UNREACHABLE();")      # never falls through a gap (previous insn was jmp/ret)
            body.append("L_%x: /* %s */" % (a, ins.text.replace("*/", "* /")))
            for s in self.cur:
                body.append("        " + s)
            prev_end = a + ins.size
        body.append("        LIFT_UNREACHABLE();")
        decl = ["static uint64_t", "%s(uint64_t a_rdi, uint64_t a_rsi, uint64_t a_rdx, uint64_t a_rcx, uint64_t a_rsp)" % self.cname, "{"]
        decl.append("        uint64_t " + ", ".join("R_%s = 0" % r for r in R64) + ";")
        decl.append("        uint8_t ZF = 0, SF = 0, CF = 0, OF = 0;")
        if self.xmm_used:
            decl.append("        uint64_t " + ", ".join("X%d_lo = 0, X%d_hi = 0" % (n, n) for n in sorted(self.xmm_used)) + ";")
        decl.append("        R_rdi = a_rdi; R_rsi = a_rsi; R_rdx = a_rdx; R_rcx = a_rcx; R_rsp = a_rsp;")
        decl.append("        goto L_%x;" % self.entry)
        return "\n".join(decl + body + ["}"]) + "\n"


PRELUDE = """
static void
lift_rep_movs(uint64_t *rdi, uint64_t *rsi, uint64_t *rcx, int w)
{
        while (*rcx) {
                LIFT_WR(*rdi, w, LIFT_RD(*rsi, w));
                *rdi += w, *rsi += w, *rcx -= 1;
        }
}
/* bit scans as helper functions: loop ids lift_ctz.0 / lift_clz.0 / lift_popcnt.0 (bound 65) independent of the kernel */
static uint64_t
lift_ctz(uint64_t a, int bits)
{
        uint64_t r = 0;
        while (r < (uint64_t) bits && !((a >> r) & 1))
                r++;
        return r;
}
static uint64_t
lift_clz(uint64_t a, int bits)
{
        uint64_t r = 0;
        while (r < (uint64_t) bits && !((a >> (bits - 1 - r)) & 1))
                r++;
        return r;
}
static uint64_t
lift_popcnt(uint64_t a, int bits)
{
        uint64_t r = 0;
        for (int i = 0; i < bits; i++)
                r += (a >> i) & 1;
        return r;
}
static uint64_t
lift_crc32c(uint64_t c, uint64_t d, int nbits)
{
        for (int i = 0; i < nbits; i++) {
                c ^= (d >> i) & 1;
                c = (c >> 1) ^ ((c & 1) ? 0x82F63B78ULL : 0);
        }
        return c;
}
#ifndef LIFT_CRC32C /* a harness may over-approximate the hash instruction (e.g. by an arbitrary value for memory-safety queries) */
#define LIFT_CRC32C(c, d, n) lift_crc32c(c, d, n)
#endif
static void
lift_rep_stos(uint64_t *rdi, uint64_t v, uint64_t *rcx, int w)
{
        while (*rcx) {
                LIFT_WR(*rdi, w, v);
                *rdi += w, *rcx -= 1;
        }
}
"""


def image_data_c(img):
    """C text: the allocated non-executable sections of the image + lift_img_byte()."""
    out, cases = [], []
    k = 0
    for nm, addr, size, flags in img.sections:
        if flags & 4 or size == 0:
            continue
        by = [img.data.get(addr + i, 0) for i in range(size)]
        out.append("static const uint8_t lift_sec%d[%d] = { %s };" % (k, size, ", ".join(str(b) for b in by)))
        cases.append("        if (a - 0x%xULL < %dULL) { *o = lift_sec%d[a - 0x%xULL]; return 1; }" % (addr, size, k, addr))
        k += 1
    out.append("static inline int\nlift_img_byte(uint64_t a, uint8_t *o)\n{\n%s\n        return 0;\n}\n" % "\n".join(cases))
    return "\n".join(out)


def lift_functions(repo, asm_files, names, scratch, tag=None, extra_defs=()):
    """-> C text with the image data and one lifted function per name."""
    img = loader.build_image(repo, asm_files, scratch, tag=tag, with_stubs=True, extra_defs=extra_defs)
    parts = ["/* generated by vlib/x86lift.py from %s -- do not edit */" % ", ".join(asm_files),
             "#ifndef LIFT_UNREACHABLE\n#define LIFT_UNREACHABLE() do { } while (0)\n#endif", image_data_c(img), PRELUDE]
    for n in names:
        parts.append("#define LIFT_ADDR_%s 0x%xULL" % (n, img.symbols[n]))
        parts.append(Lifter(img, n).lift())
    for s, a in img.symbols.items():
        if re.match(r"^[A-Za-z_]\w*$", s):
            parts.append("#define LIFT_SYM_%s 0x%xULL" % (s, a))
    return "\n".join(parts), img
