"""Core of the /verif machinery: query model, parallel runner, evidence writer,
known-findings handling, VIOLATION reporting.

Every property has /verif/harness/<ID>/plan.py exposing
    plan(tier, ctx) -> Plan
A Plan is a list of Query objects plus static description used for the evidence file.
A Query is picklable: (qid, runner "module:function", params dict, flags).  The runner
function executes in a worker process and returns a Result dict.
"""
import atexit
import hashlib
import importlib
import json
import multiprocessing as mp
import os
import shutil
import signal
import sys
import tempfile
import time
import traceback
from concurrent.futures import ProcessPoolExecutor, as_completed

VERIF = os.path.dirname(os.path.dirname(os.path.abspath(__file__)))
REPO = os.environ.get("VERIF_REPO", "/repo")

HOLDS, VIOLATED, UNDECIDED, ERROR = "holds", "violated", "undecided", "error"


class Query:
    def __init__(self, qid, runner, params, core=False, family=None, weight=1.0,
                 timeout=None, mem_gb=None, nontrivial=True):
        self.qid = qid
        self.runner = runner          # "package.module:function"
        self.params = params          # JSON-able
        self.core = core
        self.family = family or qid.split("/")[0]
        self.weight = weight
        self.timeout = timeout
        self.mem_gb = mem_gb
        self.nontrivial = nontrivial

    def to_sample(self):
        return {"query": self.qid, "params": self.params}


class Plan:
    def __init__(self, prop, level, queries, functions_encoded=(), bounds=None, stubs=(),
                 assumptions=(), outside=(), engine="cbmc-c", trusted_base=(), extra=None,
                 prepare=None, finish=None):
        self.prop = prop
        self.level = level
        self.queries = queries
        self.functions_encoded = list(functions_encoded)
        self.bounds = bounds or {}
        self.stubs = list(stubs)
        self.assumptions = list(assumptions)
        self.outside = list(outside)
        self.engine = engine
        self.trusted_base = list(trusted_base)
        self.extra = extra or {}
        self.prepare = prepare        # optional callable(ctx) run once before the queries (builds)
        self.finish = finish          # optional callable(ctx, results) -> dict merged into coverage


class Ctx:
    """Per-run context: scratch directory, tier, seed, budgets."""

    def __init__(self, prop, tier, seed):
        self.prop = prop
        self.tier = tier
        self.seed = seed
        base = os.environ.get("VERIF_SCRATCH") or os.environ.get("TMPDIR") or "/tmp"
        self.scratch = tempfile.mkdtemp(prefix="isal-verif.%s." % prop, dir=base)
        self.repo = REPO
        self.verif = VERIF
        self.timeout = int(os.environ.get("VERIF_QTIMEOUT", 0)) or (150 if tier == "quick" else 1200)
        self.mem_gb = int(os.environ.get("VERIF_QMEM_GB", 0)) or (8 if tier == "quick" else 24)
        self.jobs = int(os.environ.get("VERIF_JOBS", 0)) or (os.cpu_count() or 4)

    def cleanup(self):
        shutil.rmtree(self.scratch, ignore_errors=True)

    def as_dict(self):
        return dict(prop=self.prop, tier=self.tier, seed=self.seed, scratch=self.scratch,
                    repo=self.repo, verif=self.verif, timeout=self.timeout, mem_gb=self.mem_gb)


def _resolve(runner):
    mod, fn = runner.split(":")
    return getattr(importlib.import_module(mod), fn)


def _worker(runner, qid, params, ctxd, timeout, mem_gb):
    t0 = time.time()
    try:
        fn = _resolve(runner)
        cd = dict(ctxd)
        if timeout:
            cd["timeout"] = timeout
        if mem_gb:
            cd["mem_gb"] = mem_gb
        r = fn(qid, params, cd)
    except Exception as e:  # machinery failure, never a pass
        r = {"status": ERROR, "detail": "exception: %r\n%s" % (e, traceback.format_exc())}
    r.setdefault("time_s", time.time() - t0)
    r["qid"] = qid
    return r


# ------------------------------------------------------------------ known findings

def load_known_findings(prop):
    """known_findings.txt lines:
         known: property=<id> key=<key> <free text>
         fixed: property=<id> <commit> <free text>
       `key` is matched against the `finding_key` a violated query reports."""
    out = {}
    p = os.path.join(VERIF, "known_findings.txt")
    if not os.path.exists(p):
        return out
    for line in open(p):
        line = line.strip()
        if not line or line.startswith("#"):
            continue
        if line.startswith("known:"):
            toks = line.split()
            kv = dict(t.split("=", 1) for t in toks[1:3] if "=" in t)
            if kv.get("property") == prop and "key" in kv:
                out[kv["key"]] = " ".join(toks[3:])
    return out


# ------------------------------------------------------------------ main driver

def run_property(prop, tier, seed=0, only=None):
    t0 = time.time()
    sys.path.insert(0, VERIF)
    ctx = Ctx(prop, tier, seed)
    atexit.register(ctx.cleanup)

    def _sig(signum, frame):
        ctx.cleanup()
        os._exit(130)
    signal.signal(signal.SIGTERM, _sig)

    mod = importlib.import_module("harness.%s.plan" % prop)
    plan = mod.plan(tier, ctx)
    queries = plan.queries
    if only:
        queries = [q for q in queries if only in q.qid]
    prep_info = {}
    if plan.prepare:
        prep_info = plan.prepare(ctx) or {}
    ctxd = ctx.as_dict()
    ctxd["prep"] = prep_info

    results = {}
    # heavy queries first for better packing
    order = sorted(queries, key=lambda q: -q.weight)
    mpctx = mp.get_context("fork")
    with ProcessPoolExecutor(max_workers=ctx.jobs, mp_context=mpctx) as ex:
        futs = {ex.submit(_worker, q.runner, q.qid, q.params, ctxd, q.timeout, q.mem_gb): q
                for q in order}
        done = 0
        for f in as_completed(futs):
            q = futs[f]
            try:
                r = f.result()
            except Exception as e:
                r = {"status": ERROR, "detail": "worker died: %r" % e, "qid": q.qid, "time_s": 0}
            results[q.qid] = r
            done += 1
            if os.environ.get("VERIF_VERBOSE"):
                print("[%d/%d] %-60s %-9s %.1fs %s" % (done, len(queries), q.qid, r["status"],
                                                      r.get("time_s", 0), (r.get("detail") or "")[:100]),
                      flush=True)

    known = load_known_findings(prop)
    n = len(queries)
    by = {HOLDS: [], VIOLATED: [], UNDECIDED: [], ERROR: []}
    for q in queries:
        by[results[q.qid]["status"]].append(q)

    viol_lines, known_lines, new_violations = [], [], 0
    os.makedirs(os.path.join(VERIF, "replay"), exist_ok=True)
    seen_known = set()
    for q in by[VIOLATED]:
        r = results[q.qid]
        key = r.get("finding_key")
        if key and key in known:
            if key not in seen_known:
                known_lines.append("KNOWN-FINDING: property=%s %s [%s]" % (prop, known[key], key))
                seen_known.add(key)
            continue
        if r.get("replay_ok") is False:
            # counterexample that does not reproduce: machinery problem, not a violation
            r["status"] = ERROR
            r["detail"] = "INCONCLUSIVE encoding-mismatch (counterexample did not reproduce): " + (r.get("detail") or "")
            by[ERROR].append(q)
            continue
        new_violations += 1
        h = hashlib.sha1((q.qid + json.dumps(r.get("cex"), sort_keys=True, default=str)).encode()).hexdigest()[:10]
        rp = os.path.join(VERIF, "replay", "%s-%s.json" % (prop, h))
        with open(rp, "w") as fh:
            json.dump({"property": prop, "query": q.qid, "params": q.params, "runner": q.runner,
                       "detail": r.get("detail"), "cex": r.get("cex"), "replay_ok": r.get("replay_ok"),
                       "replay_log": r.get("replay_log"), "finding_key": key}, fh, indent=1, default=str)
        viol_lines.append("VIOLATION property=%s replay=%s" % (prop, rp))
        print("  violated query %s: %s" % (q.qid, (r.get("detail") or "")[:300]))
    by[VIOLATED] = [q for q in by[VIOLATED] if results[q.qid]["status"] == VIOLATED]

    fin = {}
    if plan.finish:
        try:
            fin = plan.finish(ctx, results) or {}
        except Exception as e:
            fin = {"finish_error": repr(e)}

    decided = len(by[HOLDS]) + len(by[VIOLATED])
    core_undecided = [q.qid for q in queries if q.core and results[q.qid]["status"] in (UNDECIDED, ERROR)]
    solver_time = sum(results[q.qid].get("solver_time_s", results[q.qid].get("time_s", 0)) for q in queries)
    states = sum(int(results[q.qid].get("stats", {}).get("variables", 0)) for q in queries)
    trans = sum(int(results[q.qid].get("stats", {}).get("clauses", 0)) for q in queries)
    traces = sum(int(results[q.qid].get("validated_traces", 0)) for q in queries) + int(prep_info.get("validated_traces", 0))
    distinct_nontrivial = len({json.dumps(q.params, sort_keys=True, default=str) + q.family for q in by[HOLDS] + by[VIOLATED] if q.nontrivial})
    witness_total = sum(1 for q in queries if results[q.qid].get("witness_ok") is not None)
    witness_ok = sum(1 for q in queries if results[q.qid].get("witness_ok") is True)

    # samples: a handful of actual query tuples incl. their verdict
    samples = []
    fams = {}
    for q in queries:
        fams.setdefault(q.family, []).append(q)
    for fam, qs in fams.items():
        for q in qs[:2]:
            r = results[q.qid]
            samples.append({"query": q.qid, "params": q.params, "verdict": r["status"],
                            "time_s": round(r.get("time_s", 0), 2), "stats": r.get("stats", {})})
    samples = samples[:40]

    families = {}
    for fam, qs in fams.items():
        families[fam] = {s: sum(1 for q in qs if results[q.qid]["status"] == s) for s in (HOLDS, VIOLATED, UNDECIDED, ERROR)}

    coverage = {
        "engine": plan.engine,
        "functions_encoded": plan.functions_encoded,
        "bounds": plan.bounds,
        "outside_claim": plan.outside,
        "stubs": plan.stubs,
        "queries": n,
        "queries_decided": decided,
        "queries_holds": len(by[HOLDS]),
        "queries_violated": len(by[VIOLATED]),
        "queries_undecided": [q.qid for q in by[UNDECIDED]][:50],
        "queries_error": [{"q": q.qid, "detail": (results[q.qid].get("detail") or "")[:300]} for q in by[ERROR]][:20],
        "families": families,
        "solver_time_s": round(solver_time, 1),
        "witness_checked": witness_total,
        "witness_ok": witness_ok,
        "known_findings_hit": sorted(seen_known),
        "std_ub_notes": sorted({n_ for q in queries for n_ in results[q.qid].get("std_ub_notes", [])})[:40],
        # schema keys
        "evaluations": n,
        "distinct_nontrivial": distinct_nontrivial,
        "rule": "one evaluation = one solver query (one concrete size/shape tuple, all data symbolic); "
                "distinct_nontrivial counts decided queries with distinct (family, params) whose harness reaches its assertions (witness twin) ",
        "samples": samples,
        "states": max(states, 1),
        "transitions": max(trans, 1),
        "states_transitions_meaning": "SAT variables / clauses summed over CBMC queries, or symbolic instructions executed / solver checks for x86sym",
        "traces_validated_against_impl": traces,
        "programs": int(prep_info.get("programs", 0)) or len(fams),
        "disagreements_checked": decided,
        "trusted_base": plan.trusted_base,
        "exhaustive": bool(plan.extra.get("exhaustive", False)),
    }
    coverage.update({k: v for k, v in plan.extra.items() if k != "exhaustive"})
    coverage.update(fin)
    if prep_info:
        coverage["prepare"] = {k: v for k, v in prep_info.items() if k not in ("paths",)}

    ev = {
        "property_id": prop,
        "tier": tier,
        "seed": seed,
        "level": plan.level,
        "coverage": coverage,
        "assumptions": plan.assumptions,
        "wall_s": round(time.time() - t0, 1),
        "violations": new_violations,
    }
    # evidence describes runs against /repo itself; runs against a scratch tree ($VERIF_REPO, used to evaluate seeded
    # changes) or restricted with --only must not overwrite it
    evdir = os.path.join(VERIF, "evidence") if (REPO == "/repo" and not only) else os.path.join(ctx.scratch, "evidence-not-kept")
    os.makedirs(evdir, exist_ok=True)
    with open(os.path.join(evdir, "%s.json" % prop), "w") as fh:
        json.dump(ev, fh, indent=1, default=str)

    for q in by[UNDECIDED]:
        print("UNDECIDED property=%s query=%s %s" % (prop, q.qid, (results[q.qid].get("detail") or "")[:120]))
    for q in by[ERROR]:
        print("ERROR property=%s query=%s %s" % (prop, q.qid, (results[q.qid].get("detail") or "")[:600]))
    for l in known_lines:
        print(l)
    for l in viol_lines:
        print(l)
    print("%s tier=%s queries=%d holds=%d violated=%d(known-suppressed=%d) undecided=%d error=%d wall=%.0fs"
          % (prop, tier, n, len(by[HOLDS]), len(by[VIOLATED]), len(seen_known), len(by[UNDECIDED]), len(by[ERROR]),
             time.time() - t0))
    ctx.cleanup()
    if new_violations:
        return 1
    if by[ERROR] or core_undecided or (n and decided < 0.9 * n):
        print("MACHINERY-FAILURE property=%s core_undecided=%s" % (prop, core_undecided[:5]))
        return 2
    return 0
