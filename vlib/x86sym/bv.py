"""Polymorphic bit-vector values for the x86 symbolic interpreter.

A value is one of
  * int           concrete (width given by context, always kept masked)
  * z3.BitVecRef  symbolic term (bv domain)
  * Aff           vector of GF(2)-affine forms over input bits (gf2-affine domain, CRC kernels):
                  bits[i] is a Python int bitmask; bit 0 of the mask is the constant 1,
                  bit j>0 is input variable j.  Only GF(2)-linear operations are defined;
                  anything else raises NonLinear (the query is then "outside encodable class").
Booleans are Python bool or z3.BoolRef.
"""
import z3


class NonLinear(Exception):
    pass


class Aff:
    __slots__ = ("bits",)

    def __init__(self, bits):
        self.bits = bits

    @property
    def width(self):
        return len(self.bits)

    def is_const(self):
        return all(b in (0, 1) for b in self.bits)

    def const_value(self):
        return sum((b & 1) << i for i, b in enumerate(self.bits))


def mask(w):
    return (1 << w) - 1


def is_c(x):
    return isinstance(x, int)


def is_aff(x):
    return isinstance(x, Aff)


def aff_of(w, x):
    if isinstance(x, Aff):
        return x
    if isinstance(x, int):
        return Aff([(x >> i) & 1 for i in range(w)])
    raise NonLinear("mixing z3 term with affine value")


def norm_aff(a):
    """Aff that is constant -> int"""
    if a.is_const():
        return a.const_value()
    return a


def nz(x):
    """simplify a z3 term; return a Python int when it is a constant (keeps concrete control concrete when a
    word mixes symbolic and concrete bytes, e.g. `shr reg, 24` on a table entry whose length byte is concrete)"""
    x = z3.simplify(x)
    if z3.is_bv_value(x):
        return x.as_long()
    return x


def z(w, x):
    if isinstance(x, int):
        return z3.BitVecVal(x & mask(w), w)
    if isinstance(x, Aff):
        raise NonLinear("affine value in bv op")
    return x


def width_of(x, default=None):
    if isinstance(x, Aff):
        return x.width
    if isinstance(x, int):
        return default
    return x.size()


# ---------------------------------------------------------------- bitwise

def xor(w, a, b):
    if is_c(a) and is_c(b):
        return (a ^ b) & mask(w)
    if is_aff(a) or is_aff(b):
        A, B = aff_of(w, a), aff_of(w, b)
        return norm_aff(Aff([x ^ y for x, y in zip(A.bits, B.bits)]))
    if is_c(a):
        a, b = b, a
    if is_c(b):
        if b == 0:
            return a
        if b == mask(w):
            return ~a
    elif a.eq(b):
        return 0
    return a ^ z(w, b)


def and_(w, a, b):
    if is_c(a) and is_c(b):
        return a & b
    if is_c(a):
        a, b = b, a
    if isinstance(a, Lin):
        if is_c(b) and (b & (b + 1)) == 0:          # mask 2^n - 1
            n = b.bit_length()
            if a.hi() <= b and a.lo() >= 0:
                return a
            return lin_divmod_pow2(a, n)[1]
        raise NonLinear("and on Z-linear value")
    if is_aff(a):
        if is_c(b):
            return norm_aff(Aff([x if (b >> i) & 1 else 0 for i, x in enumerate(a.bits)]))
        B = aff_of(w, b)
        if a is B:
            return a
        # and of two non-constant affine values is non-linear unless bitwise one side const
        bits = []
        for x, y in zip(a.bits, B.bits):
            if x in (0, 1):
                bits.append(y if x else 0)
            elif y in (0, 1):
                bits.append(x if y else 0)
            elif x == y:
                bits.append(x)
            else:
                raise NonLinear("and of two symbolic affine values")
        return norm_aff(Aff(bits))
    if is_aff(b):
        raise NonLinear("mix")
    if is_c(b):
        if b == 0:
            return 0
        if b == mask(w):
            return a
        return nz(a & z(w, b))
    return a & z(w, b)


def or_(w, a, b):
    if is_c(a) and is_c(b):
        return a | b
    if is_c(a):
        a, b = b, a
    if isinstance(a, Lin) or isinstance(b, Lin):
        A, B = _lin_of(w, a, (a if isinstance(a, Lin) else b).ctx), _lin_of(w, b, (a if isinstance(a, Lin) else b).ctx)
        for X, Y in ((A, B), (B, A)):
            # X multiple of 2^n and 0 <= Y < 2^n  =>  X | Y == X + Y
            n = max(Y.hi(), 0).bit_length()
            if Y.lo() >= 0 and all(c % (1 << n) == 0 for c in X.coef.values()) and X.const % (1 << n) == 0:
                return lin_add(w, X, Y, 1)
        raise NonLinear("or of overlapping Z-linear values")
    if is_aff(a) or is_aff(b):
        A, B = aff_of(w, a), aff_of(w, b)
        bits = []
        for x, y in zip(A.bits, B.bits):
            if x == 0:
                bits.append(y)
            elif y == 0:
                bits.append(x)
            elif x == 1 or y == 1:
                bits.append(1)
            elif x == y:
                bits.append(x)
            else:
                raise NonLinear("or of two symbolic affine values")
        return norm_aff(Aff(bits))
    if is_c(b):
        if b == 0:
            return a
        if b == mask(w):
            return b
    return a | z(w, b)


def not_(w, a):
    if is_c(a):
        return (~a) & mask(w)
    if is_aff(a):
        return Aff([x ^ 1 for x in a.bits])
    return ~a


def andn(w, a, b):
    """(~a) & b"""
    return and_(w, not_(w, a), b)


# ---------------------------------------------------------------- arithmetic (non-linear for Aff)

def _noaff(*xs):
    for x in xs:
        if is_aff(x):
            raise NonLinear("arithmetic on affine value")


def add(w, a, b):
    if is_c(a) and is_c(b):
        return (a + b) & mask(w)
    if isinstance(a, Lin) or isinstance(b, Lin):
        return lin_add(w, a, b, 1)
    _noaff(a, b)
    if is_c(b) and b == 0:
        return a
    if is_c(a) and a == 0:
        return b
    return z(w, a) + z(w, b)


def sub(w, a, b):
    if is_c(a) and is_c(b):
        return (a - b) & mask(w)
    if isinstance(a, Lin) or isinstance(b, Lin):
        return lin_add(w, a, b, -1)
    _noaff(a, b)
    if is_c(b) and b == 0:
        return a
    return z(w, a) - z(w, b)


def mul(w, a, b):
    if is_c(a) and is_c(b):
        return (a * b) & mask(w)
    if isinstance(a, Lin) and is_c(b):
        return lin_mulc(w, a, b)
    if isinstance(b, Lin) and is_c(a):
        return lin_mulc(w, b, a)
    if isinstance(a, Lin) or isinstance(b, Lin):
        raise NonLinear("product of two symbolic Z-linear values")
    _noaff(a, b)
    return z(w, a) * z(w, b)


def neg(w, a):
    return sub(w, 0, a)


def shl(w, a, n):
    """n concrete"""
    if isinstance(a, Lin):
        return lin_mulc(w, a, 1 << n)
    if n >= w:
        return 0
    if n == 0:
        return a
    if is_c(a):
        return (a << n) & mask(w)
    if is_aff(a):
        return norm_aff(Aff([0] * n + a.bits[:w - n]))
    return a << n


def lshr(w, a, n):
    if isinstance(a, Lin):
        return lin_divmod_pow2(a, n)[0]
    if n >= w:
        return 0
    if n == 0:
        return a
    if is_c(a):
        return a >> n
    if is_aff(a):
        return norm_aff(Aff(a.bits[n:] + [0] * n))
    return nz(z3.LShR(a, n))


def ashr(w, a, n):
    if n >= w:
        n = w - 1
    if n == 0:
        return a
    if is_c(a):
        s = a - (1 << w) if a >> (w - 1) else a
        return (s >> n) & mask(w)
    if is_aff(a):
        return norm_aff(Aff(a.bits[n:] + [a.bits[w - 1]] * n))
    return a >> n


def shl_sym(w, a, n):
    """shift by a possibly symbolic count already reduced to < w"""
    if is_c(n):
        return shl(w, a, n)
    _noaff(a, n)
    return z(w, a) << z(w, n)


def lshr_sym(w, a, n):
    if is_c(n):
        return lshr(w, a, n)
    _noaff(a, n)
    return z3.LShR(z(w, a), z(w, n))


# ---------------------------------------------------------------- structure

def extract(x, hi, lo, w=None):
    n = hi - lo + 1
    if is_c(x):
        return (x >> lo) & mask(n)
    if isinstance(x, Lin):
        if lo == 0 and hi == x.w - 1:
            return x
        if lo == 0 and x.lo() >= 0 and x.hi() < (1 << n):
            return Lin(n, x.coef, x.const, x.ctx, x.tainted)
        if lo == 0:
            try:
                r = lin_divmod_pow2(x, n)[1]
                return Lin(n, r.coef, r.const, x.ctx, x.tainted)
            except NonLinear:
                # the exact value may not fit: the machine value is the exact one mod 2^n, which this domain
                # cannot express -> record as an overflow suspect and continue tainted
                x.ctx.suspects.append(("truncation to %d bits" % n, x))
                return Lin(n, x.coef, x.const, x.ctx, True)
        raise NonLinear("extract [%d:%d] of Z-linear value" % (hi, lo))
    if is_aff(x):
        return norm_aff(Aff(x.bits[lo:hi + 1]))
    if lo == 0 and hi == x.size() - 1:
        return x
    return nz(z3.Extract(hi, lo, x))


def concat(parts):
    """parts: [(w, val)] most-significant first"""
    if all(is_c(v) for _, v in parts):
        r = 0
        for w, v in parts:
            r = (r << w) | (v & mask(w))
        return r
    if any(is_aff(v) for _, v in parts):
        bits = []
        for w, v in reversed(parts):
            bits.extend(aff_of(w, v).bits)
        return norm_aff(Aff(bits))
    # merge adjacent constants
    return z3.Concat(*[z(w, v) for w, v in parts]) if len(parts) > 1 else z(*parts[0])


def zext(wf, wt, x):
    if wt == wf:
        return x
    if is_c(x):
        return x & mask(wf)
    if isinstance(x, Lin):
        x.fit("zero-extension %d->%d" % (wf, wt))
        return Lin(wt, x.coef, x.const, x.ctx, x.tainted)
    if is_aff(x):
        return Aff(x.bits + [0] * (wt - wf))
    return z3.ZeroExt(wt - wf, x)


def sext(wf, wt, x):
    if wt == wf:
        return x
    if is_c(x):
        x &= mask(wf)
        if x >> (wf - 1):
            x |= mask(wt) ^ mask(wf)
        return x
    if is_aff(x):
        return Aff(x.bits + [x.bits[wf - 1]] * (wt - wf))
    return z3.SignExt(wt - wf, x)


def _flatten_concat(x, out):
    if z3.is_app_of(x, z3.Z3_OP_CONCAT):
        for c in x.children():
            _flatten_concat(c, out)
    else:
        out.append(x)


def split_bytes(w, x):
    """little-endian list of w/8 byte values"""
    n = w // 8
    if is_c(x):
        return [(x >> (8 * i)) & 0xFF for i in range(n)]
    if isinstance(x, Lin):
        if x.lo() >= 0 and x.hi() < 256:
            return [Lin(8, x.coef, x.const, x.ctx, x.tainted)] + [0] * (n - 1)
        return [LinPart(x, i) for i in range(n)]
    if is_aff(x):
        return [norm_aff(Aff(x.bits[8 * i:8 * i + 8])) for i in range(n)]
    if z3.is_app_of(x, z3.Z3_OP_CONCAT):
        parts = []
        _flatten_concat(x, parts)
        if all(p.size() % 8 == 0 for p in parts):
            out = []
            for p in reversed(parts):
                if p.size() == 8:
                    out.append(_cval(p))
                else:
                    out.extend(split_bytes(p.size(), p))
            return out
    if z3.is_bv_value(x):
        v = x.as_long()
        return [(v >> (8 * i)) & 0xFF for i in range(n)]
    return [z3.Extract(8 * i + 7, 8 * i, x) for i in range(n)]


def _cval(p):
    if z3.is_bv_value(p):
        return p.as_long()
    return p


def join_bytes(bs):
    """little-endian byte list -> value of width 8*len"""
    if any(isinstance(b, (Lin, LinPart)) for b in bs):
        w = 8 * len(bs)
        if isinstance(bs[0], LinPart):
            p = bs[0].parent
            k = p.w // 8
            if all(isinstance(b, LinPart) and b.parent is p and b.idx == i for i, b in enumerate(bs[:k])) and all(is_c(b) and b == 0 for b in bs[k:]):
                return p if len(bs) == k else Lin(w, p.coef, p.const, p.ctx, p.tainted)
            raise NonLinear("partial use of a Z-linear word")
        ctx = next(b for b in bs if isinstance(b, Lin)).ctx
        coef, const, taint = {}, 0, False
        for i, b in enumerate(bs):
            if isinstance(b, LinPart):
                raise NonLinear("partial use of a Z-linear word")
            if isinstance(b, Lin):
                for v, c in b.coef.items():
                    coef[v] = coef.get(v, 0) + (c << (8 * i))
                const += b.const << (8 * i)
                taint |= b.tainted
            else:
                const += (b & 0xFF) << (8 * i)
        return Lin(w, coef, const, ctx, taint)
    if all(is_c(b) for b in bs):
        r = 0
        for i, b in enumerate(bs):
            r |= (b & 0xFF) << (8 * i)
        return r
    if any(is_aff(b) for b in bs):
        bits = []
        for b in bs:
            bits.extend(aff_of(8, b).bits)
        return norm_aff(Aff(bits))
    # recognise Extract(8i+7,8i,X) sequences of one term
    first = bs[0]
    if (not is_c(first)) and z3.is_app_of(first, z3.Z3_OP_EXTRACT):
        src = first.arg(0)
        if src.size() == 8 * len(bs):
            ok = True
            for i, b in enumerate(bs):
                if is_c(b) or not z3.is_app_of(b, z3.Z3_OP_EXTRACT) or not b.arg(0).eq(src) or b.params() != [8 * i + 7, 8 * i]:
                    ok = False
                    break
            if ok:
                return src
    if len(bs) == 1:
        return bs[0]
    return z3.Concat(*[z(8, b) for b in reversed(bs)])


# ---------------------------------------------------------------- booleans / comparisons

def b_is_c(b):
    return isinstance(b, bool)


def b_not(b):
    if b_is_c(b):
        return not b
    return z3.Not(b)


def b_and(a, b):
    if b_is_c(a):
        return b if a else False
    if b_is_c(b):
        return a if b else False
    return z3.And(a, b)


def b_or(a, b):
    if b_is_c(a):
        return True if a else b
    if b_is_c(b):
        return True if b else a
    return z3.Or(a, b)


def b_xor(a, b):
    if b_is_c(a) and b_is_c(b):
        return a != b
    if b_is_c(a):
        return b_not(b) if a else b
    if b_is_c(b):
        return b_not(a) if b else a
    return z3.Xor(a, b)


def eq(w, a, b):
    if is_c(a) and is_c(b):
        return a == b
    _noaff(a, b)
    return z(w, a) == z(w, b)


def ult(w, a, b):
    if is_c(a) and is_c(b):
        return a < b
    _noaff(a, b)
    return z3.ULT(z(w, a), z(w, b))


def msb(w, a):
    if is_c(a):
        return bool((a >> (w - 1)) & 1)
    _noaff(a)
    return z3.Extract(w - 1, w - 1, a) == 1


def bit(a, i):
    """bit i as bool"""
    if is_c(a):
        return bool((a >> i) & 1)
    if is_aff(a):
        b = a.bits[i]
        if b in (0, 1):
            return bool(b)
        raise NonLinear("symbolic affine bit used as control")
    return z3.Extract(i, i, a) == 1


def ite(c, w, a, b):
    if b_is_c(c):
        return a if c else b
    if is_c(a) and is_c(b) and a == b:
        return a
    _noaff(a, b)
    return z3.If(c, z(w, a), z(w, b))


def bool_to_bv(c, w=1):
    if b_is_c(c):
        return int(c)
    return z3.If(c, z3.BitVecVal(1, w), z3.BitVecVal(0, w))


# ---------------------------------------------------------------- lane helpers on byte lists

def mux16(tbl, idx, cache=None):
    """PSHUFB per-byte semantics: idx bit7 -> 0 else tbl[idx & 15]; tbl = 16 byte values."""
    if is_c(idx):
        return 0 if idx & 0x80 else tbl[idx & 15]
    if isinstance(idx, (Lin, LinPart)):
        raise NonLinear("pshufb with Z-linear control")
    if is_aff(idx):
        if idx.is_const():
            return mux16(tbl, idx.const_value())
        raise NonLinear("pshufb with symbolic control")
    if any(is_aff(t) for t in tbl):
        raise NonLinear("pshufb symbolic control on affine table")
    key = idx.get_id()
    conds = cache.get(key) if cache is not None else None
    if conds is None:
        conds = [z3.Extract(i, i, idx) == 1 for i in (0, 1, 2, 3, 7)]
        if cache is not None:
            cache[key] = conds
    level = list(tbl)
    for bi in range(4):
        c = conds[bi]
        nxt = []
        for j in range(0, len(level), 2):
            lo, hi = level[j], level[j + 1]
            if is_c(lo) and is_c(hi) and lo == hi:
                nxt.append(lo)
            elif (not is_c(lo)) and (not is_c(hi)) and lo.eq(hi):
                nxt.append(lo)
            else:
                nxt.append(z3.If(c, z(8, hi), z(8, lo)))
        level = nxt
    r = level[0]
    return z3.If(conds[4], z3.BitVecVal(0, 8), z(8, r))


def clmul64(a, b):
    """carry-less 64x64 -> 128 multiply. Supports int*int, Aff*int, z3*int (as xor of shifts), z3*z3."""
    if is_c(a) and is_c(b):
        r = 0
        while b:
            lsb = b & -b
            r ^= a * lsb
            b ^= lsb
        return r & mask(128)
    if is_c(a):
        a, b = b, a
    if is_aff(a):
        if is_aff(b):
            if b.is_const():
                b = b.const_value()
            else:
                raise NonLinear("pclmul of two symbolic operands")
        bits = [0] * 128
        ab = a.bits
        for j in range(64):
            if (b >> j) & 1:
                for i in range(64):
                    bits[i + j] ^= ab[i]
        return norm_aff(Aff(bits))
    if is_aff(b):
        raise NonLinear("mix")
    a128 = z3.ZeroExt(64, a)
    if is_c(b):
        r = None
        for j in range(64):
            if (b >> j) & 1:
                t = a128 << j if j else a128
                r = t if r is None else r ^ t
        return r if r is not None else 0
    r = z3.BitVecVal(0, 128)
    for j in range(64):
        r = r ^ z3.If(z3.Extract(j, j, b) == 1, a128 << j, z3.BitVecVal(0, 128))
    return r


# ==================================================================== Z-linear domain (Adler-32 kernels)
class LinCtx:
    """Variable bounds, modulo definitions and overflow suspects for the Z-linear domain."""

    def __init__(self):
        self.bounds = {}     # var -> (lo, hi)
        self.mods = {}       # var -> (form dict, const, modulus): var == form mod modulus, 0 <= var < modulus
        self.suspects = []   # (description, Lin) whose exact value may leave [0, 2^w)
        self.n = 0

    def var(self, name, lo, hi):
        self.bounds[name] = (lo, hi)
        return name

    def fresh(self, prefix, lo, hi):
        self.n += 1
        return self.var("%s%d" % (prefix, self.n), lo, hi)


class Lin:
    """exact integer linear form  const + sum coef[v]*v  standing for a w-bit machine value; `tainted` when the
    exact value may have left [0, 2^w) somewhere on the way (wrap-around not modelled)"""
    __slots__ = ("w", "coef", "const", "ctx", "tainted")

    def __init__(self, w, coef, const, ctx, tainted=False):
        self.w, self.coef, self.const, self.ctx, self.tainted = w, {k: v for k, v in coef.items() if v}, const, ctx, tainted

    def hi(self):
        return self.const + sum(c * (self.ctx.bounds[v][1] if c > 0 else self.ctx.bounds[v][0]) for v, c in self.coef.items())

    def lo(self):
        return self.const + sum(c * (self.ctx.bounds[v][0] if c > 0 else self.ctx.bounds[v][1]) for v, c in self.coef.items())

    def fit(self, what):
        if self.lo() < 0 or self.hi() >= (1 << self.w):
            self.tainted = True
            self.ctx.suspects.append((what, self))
        return self

    def __repr__(self):
        return "Lin%d(%s + %d%s)" % (self.w, dict(list(self.coef.items())[:4]), self.const, " TAINTED" if self.tainted else "")


class LinPart:
    __slots__ = ("parent", "idx")

    def __init__(self, parent, idx):
        self.parent, self.idx = parent, idx


def is_lin(x):
    return isinstance(x, Lin)


def is_opaque(x):
    return isinstance(x, (Aff, Lin))


def _lin_of(w, x, ctx):
    if isinstance(x, Lin):
        return x
    if isinstance(x, int):
        return Lin(w, {}, x, ctx)
    raise Unsupported_("mixing Z-linear value with %r" % type(x))


class Unsupported_(Exception):
    pass


def lin_add(w, a, b, sign=1):
    ctx = a.ctx if isinstance(a, Lin) else b.ctx
    A, B = _lin_of(w, a, ctx), _lin_of(w, b, ctx)
    coef = dict(A.coef)
    for v, c in B.coef.items():
        coef[v] = coef.get(v, 0) + sign * c
    # ring arithmetic: intermediate wrap-around mod 2^w is harmless; ranges are checked where a value is
    # *interpreted* (dividend of div, bit-field split, widening)
    return Lin(w, coef, A.const + sign * B.const, ctx, A.tainted or B.tainted)


def lin_mulc(w, a, c):
    return Lin(w, {v: k * c for v, k in a.coef.items()}, a.const * c, a.ctx, a.tainted)


def lin_divmod_pow2(a, n):
    """(a >> n, a & (2^n-1)) when the terms split cleanly"""
    q, r = {}, {}
    for v, c in a.coef.items():
        if c % (1 << n) == 0:
            q[v] = c >> n
        else:
            r[v] = c
    qc, rc = a.const >> n, a.const & ((1 << n) - 1)
    R = Lin(a.w, r, rc, a.ctx, a.tainted)
    if R.lo() < 0 or R.hi() >= (1 << n):
        raise NonLinear("Z-linear value cannot be split at bit %d" % n)
    a.fit("bit-field split")
    Q = Lin(a.w, q, qc, a.ctx, a.tainted)
    return Q, R
