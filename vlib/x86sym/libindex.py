"""Index of the x86-64 library build: which object defines which symbol, per-function instruction
classification (ISA requirements) including callees.  Regenerated from /repo on every run."""
import json
import os
import re
import subprocess
from concurrent.futures import ThreadPoolExecutor
from . import loader, isa

DIRS = ["crc", "erasure_code", "raid", "mem", "igzip"]


def lib_sources(repo):
    """x86-64 library sources according to the */Makefile.am lists (lsrc + lsrc_x86_64)."""
    out = []
    for d in DIRS:
        p = os.path.join(repo, d, "Makefile.am")
        if not os.path.exists(p):
            continue
        txt = open(p).read().replace("\\\n", " ")
        for line in txt.splitlines():
            m = re.match(r"^\s*(lsrc|lsrc_x86_64)\s*\+?=\s*(.*)$", line)
            if m:
                for tok in m.group(2).split():
                    if tok.endswith(".asm") or tok.endswith(".c"):
                        out.append(tok)
    return sorted(set(out))


def _cc(repo, rel, outdir):
    obj = os.path.join(outdir, rel.replace("/", "-").replace(".c", "") + ".c.o")
    if not os.path.exists(obj):
        cmd = ["gcc", "-c", "-O2", "-w", "-DAS_FEATURE_LEVEL=10", "-DHAVE_AS_KNOWS_AVX512=1", "-D_GNU_SOURCE=1"] + \
              ["-I%s/%s" % (repo, d) for d in ["include"] + DIRS] + [os.path.join(repo, rel), "-o", obj]
        p = subprocess.run(cmd, stdout=subprocess.PIPE, stderr=subprocess.PIPE)
        if p.returncode != 0:
            raise RuntimeError("gcc failed for %s: %s" % (rel, p.stderr.decode()[-600:]))
    return obj


def build_index(repo, scratch):
    """-> dict: symbols{name: {obj, src, kind}}; written to scratch/libindex.json"""
    outdir = os.path.join(scratch, "x86")
    os.makedirs(outdir, exist_ok=True)
    srcs = lib_sources(repo)
    idx = {"symbols": {}, "objects": {}}

    def one(rel):
        if rel.endswith(".asm"):
            return rel, loader.assemble(repo, rel, outdir), "asm"
        return rel, _cc(repo, rel, outdir), "c"
    with ThreadPoolExecutor(8) as ex:
        res = list(ex.map(one, srcs))
    for rel, obj, kind in res:
        rc, o, e = loader.sh(["nm", "--defined-only", obj])
        idx["objects"][obj] = {"src": rel, "kind": kind}
        for l in o.splitlines():
            f = l.split()
            if len(f) == 3 and f[1] in "TtDdRrBbW":
                if f[1] in "TW" or (f[1] == "t" and "." not in f[2]):
                    idx["symbols"].setdefault(f[2], {"obj": obj, "src": rel, "kind": kind})
    with open(os.path.join(scratch, "libindex.json"), "w") as fh:
        json.dump(idx, fh)
    return idx


def load_index(scratch):
    return json.load(open(os.path.join(scratch, "libindex.json")))


_objcache = {}


def _obj_disasm(obj):
    """-> (insns{addr:Insn}, funcs [(addr,name)] sorted, relocs {addr_of_insn_end?})"""
    if obj in _objcache:
        return _objcache[obj]
    rc, o, e = loader.sh(["objdump", "-dr", "-M", "intel", "--insn-width=16", "-z", "-j", ".text", obj])
    insns, relocs = {}, {}
    last = None
    for line in o.splitlines():
        m = re.match(r"^\s*([0-9a-f]+):\t([0-9a-f ]+)\t(.*)$", line)
        if m:
            addr = int(m.group(1), 16)
            raw = bytes(int(x, 16) for x in m.group(2).split())
            text = m.group(3).split("#")[0].strip()
            parts = text.split(None, 1)
            mnem = parts[0]
            rest = parts[1] if len(parts) > 1 else ""
            while mnem in ("rep", "repz", "repnz", "lock", "notrack", "bnd", "data16", "cs", "ds", "es", "ss", "fs", "gs", "addr32", "rex.W") and rest:
                p2 = rest.split(None, 1)
                mnem = p2[0]
                rest = p2[1] if len(p2) > 1 else ""
            rest = re.sub(r"<[^>]*>", "", rest).strip()
            ops = [x.strip() for x in loader.OPSPLIT.split(rest)] if rest else []
            insns[addr] = loader.Insn(addr, len(raw), mnem, ops, text, None, raw)
            last = addr
            continue
        m = re.match(r"^\s*([0-9a-f]+): (R_X86_64_\w+)\s+(\S+)", line)
        if m and last is not None:
            sym = re.sub(r"[-+]0x[0-9a-f]+$", "", m.group(3))
            relocs.setdefault(last, []).append(sym)
    rc, o, e = loader.sh(["nm", "--defined-only", obj])
    funcs = []
    for l in o.splitlines():
        f = l.split()
        if len(f) == 3 and f[1] in "Tt":
            funcs.append((int(f[0], 16), f[2], f[1]))
    funcs.sort()
    _objcache[obj] = (insns, funcs, relocs)
    return _objcache[obj]


def func_requirements(idx, name, seen=None, depth=0):
    """Transitive ISA requirement of function `name`: (features set, details list, problems list)."""
    seen = seen if seen is not None else set()
    if name in seen:
        return set(), [], []
    seen.add(name)
    ent = idx["symbols"].get(name)
    if ent is None:
        return set(), [], ["symbol %s not defined by any x86-64 library object" % name]
    insns, funcs, relocs = _obj_disasm(ent["obj"])
    start = None
    for a, n, t in funcs:
        if n == name:
            start = a
    if start is None:
        return set(), [], ["symbol %s not in .text of %s" % (name, ent["src"])]
    # function extent: up to the next *global* function symbol (asm local labels stay inside)
    ends = [a for a, n, t in funcs if a > start and t == "T"]
    end = min(ends) if ends else (max(insns) + 1 if insns else start)
    # reachable instructions (CFG walk); indirect jumps => take whole extent
    reach, work, whole = set(), [start], False
    while work:
        a = work.pop()
        while a in insns and a not in reach:
            reach.add(a)
            ins = insns[a]
            nxt = a + ins.size
            m = ins.mnem
            if m == "ret":
                break
            if m == "jmp":
                if len(ins.ops) == 1 and re.match(r"^[0-9a-f]+$", ins.ops[0]) and a not in relocs:
                    work.append(int(ins.ops[0], 16))
                elif a not in relocs:
                    whole = True
                break
            if m.startswith("j") and len(ins.ops) == 1 and re.match(r"^[0-9a-f]+$", ins.ops[0]):
                work.append(int(ins.ops[0], 16))
            if m == "call" and a not in relocs and len(ins.ops) == 1 and re.match(r"^[0-9a-f]+$", ins.ops[0]):
                work.append(int(ins.ops[0], 16))
            a = nxt
    if whole:
        # computed jump (e.g. into an unrolled block): take the linear extent of the function, which ends at
        # the last `ret` before the first undecodable byte sequence (constant pools follow the code)
        lin, last_ret = [], None
        for a in sorted(x for x in insns if start <= x < end):
            if insns[a].mnem == "(bad)":
                break
            lin.append(a)
            if insns[a].mnem == "ret":
                last_ret = a
        if last_ret is not None:
            lin = [a for a in lin if a <= last_ret]
        reach |= set(lin)
    feats, details, problems = set(), [], []
    callees = set()
    for a in sorted(reach):
        ins = insns[a]
        f, why = isa.classify(ins)
        if f is None:
            problems.append("%s+0x%x: %s" % (name, a - start, why))
            continue
        for x in f:
            if x not in feats:
                details.append("%s: %s needs %s" % (name, ins.text, x))
        feats |= f
        for s in relocs.get(a, []):
            if ins.mnem in ("call", "jmp") and not s.startswith("."):
                callees.add(s)
    for c in sorted(callees):
        if c in ("memcpy", "memset", "memmove", "memcmp", "wmemset", "abort", "strlen") or (c.startswith("__") and c not in idx["symbols"]):
            continue   # libc / compiler runtime, not part of ISA-L
        f2, d2, p2 = func_requirements(idx, c, seen, depth + 1)
        for x in f2:
            if x not in feats:
                details.append("%s -> %s needs %s" % (name, c, x))
        feats |= f2
        problems += p2
    return feats, details, problems
