"""x86-64 symbolic interpreter: executor (path forking with z3 feasibility) + scalar instruction set.
Vector/AVX-512 semantics live in vecops.py and register themselves into HANDLERS."""
import re
import z3
from . import bv
from .machine import State, Op, parse_operand, Violation, Unsupported, SymIndex, REGMAP, Region

RET_SENTINEL = 0x7FFF00000000
HANDLERS = {}


def handler(*names):
    def deco(f):
        for n in names:
            HANDLERS[n] = f
        return f
    return deco


class Exec:
    """Runs one image from an initial state to `ret` on every feasible path."""

    def __init__(self, img, solver=None, max_steps=200000, max_paths=4096, on_call=None):
        self.img = img
        self.solver = solver or z3.SolverFor("QF_BV")
        self.max_steps = max_steps
        self.max_paths = max_paths
        self.opcache = {}
        self.mux_cache = {}
        self.n_insns = 0
        self.n_checks = 0
        self.on_call = on_call
        self.mnems = set()
        self.insn_addrs = set()

    def ops(self, insn):
        o = self.opcache.get(insn.addr)
        if o is None:
            if (insn.mnem.startswith("j") or insn.mnem == "call") and len(insn.ops) == 1 and re.match(r"^[0-9a-f]+$", insn.ops[0]):
                t = Op("i")
                t.imm = int(insn.ops[0], 16)
                o = [t]
            else:
                o = [parse_operand(x) for x in insn.ops]
            self.opcache[insn.addr] = o
        return o

    def feasible(self, st, cond):
        self.n_checks += 1
        # NB: formulas are asserted (push/pop), never passed as assumptions: z3's assumption
        # mode is 20x slower on these bit-vector queries (measured)
        self.solver.push()
        self.solver.add(*(st.path + [cond]))
        r = self.solver.check()
        self.solver.pop()
        if r == z3.unknown:
            raise Unsupported("solver unknown on branch feasibility")
        return r == z3.sat

    def run(self, st0):
        """returns list of (state, outcome) ; outcome: 'ret' or Violation instance"""
        finals = []
        work = [st0]
        while work:
            st = work.pop()
            if len(finals) + len(work) > self.max_paths:
                raise Unsupported("path explosion > %d" % self.max_paths)
            try:
                while True:
                    if st.pc == RET_SENTINEL:
                        finals.append((st, "ret"))
                        break
                    insn = self.img.insns.get(st.pc)
                    if insn is None:
                        raise Violation("bad-jump", "control reached 0x%x which is not an instruction" % st.pc)
                    st.steps += 1
                    self.n_insns += 1
                    if st.steps > self.max_steps:
                        raise Violation("no-termination", "more than %d instructions on one path" % self.max_steps, insn)
                    h = HANDLERS.get(insn.mnem)
                    if h is None:
                        raise Unsupported("unknown mnemonic %s in %r" % (insn.mnem, insn))
                    self.mnems.add(insn.mnem)
                    self.insn_addrs.add(insn.addr)
                    nxt = insn.addr + insn.size
                    st.pc = nxt
                    try:
                        r = h(self, st, insn, self.ops(insn))
                    except bv.NonLinear as e:
                        raise bv.NonLinear("%s at %r" % (e, insn))
                    except SymIndex as e:
                        # a memory operand indexed by a symbolic (z3) value: case-split on its feasible values (<= 8),
                        # e.g. heapify's child index after a cmov; each case continues with a concrete index
                        if bv.is_aff(e.idx) or bv.is_c(e.idx) or e.reg is None or not getattr(self, "split_sym_index", False):
                            raise
                        vals, extra = [], []
                        w = e.idx.size()
                        while len(vals) <= 8:
                            self.solver.push()
                            self.solver.add(*(st.path + extra))
                            rr = self.solver.check()
                            if rr == z3.sat:
                                v = self.solver.model().eval(e.idx, model_completion=True).as_long()
                            self.solver.pop()
                            self.n_checks += 1
                            if rr != z3.sat:
                                break
                            vals.append(v)
                            extra.append(e.idx != v)
                        if len(vals) > 8:
                            raise Unsupported("symbolic index with more than 8 feasible values in %r" % (insn,))
                        for v in vals:
                            alt = st.fork()
                            alt.path.append(e.idx == v)
                            full = alt.r[e.reg]
                            if e.regw == 64:
                                alt.r[e.reg] = v
                            else:
                                alt.r[e.reg] = bv.concat([(64 - e.regw, bv.extract(full, 63, e.regw)), (e.regw, v)])
                            alt.pc = insn.addr
                            work.append(alt)
                        break
                    if r is not None:
                        # conditional branch on symbolic condition: r = (cond, target)
                        cond, target = r
                        t_ok = self.feasible(st, cond)
                        ncond = z3.Not(cond)
                        f_ok = self.feasible(st, ncond)
                        if t_ok and f_ok:
                            alt = st.fork()
                            alt.path.append(ncond)
                            work.append(alt)
                            st.path.append(cond)
                            st.pc = target
                        elif t_ok:
                            st.pc = target
                        elif f_ok:
                            pass
                        else:
                            break  # path infeasible altogether
            except Violation as v:
                if v.insn is None:
                    v.insn = insn if 'insn' in dir() else None
                finals.append((st, v))
        return finals


# ---------------------------------------------------------------- helpers

def rd(ex, st, o, insn, width=None):
    """read scalar operand (GPR / imm / mem) -> value of o.width bits"""
    if o.kind == "r":
        return st.get_reg(o)
    if o.kind == "i":
        w = width or 64
        return o.imm & bv.mask(w)
    if o.kind == "m":
        n = o.size or (width // 8)
        try:
            return bv.join_bytes(st.mem.load(st.ea(o, insn), n, insn))
        except SymIndex as e:
            if bv.is_aff(e.idx):
                return linear_table_load(st, e, n, insn)
            raise
    raise Unsupported("rd kind %s" % o.kind)


def linear_table_load(st, e, n, insn):
    """Load T[idx] from a constant table with a GF(2)-affine index: legal in the affine domain iff the table
    itself is affine in the index bits, which is checked exhaustively over the concrete table bytes:
        T[c | x] == T[c] ^ XOR_k (x_k ? D_k : 0)   for every x over the symbolic index bits."""
    bits = e.idx.bits
    symk = [k for k, b in enumerate(bits) if b not in (0, 1)]
    if len(symk) > 12:
        raise Unsupported("table lookup with %d symbolic index bits in %r" % (len(symk), insn))
    c = sum((b & 1) << k for k, b in enumerate(bits) if b in (0, 1))

    def T(i):
        a = (e.const + i * e.scale) & bv.mask(64)
        return bv.join_bytes(st.mem.load(a, n, insn))
    t0 = T(c)
    if not bv.is_c(t0):
        raise Unsupported("symbolic-index lookup into a non-constant table in %r" % (insn,))
    D = []
    for k in symk:
        tk = T(c | (1 << k))
        if not bv.is_c(tk):
            raise Unsupported("symbolic-index lookup into a non-constant table")
        D.append(tk ^ t0)
    for x in range(1 << len(symk)):
        i, want = c, t0
        for j, k in enumerate(symk):
            if (x >> j) & 1:
                i |= 1 << k
                want ^= D[j]
        if T(i) != want:
            raise bv.NonLinear("table indexed by a symbolic value is not GF(2)-affine (entry %d) in %r" % (i, insn))
    out = [(t0 >> b) & 1 for b in range(8 * n)]
    for j, k in enumerate(symk):
        for b in range(8 * n):
            if (D[j] >> b) & 1:
                out[b] ^= bits[k]
    return bv.norm_aff(bv.Aff(out))


def wr(ex, st, o, val, insn, width=None):
    if o.kind == "r":
        st.set_reg(o, val)
    elif o.kind == "m":
        n = o.size or (width // 8)
        st.mem.store(st.ea(o, insn), bv.split_bytes(8 * n, val), insn)
    else:
        raise Unsupported("wr kind")


def opw(ops, default=64):
    for o in ops:
        if o.kind == "r":
            return o.width
    for o in ops:
        if o.kind == "m" and o.size:
            return o.size * 8
    return default


def parity8(v):
    if bv.is_c(v):
        return bin(v & 0xFF).count("1") % 2 == 0
    return None  # not modelled symbolically


def set_zsp(st, w, res):
    if bv.is_opaque(res):
        st.fl.zf = st.fl.sf = st.fl.pf = None   # undefined in the affine domain: any later use aborts the query
        return
    if bv.is_c(res):
        st.fl.zf = res == 0
        st.fl.sf = bool(res >> (w - 1))
        st.fl.pf = parity8(res)
    else:
        st.fl.zf = bv.eq(w, res, 0)
        st.fl.sf = bv.msb(w, res)
        st.fl.pf = None


def flags_add(st, w, a, b, res, cin=0):
    set_zsp(st, w, res)
    if bv.is_opaque(res) or bv.is_opaque(a) or bv.is_opaque(b):
        st.fl.cf = st.fl.of = None
        return
    if bv.is_c(a) and bv.is_c(b) and bv.is_c(cin):
        st.fl.cf = (a + b + cin) >> w != 0
        st.fl.of = bool(((a ^ res) & (b ^ res)) >> (w - 1) & 1)
    else:
        wide = bv.add(w + 1, bv.add(w + 1, bv.zext(w, w + 1, a), bv.zext(w, w + 1, b)), bv.zext(w, w + 1, cin) if not bv.is_c(cin) else cin)
        st.fl.cf = bv.bit(wide, w)
        st.fl.of = bv.msb(w, bv.and_(w, bv.xor(w, a, res), bv.xor(w, b, res)))


def flags_sub(st, w, a, b, res, cin=0):
    set_zsp(st, w, res)
    if bv.is_opaque(res) or bv.is_opaque(a) or bv.is_opaque(b):
        st.fl.cf = st.fl.of = None
        return
    if bv.is_c(a) and bv.is_c(b) and bv.is_c(cin):
        st.fl.cf = a < b + cin
        st.fl.of = bool(((a ^ b) & (a ^ res)) >> (w - 1) & 1)
    else:
        if bv.is_c(cin) and cin == 0:
            st.fl.cf = bv.ult(w, a, b)
        else:
            wide = bv.sub(w + 1, bv.sub(w + 1, bv.zext(w, w + 1, a), bv.zext(w, w + 1, b)), bv.zext(w, w + 1, cin) if not bv.is_c(cin) else cin)
            st.fl.cf = bv.bit(wide, w)
        st.fl.of = bv.msb(w, bv.and_(w, bv.xor(w, a, b), bv.xor(w, a, res)))


def flags_logic(st, w, res):
    set_zsp(st, w, res)
    st.fl.cf = False
    st.fl.of = False


def cond(st, cc):
    f = st.fl

    def need(*xs):
        for x in xs:
            if x is None:
                raise Unsupported("condition %s uses an undefined/unmodelled flag" % cc)
    if cc in ("e", "z"):
        need(f.zf)
        return f.zf
    if cc in ("ne", "nz"):
        need(f.zf)
        return bv.b_not(f.zf)
    if cc in ("b", "c", "nae"):
        need(f.cf)
        return f.cf
    if cc in ("ae", "nb", "nc"):
        need(f.cf)
        return bv.b_not(f.cf)
    if cc in ("be", "na"):
        need(f.cf, f.zf)
        return bv.b_or(f.cf, f.zf)
    if cc in ("a", "nbe"):
        need(f.cf, f.zf)
        return bv.b_not(bv.b_or(f.cf, f.zf))
    if cc in ("l", "nge"):
        need(f.sf, f.of)
        return bv.b_xor(f.sf, f.of)
    if cc in ("ge", "nl"):
        need(f.sf, f.of)
        return bv.b_not(bv.b_xor(f.sf, f.of))
    if cc in ("le", "ng"):
        need(f.sf, f.of, f.zf)
        return bv.b_or(f.zf, bv.b_xor(f.sf, f.of))
    if cc in ("g", "nle"):
        need(f.sf, f.of, f.zf)
        return bv.b_not(bv.b_or(f.zf, bv.b_xor(f.sf, f.of)))
    if cc == "s":
        need(f.sf)
        return f.sf
    if cc == "ns":
        need(f.sf)
        return bv.b_not(f.sf)
    if cc == "o":
        need(f.of)
        return f.of
    if cc == "no":
        need(f.of)
        return bv.b_not(f.of)
    if cc in ("p", "pe"):
        need(f.pf)
        return f.pf
    if cc in ("np", "po"):
        need(f.pf)
        return bv.b_not(f.pf)
    raise Unsupported("cc " + cc)


# ---------------------------------------------------------------- data movement

@handler("endbr64", "nop", "prefetchnta", "prefetcht0", "prefetcht1", "prefetcht2", "vzeroupper_nop", "sfence", "lfence", "mfence")
def h_nop(ex, st, insn, ops):
    return None


@handler("mov", "movabs")
def h_mov(ex, st, insn, ops):
    w = opw(ops)
    v = rd(ex, st, ops[1], insn, w)
    if ops[1].kind == "i":
        v &= bv.mask(w)
    wr(ex, st, ops[0], v, insn, w)


@handler("movzx")
def h_movzx(ex, st, insn, ops):
    sw = ops[1].width if ops[1].kind == "r" else ops[1].size * 8
    v = rd(ex, st, ops[1], insn, sw)
    st.set_reg(ops[0], bv.zext(sw, ops[0].width, v))


@handler("movsx", "movsxd")
def h_movsx(ex, st, insn, ops):
    sw = ops[1].width if ops[1].kind == "r" else ops[1].size * 8
    v = rd(ex, st, ops[1], insn, sw)
    st.set_reg(ops[0], bv.sext(sw, ops[0].width, v))


@handler("cdqe")
def h_cdqe(ex, st, insn, ops):
    st.r["rax"] = bv.sext(32, 64, bv.extract(st.r["rax"], 31, 0))


@handler("cwde")
def h_cwde(ex, st, insn, ops):
    st.r["rax"] = bv.zext(32, 64, bv.sext(16, 32, bv.extract(st.r["rax"], 15, 0)))


@handler("lea")
def h_lea(ex, st, insn, ops):
    o = ops[1]
    # lea may combine symbolic values (no memory access): compute symbolically
    a = o.disp & bv.mask(64)
    if o.base == "rip":
        a = (a + insn.addr + insn.size) & bv.mask(64)
    elif o.base:
        a = bv.add(64, a, st.r[REGMAP[o.base][0]])
    if o.index:
        x = st.r[REGMAP[o.index][0]]
        a = bv.add(64, a, bv.mul(64, x, o.scale) if o.scale != 1 else x)
    w = ops[0].width
    st.set_reg(ops[0], bv.extract(a, w - 1, 0) if w < 64 else a)


@handler("xchg")
def h_xchg(ex, st, insn, ops):
    w = opw(ops)
    a, b = rd(ex, st, ops[0], insn, w), rd(ex, st, ops[1], insn, w)
    wr(ex, st, ops[0], b, insn, w)
    wr(ex, st, ops[1], a, insn, w)


@handler("push")
def h_push(ex, st, insn, ops):
    v = rd(ex, st, ops[0], insn, 64)
    sp = bv.sub(64, st.r["rsp"], 8)
    if not bv.is_c(sp):
        raise Unsupported("symbolic rsp")
    st.r["rsp"] = sp
    st.mem.store(sp, bv.split_bytes(64, v), insn)


@handler("pop")
def h_pop(ex, st, insn, ops):
    sp = st.r["rsp"]
    v = bv.join_bytes(st.mem.load(sp, 8, insn))
    st.r["rsp"] = bv.add(64, sp, 8)
    st.set_reg(ops[0], v)


@handler("ret")
def h_ret(ex, st, insn, ops):
    sp = st.r["rsp"]
    v = bv.join_bytes(st.mem.load(sp, 8, insn))
    if not bv.is_c(v):
        raise Violation("bad-jump", "symbolic return address", insn)
    st.r["rsp"] = bv.add(64, sp, 8)
    st.pc = v


@handler("call")
def h_call(ex, st, insn, ops):
    o = ops[0]
    if o.kind == "i":
        target = o.imm
    else:
        target = rd(ex, st, o, insn, 64)
        if not bv.is_c(target):
            raise Unsupported("symbolic call target")
    if ex.on_call:
        if ex.on_call(ex, st, insn, target):
            return None
    sp = bv.sub(64, st.r["rsp"], 8)
    st.r["rsp"] = sp
    st.mem.store(sp, bv.split_bytes(64, insn.addr + insn.size), insn)
    st.pc = target


@handler("jmp")
def h_jmp(ex, st, insn, ops):
    o = ops[0]
    if o.kind == "i":
        st.pc = o.imm
    else:
        t = rd(ex, st, o, insn, 64)
        if not bv.is_c(t):
            raise Unsupported("symbolic jmp target")
        if ex.on_call and ex.on_call(ex, st, insn, t, tail=True):
            return None
        st.pc = t


def _jcc(cc):
    def h(ex, st, insn, ops):
        c = cond(st, cc)
        if bv.b_is_c(c):
            if c:
                st.pc = ops[0].imm
            return None
        return (c, ops[0].imm)
    return h


def _setcc(cc):
    def h(ex, st, insn, ops):
        c = cond(st, cc)
        wr(ex, st, ops[0], bv.bool_to_bv(c, 8) if not bv.b_is_c(c) else int(c), insn, 8)
    return h


def _cmovcc(cc):
    def h(ex, st, insn, ops):
        w = opw(ops)
        c = cond(st, cc)
        src = rd(ex, st, ops[1], insn, w)
        dst = st.get_reg(ops[0])
        st.set_reg(ops[0], bv.ite(c, w, src, dst))
    return h


for _cc in ("e", "z", "ne", "nz", "b", "c", "nae", "ae", "nb", "nc", "be", "na", "a", "nbe", "l", "nge", "ge", "nl", "le", "ng",
            "g", "nle", "s", "ns", "o", "no", "p", "pe", "np", "po"):
    HANDLERS["j" + _cc] = _jcc(_cc)
    HANDLERS["set" + _cc] = _setcc(_cc)
    HANDLERS["cmov" + _cc] = _cmovcc(_cc)


# ---------------------------------------------------------------- ALU

def _alu(name):
    def h(ex, st, insn, ops):
        w = opw(ops)
        a = rd(ex, st, ops[0], insn, w)
        b = rd(ex, st, ops[1], insn, w)
        if ops[1].kind == "i":
            b &= bv.mask(w)
        if name in ("add", "adc"):
            cin = 0
            if name == "adc":
                if st.fl.cf is None:
                    raise Unsupported("adc with undefined CF")
                cin = bv.bool_to_bv(st.fl.cf, w) if not bv.b_is_c(st.fl.cf) else int(st.fl.cf)
            res = bv.add(w, bv.add(w, a, b), cin)
            flags_add(st, w, a, b, res, cin)
        elif name in ("sub", "sbb", "cmp"):
            cin = 0
            if name == "sbb":
                if st.fl.cf is None:
                    raise Unsupported("sbb with undefined CF")
                cin = bv.bool_to_bv(st.fl.cf, w) if not bv.b_is_c(st.fl.cf) else int(st.fl.cf)
            res = bv.sub(w, bv.sub(w, a, b), cin)
            flags_sub(st, w, a, b, res, cin)
            if name == "cmp":
                return None
        elif name in ("and", "test"):
            res = bv.and_(w, a, b)
            flags_logic(st, w, res)
            if name == "test":
                return None
        elif name == "or":
            res = bv.or_(w, a, b)
            flags_logic(st, w, res)
        elif name == "xor":
            if ops[0].kind == "r" and ops[1].kind == "r" and ops[0].reg == ops[1].reg and ops[0].shift == ops[1].shift:
                res = 0
            else:
                res = bv.xor(w, a, b)
            flags_logic(st, w, res)
        wr(ex, st, ops[0], res, insn, w)
    return h


for _n in ("add", "adc", "sub", "sbb", "cmp", "and", "test", "or", "xor"):
    HANDLERS[_n] = _alu(_n)


@handler("inc", "dec")
def h_incdec(ex, st, insn, ops):
    w = opw(ops)
    a = rd(ex, st, ops[0], insn, w)
    cf = st.fl.cf
    if insn.mnem == "inc":
        res = bv.add(w, a, 1)
        flags_add(st, w, a, 1, res)
    else:
        res = bv.sub(w, a, 1)
        flags_sub(st, w, a, 1, res)
    st.fl.cf = cf
    wr(ex, st, ops[0], res, insn, w)


@handler("neg")
def h_neg(ex, st, insn, ops):
    w = opw(ops)
    a = rd(ex, st, ops[0], insn, w)
    res = bv.neg(w, a)
    flags_sub(st, w, 0, a, res)
    wr(ex, st, ops[0], res, insn, w)


@handler("not")
def h_not(ex, st, insn, ops):
    w = opw(ops)
    wr(ex, st, ops[0], bv.not_(w, rd(ex, st, ops[0], insn, w)), insn, w)


def _shift(name):
    def h(ex, st, insn, ops):
        w = opw(ops[:1])
        a = rd(ex, st, ops[0], insn, w)
        if len(ops) == 1:
            n = 1
        else:
            n = rd(ex, st, ops[1], insn, 8)
        if not bv.is_c(n):
            raise Unsupported("symbolic shift count")
        n &= 63 if w == 64 else 31
        if n == 0:
            return None
        aff = bv.is_opaque(a)
        if name in ("shl", "sal"):
            res = bv.shl(w, a, n)
            cfv = None if aff else (bv.bit(a, w - n) if n <= w else False)
        elif name == "shr":
            res = bv.lshr(w, a, n)
            cfv = None if aff else (bv.bit(a, n - 1) if n <= w else False)
        else:
            res = bv.ashr(w, a, n)
            cfv = None if aff else bv.bit(a, min(n - 1, w - 1))
        if bv.is_opaque(res) or bv.is_opaque(a):
            st.fl.zf = st.fl.sf = st.fl.cf = st.fl.of = st.fl.pf = None
        else:
            set_zsp(st, w, res)
            st.fl.cf = cfv
            st.fl.of = None
        wr(ex, st, ops[0], res, insn, w)
    return h


for _n in ("shl", "sal", "shr", "sar"):
    HANDLERS[_n] = _shift(_n)


@handler("shlx", "shrx", "sarx")
def h_shx(ex, st, insn, ops):
    w = ops[0].width
    a = rd(ex, st, ops[1], insn, w)
    n = st.get_reg(ops[2])
    if not bv.is_c(n):
        raise Unsupported("symbolic shift count")
    n &= w - 1
    res = {"shlx": bv.shl, "shrx": bv.lshr, "sarx": bv.ashr}[insn.mnem](w, a, n)
    st.set_reg(ops[0], res)


@handler("bzhi")
def h_bzhi(ex, st, insn, ops):
    w = ops[0].width
    a = rd(ex, st, ops[1], insn, w)
    n = st.get_reg(ops[2])
    if not bv.is_c(n):
        raise Unsupported("symbolic bzhi index")
    n &= 0xFF
    res = a if n >= w else bv.and_(w, a, bv.mask(n))
    st.set_reg(ops[0], res)
    if bv.is_aff(res):
        st.fl.zf = st.fl.sf = None
    else:
        set_zsp(st, w, res)
    st.fl.cf = n > w - 1
    st.fl.of = False


@handler("bts")
def h_bts(ex, st, insn, ops):
    w = opw(ops[:1])
    a = rd(ex, st, ops[0], insn, w)
    n = rd(ex, st, ops[1], insn, w)
    if not bv.is_c(n):
        raise Unsupported("symbolic bts index")
    n &= w - 1
    st.fl.cf = bv.bit(a, n)
    wr(ex, st, ops[0], bv.or_(w, a, 1 << n), insn, w)


@handler("bt")
def h_bt(ex, st, insn, ops):
    w = opw(ops[:1])
    a = rd(ex, st, ops[0], insn, w)
    n = rd(ex, st, ops[1], insn, w)
    if not bv.is_c(n):
        raise Unsupported("symbolic bt index")
    st.fl.cf = bv.bit(a, n & (w - 1))


@handler("imul")
def h_imul(ex, st, insn, ops):
    if len(ops) == 1:
        raise Unsupported("one-operand imul")
    w = ops[0].width
    if len(ops) == 2:
        a, b = st.get_reg(ops[0]), rd(ex, st, ops[1], insn, w)
    else:
        a, b = rd(ex, st, ops[1], insn, w), ops[2].imm & bv.mask(w)
    st.set_reg(ops[0], bv.mul(w, a, b))
    st.fl.zf = st.fl.sf = st.fl.cf = st.fl.of = st.fl.pf = None


@handler("mul")
def h_mul(ex, st, insn, ops):
    w = opw(ops)
    if w != 64 and w != 32:
        raise Unsupported("mul width")
    a = bv.extract(st.r["rax"], w - 1, 0)
    b = rd(ex, st, ops[0], insn, w)
    if not (bv.is_c(a) and bv.is_c(b)):
        raise Unsupported("symbolic mul")
    p = a * b
    if w == 64:
        st.r["rax"], st.r["rdx"] = p & bv.mask(64), p >> 64
    else:
        st.r["rax"], st.r["rdx"] = p & bv.mask(32), (p >> 32) & bv.mask(32)
    st.fl.zf = st.fl.sf = st.fl.cf = st.fl.of = st.fl.pf = None


@handler("div")
def h_div(ex, st, insn, ops):
    w = opw(ops)
    d = rd(ex, st, ops[0], insn, w)
    lo = bv.extract(st.r["rax"], w - 1, 0)
    hi = bv.extract(st.r["rdx"], w - 1, 0)
    if bv.is_lin(lo) and bv.is_c(d) and d != 0 and bv.is_c(hi) and hi == 0:
        q, r = ex.div_hook(w, lo, d)
        st.r["rax"], st.r["rdx"] = bv.zext(w, 64, q), bv.zext(w, 64, r)
        st.fl.zf = st.fl.sf = st.fl.cf = st.fl.of = st.fl.pf = None
        return None
    if bv.is_c(d) and d != 0 and bv.is_c(hi) and hi == 0 and not bv.is_c(lo) and not bv.is_aff(lo):
        # symbolic dividend, constant divisor, zero high half: quotient cannot overflow
        dz = z3.BitVecVal(d, w)
        hook = getattr(ex, "div_hook", None)
        if hook is not None:
            q, r = hook(w, lo, d)   # (quotient, remainder) terms supplied by the harness (e.g. an abstraction)
        else:
            q, r = z3.UDiv(lo, dz), z3.URem(lo, dz)
        st.r["rax"], st.r["rdx"] = bv.zext(w, 64, q), bv.zext(w, 64, r)
        st.fl.zf = st.fl.sf = st.fl.cf = st.fl.of = st.fl.pf = None
        return None
    if not (bv.is_c(d) and bv.is_c(lo) and bv.is_c(hi)):
        raise Unsupported("symbolic div")
    if d == 0:
        raise Violation("div-by-zero", "div by zero", insn)
    n = (hi << w) | lo
    q, r = divmod(n, d)
    if q >> w:
        raise Violation("div-overflow", "#DE quotient overflow", insn)
    if w == 64:
        st.r["rax"], st.r["rdx"] = q, r
    else:
        st.r["rax"], st.r["rdx"] = q & bv.mask(32), r & bv.mask(32)
    st.fl.zf = st.fl.sf = st.fl.cf = st.fl.of = st.fl.pf = None


@handler("clc")
def h_clc(ex, st, insn, ops):
    st.fl.cf = False


@handler("rcl")
def h_rcl(ex, st, insn, ops):
    w = opw(ops[:1])
    a = rd(ex, st, ops[0], insn, w)
    n = 1 if len(ops) == 1 else rd(ex, st, ops[1], insn, 8)
    if n != 1 or st.fl.cf is None:
        raise Unsupported("rcl form")
    cin = bv.bool_to_bv(st.fl.cf, w) if not bv.b_is_c(st.fl.cf) else int(st.fl.cf)
    newcf = bv.bit(a, w - 1)
    res = bv.or_(w, bv.shl(w, a, 1), cin)
    st.fl.cf = newcf
    wr(ex, st, ops[0], res, insn, w)


# CRC32C instruction: linear over GF(2) in (crc, data)
CRC32C_POLY_REFL = 0x82F63B78


def crc32c_step(crc, data, nbits):
    """crc: 32-bit value, data: nbits value -> new crc (all polymorphic, xor/shift only)"""
    if bv.is_c(crc) and bv.is_c(data):
        c = crc ^ data
        for _ in range(nbits):
            c = (c >> 1) ^ (CRC32C_POLY_REFL if c & 1 else 0)
        return c & 0xFFFFFFFF
    if bv.is_aff(crc) or bv.is_aff(data):
        c = bv.aff_of(32, crc).bits[:]
        d = bv.aff_of(nbits, data).bits
        w = max(32, nbits)
        c = c + [0] * (w - 32)
        c = [x ^ (d[i] if i < nbits else 0) for i, x in enumerate(c)]
        # process nbits: bit-serial, reflected; state is 32 bits plus pending data bits above
        # Equivalent formulation: for each of nbits steps: lsb = c[0]; c >>= 1; if lsb: c ^= poly
        for _ in range(nbits):
            lsb = c[0]
            c = c[1:] + [0]
            if lsb:
                for j in range(32):
                    if (CRC32C_POLY_REFL >> j) & 1:
                        c[j] ^= lsb
        return bv.norm_aff(bv.Aff(c[:32]))
    # z3
    w = max(32, nbits)
    c = bv.xor(w, bv.zext(32, w, crc) if w > 32 else crc, bv.zext(nbits, w, data) if nbits < w else data)
    c = bv.z(w, c)
    poly = z3.BitVecVal(CRC32C_POLY_REFL, w)
    zero = z3.BitVecVal(0, w)
    for _ in range(nbits):
        c = z3.LShR(c, 1) ^ z3.If(z3.Extract(0, 0, c) == 1, poly, zero)
    return z3.Extract(31, 0, c) if w > 32 else c


@handler("crc32")
def h_crc32(ex, st, insn, ops):
    sw = ops[1].width if ops[1].kind == "r" else ops[1].size * 8
    d = rd(ex, st, ops[1], insn, sw)
    crc = bv.extract(st.r[ops[0].reg], 31, 0)
    res = crc32c_step(crc, d, sw)
    st.r[ops[0].reg] = bv.zext(32, 64, res)


@handler("cpuid")
def h_cpuid(ex, st, insn, ops):
    leaf = bv.extract(st.r["rax"], 31, 0)
    sub = bv.extract(st.r["rcx"], 31, 0)
    if not bv.is_c(leaf):
        raise Unsupported("symbolic cpuid leaf")
    f = getattr(ex, "cpuid_model", None)
    if f is None:
        raise Unsupported("cpuid without model")
    a, b, c, d = f(st, leaf, sub if bv.is_c(sub) else None)
    st.r["rax"], st.r["rbx"], st.r["rcx"], st.r["rdx"] = [bv.zext(32, 64, x) for x in (a, b, c, d)]
    st.cpuid_log.append(("cpuid", leaf, sub if bv.is_c(sub) else "sym"))


@handler("xgetbv")
def h_xgetbv(ex, st, insn, ops):
    idx = bv.extract(st.r["rcx"], 31, 0)
    f = getattr(ex, "xgetbv_model", None)
    if f is None or not bv.is_c(idx):
        raise Unsupported("xgetbv without model")
    lo, hi = f(st, idx)
    st.r["rax"], st.r["rdx"] = bv.zext(32, 64, lo), bv.zext(32, 64, hi)
    st.cpuid_log.append(("xgetbv", idx, None))


from . import vecops  # noqa: E402,F401  (registers vector handlers)
