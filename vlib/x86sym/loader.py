"""Assemble a /repo .asm kernel with the build's flags, fix relocations with ld, disassemble with
objdump and read the allocated data sections.  Everything is regenerated per run in scratch."""
import fcntl
import os
import re
import struct
import subprocess

NASM_DEFS = ["-DAS_FEATURE_LEVEL=10", "-DHAVE_AS_KNOWS_AVX512=1"]
TEXT_BASE = 0x400000
DATA_BASE = 0x600000


class Insn:
    __slots__ = ("addr", "size", "mnem", "ops", "text", "prefix", "raw")

    def __init__(self, addr, size, mnem, ops, text, prefix, raw=b""):
        self.addr, self.size, self.mnem, self.ops, self.text, self.prefix, self.raw = addr, size, mnem, ops, text, prefix, raw

    def __repr__(self):
        return "%x: %s" % (self.addr, self.text)


class Image:
    def __init__(self):
        self.insns = {}      # addr -> Insn
        self.symbols = {}    # name -> addr
        self.addr2sym = {}   # addr -> name (globals and function-ish labels)
        self.data = {}       # addr -> byte (alloc PROGBITS, non-exec and exec both)
        self.sections = []   # (name, addr, size, flags)
        self.text_ranges = []
        self.undefined = []


def sh(cmd, **kw):
    p = subprocess.run(cmd, stdout=subprocess.PIPE, stderr=subprocess.PIPE, **kw)
    return p.returncode, p.stdout.decode("utf8", "replace"), p.stderr.decode("utf8", "replace")


def assemble(repo, relpath, outdir, extra_defs=()):
    """nasm one file -> object path (cached in outdir, lock protected)."""
    src = os.path.join(repo, relpath)
    d = os.path.dirname(relpath)
    obj = os.path.join(outdir, relpath.replace("/", "-").replace(".asm", "") + ".o")
    with open(obj + ".lock", "w") as lf:
        fcntl.flock(lf, fcntl.LOCK_EX)
        if not os.path.exists(obj):
            cmd = ["nasm", "-f", "elf64", "-I%s/include/" % repo, "-I%s/%s/" % (repo, d)] + NASM_DEFS + list(extra_defs) + [src, "-o", obj]
            rc, o, e = sh(cmd)
            if rc != 0:
                raise RuntimeError("nasm failed for %s: %s" % (relpath, e[-800:]))
    return obj


def undefined_symbols(obj):
    rc, o, e = sh(["nm", "-u", obj])
    return [l.split()[-1] for l in o.splitlines() if l.strip()]


def link(objs, out, stub_syms=()):
    """ld the objects at fixed addresses.  Undefined symbols get distinct stub addresses (a generated
    object with one 16-byte-aligned `ret` per symbol) so that a resolver's choice is observable."""
    with open(out + ".lock", "w") as lf:
        fcntl.flock(lf, fcntl.LOCK_EX)
        if os.path.exists(out):
            return out
        extra = []
        if stub_syms:
            sa = out + ".stubs.asm"
            with open(sa, "w") as fh:
                fh.write("section .stubs progbits alloc exec nowrite align=16\n")
                for s in stub_syms:
                    fh.write("global %s\nalign 16\n%s:\n ret\n" % (s, s))
            so = out + ".stubs.o"
            rc, o, e = sh(["nasm", "-f", "elf64", sa, "-o", so])
            if rc != 0:
                raise RuntimeError("stub nasm failed: " + e)
            extra = [so]
        cmd = ["ld", "-e", "0", "-Ttext=0x%x" % TEXT_BASE, "-Tdata=0x%x" % DATA_BASE,
               "--unresolved-symbols=ignore-all", "-z", "noexecstack", "-o", out] + list(objs) + extra
        rc, o, e = sh(cmd)
        if rc != 0 or not os.path.exists(out):
            raise RuntimeError("ld failed: " + e[-800:])
    return out


def read_elf_sections(path):
    b = open(path, "rb").read()
    assert b[:4] == b"\x7fELF" and b[4] == 2
    shoff = struct.unpack_from("<Q", b, 0x28)[0]
    shentsize, shnum, shstrndx = struct.unpack_from("<HHH", b, 0x3A)
    secs = []
    for i in range(shnum):
        o = shoff + i * shentsize
        name, typ, flags, addr, off, size = struct.unpack_from("<IIQQQQ", b, o)
        secs.append([name, typ, flags, addr, off, size])
    stro = secs[shstrndx][4]
    out = []
    for name, typ, flags, addr, off, size in secs:
        nm = b[stro + name:b.index(b"\0", stro + name)].decode()
        data = b[off:off + size] if typ == 1 else (b"\0" * size if typ == 8 else b"")
        out.append((nm, typ, flags, addr, size, data))
    return out


OPSPLIT = re.compile(r",(?![^\[]*\])")


def parse_disasm(elf):
    rc, o, e = sh(["objdump", "-d", "-M", "intel", "--insn-width=16", "-z", elf])
    if rc != 0:
        raise RuntimeError("objdump failed: " + e)
    insns = {}
    for line in o.splitlines():
        m = re.match(r"^\s*([0-9a-f]+):\t([0-9a-f ]+)\t(.*)$", line)
        if not m:
            continue
        addr = int(m.group(1), 16)
        size = len(m.group(2).split())
        text = m.group(3).strip()
        text = text.split("#")[0].strip()
        parts = text.split(None, 1)
        mnem = parts[0]
        rest = parts[1] if len(parts) > 1 else ""
        prefix = None
        if mnem in ("rep", "repz", "repnz", "lock", "notrack", "bnd", "data16", "cs", "ds", "es", "ss", "fs", "gs"):
            prefix = mnem
            p2 = rest.split(None, 1)
            mnem = p2[0] if p2 else ""
            rest = p2[1] if len(p2) > 1 else ""
        rest = re.sub(r"<[^>]*>", "", rest).strip()
        ops = [x.strip() for x in OPSPLIT.split(rest)] if rest else []
        insns[addr] = Insn(addr, size, mnem, ops, text, prefix, bytes(int(x, 16) for x in m.group(2).split()))
    return insns


def load(elf):
    img = Image()
    img.insns = parse_disasm(elf)
    for nm, typ, flags, addr, size, data in read_elf_sections(elf):
        if not (flags & 2) or size == 0:   # SHF_ALLOC
            continue
        img.sections.append((nm, addr, size, flags))
        if flags & 4:
            img.text_ranges.append((addr, addr + size))
        for i, by in enumerate(data):
            img.data[addr + i] = by
    rc, o, e = sh(["nm", elf])
    for l in o.splitlines():
        f = l.split()
        if len(f) == 3:
            a = int(f[0], 16)
            img.symbols[f[2]] = a
            if "." not in f[2] or f[1] in "TtDdRrBb" and not re.search(r"\.\w", f[2]):
                img.addr2sym.setdefault(a, f[2])
    return img


def build_image(repo, relpaths, scratch, tag=None, with_stubs=False, extra_defs=()):
    """Assemble + link the given repo-relative .asm files; returns Image."""
    outdir = os.path.join(scratch, "x86")
    os.makedirs(outdir, exist_ok=True)
    objs = [assemble(repo, r, outdir, extra_defs) for r in relpaths]
    tag = tag or "-".join(os.path.basename(r).replace(".asm", "") for r in relpaths)[:120]
    stubs = []
    if with_stubs:
        defined = set()
        for ob in objs:
            rc, o, e = sh(["nm", "--defined-only", ob])
            defined |= {l.split()[-1] for l in o.splitlines() if l.strip()}
        und = set()
        for ob in objs:
            und |= set(undefined_symbols(ob))
        stubs = sorted(und - defined)
    elf = link(objs, os.path.join(outdir, tag + ".elf"), stubs)
    img = load(elf)
    img.undefined = stubs
    img.objs = objs
    img.elf = elf
    return img
