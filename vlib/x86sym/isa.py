"""ISA classifier: which CPUID feature(s) does an instruction need?  Encoding class (legacy / VEX / EVEX) is
read from the machine-code bytes; sub-features from mnemonic + operand classes.  Unknown mnemonics are
reported (never silently treated as baseline)."""
import re

LEGACY_PREFIXES = {0x66, 0xF2, 0xF3, 0x2E, 0x36, 0x3E, 0x26, 0x64, 0x65, 0x67, 0xF0}

BASELINE = set("""
mov movabs movzx movsx movsxd lea push pop call ret jmp nop endbr64 xchg cmp test add adc sub sbb and or xor not neg inc dec
shl sal shr sar rol ror rcl rcr imul mul div idiv cdqe cwde cdq cqo bt bts btr btc bsf bsr clc stc cld std cpuid xgetbv
leave int3 hlt ud2 cmovo cmovno pause rdtsc prefetchnta prefetcht0 prefetcht1 prefetcht2 sfence lfence mfence movnti
shld shrd cbw cwd xadd cmpxchg bswap movs stos cmps scas lods movsb movsw movsq stosb stosw stosd stosq
""".split())
for cc in "e z ne nz b c nae ae nb nc be na a nbe l nge ge nl le ng g nle s ns o no p pe np po".split():
    BASELINE |= {"j" + cc, "set" + cc, "cmov" + cc}

SSE2 = set("""
movdqa movdqu movaps movups movapd movupd movd movq movss movsd movhps movlps movhpd movlpd movhlps movlhps movntdq movntps movntpd movnti
pxor pand pandn por xorps xorpd andps andpd andnps andnpd orps orpd
paddb paddw paddd paddq psubb psubw psubd psubq paddusb paddusw psubusb psubusw paddsb paddsw psubsb psubsw
pmullw pmulhw pmulhuw pmuludq pmaddwd psadbw pavgb pavgw pminub pmaxub pminsw pmaxsw
psllw pslld psllq psrlw psrld psrlq psraw psrad pslldq psrldq
pcmpeqb pcmpeqw pcmpeqd pcmpgtb pcmpgtw pcmpgtd
pshufd pshufhw pshuflw punpcklbw punpcklwd punpckldq punpcklqdq punpckhbw punpckhwd punpckhdq punpckhqdq
packsswb packssdw packuswb pmovmskb pextrw pinsrw shufps shufpd unpcklps unpckhps unpcklpd unpckhpd
cvtsi2sd cvtsi2ss cvttsd2si cvttss2si cvtdq2ps cvtps2dq addps addpd subps subpd mulps mulpd divps divpd sqrtps sqrtpd maskmovdqu
""".split())
SSE3 = set("lddqu movddup movshdup movsldup haddps haddpd hsubps hsubpd addsubps addsubpd".split())
SSSE3 = set("pshufb palignr phaddw phaddd phaddsw phsubw phsubd phsubsw pabsb pabsw pabsd pmaddubsw pmulhrsw psignb psignw psignd".split())
SSE41 = set("""pextrb pextrd pextrq pinsrb pinsrd pinsrq pblendvb pblendw blendps blendpd blendvps blendvpd ptest
pmovzxbw pmovzxbd pmovzxbq pmovzxwd pmovzxwq pmovzxdq pmovsxbw pmovsxbd pmovsxbq pmovsxwd pmovsxwq pmovsxdq
pmulld pmuldq pminsb pminsd pminuw pminud pmaxsb pmaxsd pmaxuw pmaxud movntdqa pcmpeqq packusdw roundps roundpd roundss roundsd
insertps extractps dpps dppd mpsadbw phminposuw""".split())
SSE42 = set("crc32 pcmpgtq pcmpistri pcmpistrm pcmpestri pcmpestrm".split())
PCLMUL = set("pclmulqdq pclmullqlqdq pclmulhqlqdq pclmullqhqdq pclmulhqhqdq".split())
BMI1 = set("andn bextr blsi blsr blsmsk".split())
BMI2 = set("bzhi mulx pdep pext rorx sarx shlx shrx".split())

# EVEX sub-feature tables (mnemonic stems)
EVEX_BW = re.compile(r"^(vmovdqu8|vmovdqu16|vpshufb|vpaddb|vpaddw|vpsubb|vpsubw|vpadds|vpaddus|vpsubs|vpsubus|vpcmp(u)?b|vpcmp(u)?w|vpcmp(eq|gt|lt|le|neq|nlt|nle)(u)?[bw]|"
                     r"vptestn?m[bw]|vpblendm[bw]|vpbroadcast[bw]|vpsllw|vpsrlw|vpsraw|vpslldq|vpsrldq|vpmovm2[bw]|vpmov[bw]2m|vpmovzxb|vpmovsxb|vpmovzxw|vpmovsxw|vpmovwb|"
                     r"vpunpck[lh]bw|vpunpck[lh]wd|vpack|vpmaddubsw|vpmaddwd|vpsadbw|vpmullw|vpmulh|vpminub|vpmaxub|vpmins[bw]|vpmaxs[bw]|vpminu[bw]|vpmaxu[bw]|vpavg|vpabs[bw]|"
                     r"vpalignr|vpextr[bw]|vpinsr[bw]|vpermw|vpermi2w|vpermt2w|vdbpsadbw|vpsllvw|vpsrlvw|vpsravw)")
EVEX_DQ = re.compile(r"^(vbroadcastf32x2|vbroadcasti32x2|vbroadcastf64x2|vbroadcasti64x2|vbroadcastf32x8|vbroadcasti32x8|vextractf64x2|vextracti64x2|vextractf32x8|vextracti32x8|"
                     r"vinsertf64x2|vinserti64x2|vinsertf32x8|vinserti32x8|vpmullq|vpmovm2[dq]|vpmov[dq]2m|vcvt\w*qq|vcvtqq|vandp[sd]|vandnp[sd]|vorp[sd]|vxorp[sd]|vrangep|vreducep|vfpclass|vpextr[dq]|vpinsr[dq])")
EVEX_CD = re.compile(r"^(vplzcnt|vpconflict|vpbroadcastm)")
EVEX_VBMI = re.compile(r"^(vpermb|vpermi2b|vpermt2b|vpmultishiftqb)")
EVEX_VBMI2 = re.compile(r"^(vpcompress[bw]|vpexpand[bw]|vpshld|vpshrd)")
EVEX_VNNI = re.compile(r"^(vpdpbusd|vpdpwssd)")
EVEX_BITALG = re.compile(r"^(vpopcnt[bw]|vpshufbitqmb)")
EVEX_VPOPCNTDQ = re.compile(r"^(vpopcnt[dq])")
AVX2_YMM_INT = re.compile(r"^vp|^vmovntdqa|^vmpsadbw")
AVX2_ANY = re.compile(r"^(vperm2i128|vpermd|vpermq|vpermps|vpermpd|vpbroadcast|vbroadcasti128|vinserti128|vextracti128|vpgather|vgather|vpsllv|vpsrlv|vpsrav|vpmaskmov|vpblendd)")
FMA = re.compile(r"^vf(n)?m(add|sub)")


def enc_class(raw):
    i = 0
    while i < len(raw) and raw[i] in LEGACY_PREFIXES:
        i += 1
    if i < len(raw) and 0x40 <= raw[i] <= 0x4F:
        i += 1
    if i >= len(raw):
        return "legacy"
    b = raw[i]
    if b == 0x62:
        return "evex"
    if b in (0xC4, 0xC5):
        return "vex"
    return "legacy"


def classify(insn):
    """-> (set of feature names, None) or (None, reason) when unknown."""
    m = insn.mnem
    txt = " ".join(insn.ops)
    enc = enc_class(insn.raw)
    has_zmm = "zmm" in txt
    has_ymm = "ymm" in txt
    if enc == "evex":
        f = {"AVX512F"}
        if not has_zmm and (has_ymm or "xmm" in txt):
            f.add("AVX512VL")
        if EVEX_BW.match(m):
            f.add("AVX512BW")
        if EVEX_DQ.match(m):
            f.add("AVX512DQ")
        if EVEX_CD.match(m):
            f.add("AVX512CD")
        if EVEX_VBMI2.match(m):
            f.add("AVX512_VBMI2")
        elif EVEX_VBMI.match(m):
            f.add("AVX512_VBMI")
        if EVEX_VNNI.match(m):
            f.add("AVX512_VNNI")
        if EVEX_BITALG.match(m):
            f.add("AVX512_BITALG")
        elif EVEX_VPOPCNTDQ.match(m):
            f.add("AVX512_VPOPCNTDQ")
        if "gf2p8" in m:
            f.add("GFNI")
        if m.startswith("vpclmul"):
            f.add("VPCLMULQDQ")
        if m.startswith("vaes"):
            f.add("VAES")
        return f, None
    if enc == "vex":
        if re.match(r"^k(mov|test|ortest|or|and|andn|xor|xnor|not|shiftl|shiftr|add|unpck)", m):
            sfx = m[-1]
            if m.startswith("kunpck"):
                return {"AVX512F" if m == "kunpckbw" else "AVX512BW"}, None
            if sfx in "qd":
                return {"AVX512F", "AVX512BW"}, None
            if sfx == "b" or m.startswith("ktest") or m.startswith("kadd"):
                return {"AVX512F", "AVX512DQ"}, None
            return {"AVX512F"}, None
        if m in BMI1:
            return {"BMI1"}, None
        if m in BMI2:
            return {"BMI2"}, None
        if m == "vzeroupper" or m == "vzeroall":
            return {"AVX"}, None
        f = {"AVX"}
        if FMA.match(m):
            f.add("FMA")
        if "gf2p8" in m:
            f.add("GFNI")
        if m.startswith("vpclmul"):
            f.add("VPCLMULQDQ" if has_ymm else "PCLMULQDQ")
        if m.startswith("vaes"):
            f.add("VAES" if has_ymm else "AES")
        avx1_ymm = m in ("vptest", "vpermilps", "vpermilpd", "vperm2f128", "vtestps", "vtestpd")
        if AVX2_ANY.match(m) or (has_ymm and AVX2_YMM_INT.match(m) and not m.startswith("vpclmul") and not avx1_ymm):
            f.add("AVX2")
        if not m.startswith("v"):
            return None, "VEX-encoded instruction with unexpected mnemonic %s" % m
        return f, None
    # legacy encodings
    if m in BASELINE or m in SSE2:
        return set(), None
    if m in SSE3:
        return {"SSE3"}, None
    if m in SSSE3:
        return {"SSSE3"}, None
    if m in SSE41:
        return {"SSE4_1"}, None
    if m in SSE42:
        return {"SSE4_2"}, None
    if m in PCLMUL:
        return {"PCLMULQDQ"}, None
    if m == "popcnt":
        return {"POPCNT"}, None
    if m == "lzcnt":
        return {"LZCNT"}, None
    if m == "tzcnt":
        # legacy-encoded TZCNT is REP BSF: it executes on every x86-64 CPU and gives the same result for a
        # non-zero operand; ISA-L relies on this in its baseline code paths (recorded as an assumption)
        return set(), None
    if m == "movbe":
        return {"MOVBE"}, None
    if m.startswith("aes"):
        return {"AES"}, None
    if "gf2p8" in m:
        return {"GFNI"}, None
    return None, "unclassified mnemonic %s (%s)" % (m, insn.text)
