"""Call set-up for kernels (SysV ABI), native cross-validation of the interpreter, result helpers."""
import os
import subprocess
import z3
from . import bv
from .interp import Exec, RET_SENTINEL
from .machine import State, Region, Violation, Unsupported

ARGREGS = ["rdi", "rsi", "rdx", "rcx", "r8", "r9"]
CALLEE_SAVED = ["rbx", "rbp", "r12", "r13", "r14", "r15"]
STACK_TOP = 0x7FFE00100000
STACK_SIZE = 0x10000
REGION_STRIDE = 0x10000000
REGION_BASE = 0x100000000000   # far above the (randomised, up to +1 GiB) brk heap of the native driver


class Setup:
    """Describes one call: regions (name, size, r/w, initial bytes, placement offset) and integer args."""

    def __init__(self, img, func, guard=None):
        self.img = img
        self.func = func
        self.guard = guard  # None | "hi" | "lo": native guard-page placement for crash replay
        self.regions = []   # dict(name, base, size, r, w, init)
        self.args = []
        self._n = 0

    def region(self, name, size, r=True, w=False, init=None, offset=0, pad=0):
        """init: list of byte values / None.  Region is placed at a fresh base + offset (alignment sweep)."""
        self._n += 1
        base = REGION_BASE + REGION_STRIDE * self._n + offset
        g = 0
        if self.guard == "hi" and size:
            base = REGION_BASE + REGION_STRIDE * self._n + 0x100000 - size
            g = 1
        elif self.guard == "lo" and size:
            base = REGION_BASE + REGION_STRIDE * self._n + 0x100000
            g = 2
        self.regions.append(dict(name=name, base=base, size=size, r=r, w=w, init=init, guard=g))
        return base

    def initial_state(self):
        st = State(self.img)
        for rg in self.regions:
            st.mem.add_region(Region(rg["name"], rg["base"], rg["size"], rg["r"], rg["w"]), rg["init"])
        sp = STACK_TOP - 0x1000 - 8   # SysV: rsp+8 is 16-byte aligned at function entry
        stack = Region("stack", STACK_TOP - STACK_SIZE, STACK_SIZE, True, True, kind="stack")
        st.mem.add_region(stack, None)
        for i in range(0x1000):
            st.mem.b[sp + i] = 0
        for i, b in enumerate(bv.split_bytes(64, RET_SENTINEL)):
            st.mem.b[sp + i] = b
        st.r["rsp"] = sp
        for i, a in enumerate(self.args):
            st.r[ARGREGS[i]] = a if not bv.is_c(a) else a & bv.mask(64)
        # callee-saved and scratch registers get distinctive concrete junk
        for i, r in enumerate(CALLEE_SAVED):
            st.r[r] = 0xC0DE000000000000 + 0x1111 * (i + 1)
        for r in ("rax", "r10", "r11"):
            st.r[r] = 0xDEAD00000000BEEF
        for r in ARGREGS[len(self.args):]:
            st.r[r] = 0xDEAD0000000000AA
        st.pc = self.img.symbols[self.func]
        self.entry_sp = sp
        self.saved = {r: st.r[r] for r in CALLEE_SAVED}
        return st

    def abi_check(self, st):
        """after ret: rsp restored, callee-saved registers intact"""
        if st.r["rsp"] != self.entry_sp + 8:
            return "rsp not restored (0x%x vs 0x%x)" % (st.r["rsp"] if bv.is_c(st.r["rsp"]) else -1, self.entry_sp + 8)
        for r in CALLEE_SAVED:
            v = st.r[r]
            if not bv.is_c(v) or v != self.saved[r]:
                return "callee-saved %s clobbered" % r
        return None


def region_bytes(st, rg):
    return [st.mem.b.get(rg["base"] + i) for i in range(rg["size"])]


# ---------------------------------------------------------------------------- native validation

DRIVER_C = r'''
#include <stdio.h>
#include <stdlib.h>
#include <string.h>
#include <stdint.h>
#define _GNU_SOURCE
#include <sys/mman.h>
#ifndef MAP_FIXED_NOREPLACE
#define MAP_FIXED_NOREPLACE 0x100000
#endif
typedef uint64_t (*fn6)(uint64_t,uint64_t,uint64_t,uint64_t,uint64_t,uint64_t);
%(externs)s
static struct { const char *n; void *f; } tab[] = { %(table)s {0,0} };
int main(void) {
    char name[256]; int nargs, nreg; uint64_t a[6] = {0};
    while (scanf("%%255s %%d", name, &nargs) == 2) {
        for (int i = 0; i < nargs; i++) scanf("%%lx", &a[i]);
        scanf("%%d", &nreg);
        uint64_t base[32], size[32];
        for (int r = 0; r < nreg; r++) {
            int guard = 0;
            scanf("%%lx %%lu %%d", &base[r], &size[r], &guard);
            uint64_t pb = (base[r] & ~4095ull) - 4096, pe = ((base[r] + size[r] + 4095 + 64) & ~4095ull) + 4096;
            if (guard == 1) pe = base[r] + size[r] + 4096;
            void *p = mmap((void*)pb, pe - pb, PROT_READ|PROT_WRITE, MAP_PRIVATE|MAP_ANONYMOUS|MAP_FIXED_NOREPLACE, -1, 0);
            if (p != (void*)pb) { printf("ERR mmap %%lx %%lx\n", pb, pe); perror("mmap"); return 2; }
            memset(p, 0xEE, pe - pb);
            for (uint64_t i = 0; i < size[r]; i++) { unsigned v; scanf("%%2x", &v); ((uint8_t*)base[r])[i] = v; }
            if (guard == 1) mprotect((void*)(base[r] + size[r]), 4096, PROT_NONE);
            if (guard == 2) mprotect((void*)(base[r] - 4096), 4096, PROT_NONE);
        }
        void *f = 0;
        for (int i = 0; tab[i].n; i++) if (!strcmp(tab[i].n, name)) f = tab[i].f;
        if (!f) { printf("ERR nosym %%s\n", name); return 2; }
        uint64_t rax = ((fn6)f)(a[0],a[1],a[2],a[3],a[4],a[5]);
        printf("RAX %%lx\n", rax);
        for (int r = 0; r < nreg; r++) {
            printf("R ");
            for (uint64_t i = 0; i < size[r]; i++) printf("%%02x", ((uint8_t*)base[r])[i]);
            printf("\n");
        }
        fflush(stdout);
    }
    return 0;
}
'''


def build_native_driver(img, funcs, outdir, tag):
    import fcntl
    os.makedirs(outdir, exist_ok=True)
    exe = os.path.join(outdir, "native_%s" % tag)
    lf = open(exe + ".lock", "w")
    fcntl.flock(lf, fcntl.LOCK_EX)
    if os.path.exists(exe):
        return exe
    src = exe + ".c"
    with open(src, "w") as fh:
        fh.write(DRIVER_C % dict(externs="\n".join("extern void %s(void);" % f for f in funcs),
                                 table=" ".join('{"%s",(void*)%s},' % (f, f) for f in funcs)))
    objs = list(img.objs)
    extra = []
    if img.undefined:
        # give undefined symbols dummy definitions so the link succeeds (never called in validation)
        stub = exe + "_undef.c"
        with open(stub, "w") as fh:
            for s in img.undefined:
                fh.write("void %s(void){}\n" % s)
        extra = [stub]
    cmd = ["gcc", "-O1", "-no-pie", "-w", src] + extra + objs + ["-o", exe]
    p = subprocess.run(cmd, stdout=subprocess.PIPE, stderr=subprocess.PIPE)
    if p.returncode != 0:
        raise RuntimeError("native driver build failed: " + p.stderr.decode()[-1500:])
    return exe


def run_native(exe, func, args, regions):
    """regions: list of dict(base,size,init=list of ints). returns (rax, [bytes per region])"""
    lines = ["%s %d %s" % (func, len(args), " ".join("%x" % (a & bv.mask(64)) for a in args)), str(len(regions))]
    for rg in regions:
        lines.append("%x %d %d %s" % (rg["base"], rg["size"], rg.get("guard", 0), "".join("%02x" % b for b in rg["init"])))
    for attempt in range(4):
        p = subprocess.run([exe], input=("\n".join(lines) + "\n").encode(), stdout=subprocess.PIPE, stderr=subprocess.PIPE, timeout=60)
        out = p.stdout.decode().splitlines()
        if out and out[0].startswith("ERR mmap"):   # transient ENOMEM under load: retry
            import time as _t
            _t.sleep(0.5 * (attempt + 1))
            continue
        break
    if p.returncode in (-11, -7):
        return None, "CRASH signal %d" % -p.returncode
    if p.returncode != 0 or not out or not out[0].startswith("RAX"):
        return None, "native run failed rc=%s out=%s err=%s" % (p.returncode, out[:2], p.stderr.decode()[-300:])
    rax = int(out[0].split()[1], 16)
    regs = []
    for l in out[1:]:
        h = l[2:].strip()
        regs.append([int(h[i:i + 2], 16) for i in range(0, len(h), 2)])
    return rax, regs


def validate_concrete(img, setup, native_exe, ret_bits=32):
    """Run interpreter on fully concrete inputs and compare with native execution.
    Returns (ok, message)."""
    ex = Exec(img)
    st = setup.initial_state()
    finals = ex.run(st)
    if len(finals) != 1:
        return False, "concrete run produced %d paths" % len(finals)
    fst, out = finals[0]
    if out != "ret":
        # a memory-safety violation on concrete data: not a translator problem; the symbolic run reports it
        return None, "concrete run ended with %s" % out
    rax, regs = run_native(native_exe, setup.func, setup.args, setup.regions)
    if rax is None:
        return False, regs
    mine = fst.r["rax"]
    if ret_bits and (mine & bv.mask(ret_bits)) != (rax & bv.mask(ret_bits)):
        return False, "return value differs: interp %x native %x" % (mine, rax)
    for rg, nb in zip(setup.regions, regs):
        ib = region_bytes(fst, rg)
        if ib != nb:
            for i, (x, y) in enumerate(zip(ib, nb)):
                if x != y:
                    return False, "region %s byte %d differs: interp %s native %s" % (rg["name"], i, x, y)
    return True, "ok"


def native_crash_replay(mk_setup, exe):
    """mk_setup(guard) -> Setup with concrete inputs; True if the native run faults with the data
    regions placed against an inaccessible page (end-aligned, then start-aligned)."""
    logs = []
    for g in ("hi", "lo"):
        s = mk_setup(g)
        rax, info = run_native(exe, s.func, s.args, s.regions)
        logs.append("%s: %s" % (g, info if rax is None else "no fault, rax=%x" % rax))
        if rax is None and isinstance(info, str) and info.startswith("CRASH"):
            return True, "; ".join(logs)
    return False, "; ".join(logs)


def smt_check(conds):
    """Decide satisfiability of the conjunction with a fresh QF_BV solver (assert, not assume).
    Returns (z3 result, model or None)."""
    s = z3.SolverFor("QF_BV")
    s.add(*conds)
    r = s.check()
    return r, (s.model() if r == z3.sat else None)
