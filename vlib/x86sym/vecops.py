"""SSE/AVX/AVX2/AVX-512/GFNI/PCLMUL semantics (from the Intel SDM pseudo-code) on byte lists."""
import z3
from . import bv
from .interp import handler, HANDLERS, rd, wr, set_zsp
from .machine import Violation, Unsupported

ALIGNED_MOVES = {"movdqa", "movaps", "movapd", "vmovdqa", "vmovdqa32", "vmovdqa64", "vmovaps", "vmovapd",
                 "movntdq", "vmovntdq", "movntdqa", "vmovntdqa", "movntps", "vmovntps"}
UNALIGNED_OK_LEGACY = {"movdqu", "movups", "movupd", "lddqu", "movq", "movd", "movss", "movsd", "movhps", "movlps",
                       "pinsrb", "pinsrw", "pinsrd", "pinsrq", "pextrb", "pextrw", "pextrd", "pextrq",
                       "pmovzxbd", "pmovzxbw", "pmovzxbq", "pmovzxwd", "pmovzxwq", "pmovzxdq", "crc32"}


def is_legacy(insn):
    return not insn.mnem.startswith("v")


def check_align(insn, o, addr, n):
    if insn.mnem in ALIGNED_MOVES:
        if addr % n:
            raise Violation("misaligned", "%s requires %d-byte alignment, address 0x%x" % (insn.mnem, n, addr), insn)
    elif is_legacy(insn) and n == 16 and insn.mnem not in UNALIGNED_OK_LEGACY:
        if addr % 16:
            raise Violation("misaligned", "legacy-SSE %s with m128 operand requires 16-byte alignment, address 0x%x" % (insn.mnem, addr), insn)


def kbits(st, kidx, nelem):
    """list of nelem booleans (or z3 Bool) from mask register"""
    kv = st.k[kidx]
    return [bv.bit(kv, i) for i in range(nelem)]


def vsrc(ex, st, o, insn, nbytes, elem=None, active=None):
    """bytes of a vector source operand (register, memory, broadcast memory)"""
    if o.kind == "v":
        return st.v[o.vidx][:nbytes]
    if o.kind == "m":
        addr = st.ea(o, insn)
        if o.bcst:
            es = o.size
            one = st.mem.load(addr, es, insn)
            return one * (nbytes // es)
        n = o.size or nbytes
        check_align(insn, o, addr, n)
        bact = None
        if active is not None:
            if not all(bv.b_is_c(a) for a in active):
                raise Unsupported("masked load with symbolic mask")
            bact = [active[i // elem] for i in range(n)]
        b = st.mem.load(addr, n, insn, bact)
        return b + [0] * (nbytes - n)
    raise Unsupported("vector source kind %s in %r" % (o.kind, insn))


def vdst(ex, st, o, insn, res, elem=1, legacy=None):
    """write result bytes to destination with masking / upper-zeroing rules"""
    if legacy is None:
        legacy = is_legacy(insn)
    n = len(res)
    if o.kind == "v":
        old = st.v[o.vidx]
        if o.kmask:
            act = kbits(st, o.kmask, n // elem)
            out = []
            for i in range(n):
                a = act[i // elem]
                if bv.b_is_c(a):
                    out.append(res[i] if a else (0 if o.zeroing else old[i]))
                else:
                    out.append(bv.ite(a, 8, res[i], 0 if o.zeroing else old[i]))
            res = out
        if legacy:
            st.v[o.vidx] = list(res) + old[n:]
        else:
            st.v[o.vidx] = list(res) + [0] * (64 - n)
    elif o.kind == "m":
        addr = st.ea(o, insn)
        check_align(insn, o, addr, n)
        act = None
        if o.kmask:
            ka = kbits(st, o.kmask, n // elem)
            if not all(bv.b_is_c(a) for a in ka):
                raise Unsupported("masked store with symbolic mask")
            act = [ka[i // elem] for i in range(n)]
        st.mem.store(addr, list(res), insn, act)
    else:
        raise Unsupported("vector dest kind")


def vw(ops):
    """vector width in bytes of the instruction = width of first vector register operand"""
    for o in ops:
        if o.kind == "v":
            return o.width // 8
    raise Unsupported("no vector operand")


def src12(ex, st, insn, ops, n):
    """two-source convention: legacy (dst, src) -> (dst, src); VEX (dst, a, b) -> (a, b)"""
    if len(ops) == 2:
        return st.v[ops[0].vidx][:n], vsrc(ex, st, ops[1], insn, n)
    return vsrc(ex, st, ops[1], insn, n), vsrc(ex, st, ops[2], insn, n)


# ---------------------------------------------------------------- moves

ELEM_OF_MOVE = {"vmovdqu8": 1, "vmovdqu16": 2, "vmovdqu32": 4, "vmovdqu64": 8, "vmovdqa32": 4, "vmovdqa64": 8}


@handler("movdqa", "movdqu", "movaps", "movups", "movapd", "movupd", "lddqu", "movntdq", "movntdqa", "movntps",
         "vmovdqa", "vmovdqu", "vmovaps", "vmovups", "vmovapd", "vmovupd", "vmovntdq", "vmovntdqa", "vlddqu",
         "vmovdqu8", "vmovdqu16", "vmovdqu32", "vmovdqu64", "vmovdqa32", "vmovdqa64")
def h_vmov(ex, st, insn, ops):
    n = vw(ops)
    elem = ELEM_OF_MOVE.get(insn.mnem, 1)
    act = None
    if ops[0].kind == "v" and ops[0].kmask and ops[1].kind == "m":
        act = kbits(st, ops[0].kmask, n // elem)  # fault suppression on masked-off lanes
    src = vsrc(ex, st, ops[1], insn, n, elem, act)
    vdst(ex, st, ops[0], insn, src, elem)


@handler("movd", "movq", "vmovd", "vmovq")
def h_movdq(ex, st, insn, ops):
    nb = 4 if insn.mnem.endswith("d") else 8
    d, s = ops
    if d.kind == "v":
        if s.kind == "v":
            val = st.v[s.vidx][:nb]
        elif s.kind == "r":
            val = bv.split_bytes(nb * 8, bv.extract(st.r[s.reg], nb * 8 - 1, 0))
        else:
            val = st.mem.load(st.ea(s, insn), nb, insn)
        # movd/movq to xmm zero the rest of the 128 bits (and VEX the rest)
        full = val + [0] * (16 - nb)
        if is_legacy(insn):
            st.v[d.vidx] = full + st.v[d.vidx][16:]
        else:
            st.v[d.vidx] = full + [0] * 48
    elif d.kind == "r":
        v = bv.join_bytes(st.v[s.vidx][:nb])
        st.r[d.reg] = bv.zext(nb * 8, 64, v)
    else:
        st.mem.store(st.ea(d, insn), st.v[s.vidx][:nb], insn)


@handler("vzeroupper")
def h_vzeroupper(ex, st, insn, ops):
    for i in range(16):
        st.v[i] = st.v[i][:16] + [0] * 48


# ---------------------------------------------------------------- bitwise

def _bitwise(fn):
    def h(ex, st, insn, ops):
        n = vw(ops)
        a, b = src12(ex, st, insn, ops, n)
        elem = {"vpxorq": 8, "vpandq": 8, "vporq": 8, "vpandnq": 8, "vpxord": 4, "vpandd": 4, "vpord": 4, "vpandnd": 4}.get(insn.mnem, 1)
        vdst(ex, st, ops[0], insn, [fn(8, x, y) for x, y in zip(a, b)], elem)
    return h


def _pxor(ex, st, insn, ops):
    n = vw(ops)
    # idiom: xor of a register with itself = 0 regardless of contents
    if len(ops) == 2 and ops[1].kind == "v" and ops[0].vidx == ops[1].vidx:
        return vdst(ex, st, ops[0], insn, [0] * n)
    if len(ops) == 3 and ops[1].kind == "v" and ops[2].kind == "v" and ops[1].vidx == ops[2].vidx:
        return vdst(ex, st, ops[0], insn, [0] * n)
    return _bitwise(bv.xor)(ex, st, insn, ops)


for _m in ("pxor", "xorps", "xorpd", "vpxor", "vpxord", "vpxorq", "vxorps", "vxorpd"):
    HANDLERS[_m] = _pxor
for _m in ("pand", "andps", "andpd", "vpand", "vpandd", "vpandq", "vandps", "vandpd"):
    HANDLERS[_m] = _bitwise(bv.and_)
for _m in ("por", "orps", "vpor", "vpord", "vporq", "vorps"):
    HANDLERS[_m] = _bitwise(bv.or_)
for _m in ("pandn", "vpandn", "vpandnd", "vpandnq", "andnps", "vandnps"):
    HANDLERS[_m] = _bitwise(bv.andn)


@handler("vpternlogq", "vpternlogd")
def h_ternlog(ex, st, insn, ops):
    n = vw(ops)
    imm = ops[3].imm & 0xFF
    a = st.v[ops[0].vidx][:n]
    b = vsrc(ex, st, ops[1], insn, n)
    c = vsrc(ex, st, ops[2], insn, n)
    out = []
    for x, y, zz in zip(a, b, c):
        if bv.is_aff(x) or bv.is_aff(y) or bv.is_aff(zz):
            out.append(_ternlog_aff(imm, x, y, zz))
            continue
        if imm == 0x96:
            out.append(bv.xor(8, bv.xor(8, x, y), zz))
            continue
        r = 0
        for m in range(8):
            if (imm >> m) & 1:
                t = bv.and_(8, bv.and_(8, x if m & 4 else bv.not_(8, x), y if m & 2 else bv.not_(8, y)), zz if m & 1 else bv.not_(8, zz))
                r = bv.or_(8, r, t)
        out.append(r)
    vdst(ex, st, ops[0], insn, out, 8 if insn.mnem.endswith("q") else 4)


def _ternlog_aff(imm, x, y, zz):
    """bitwise ternary logic on affine bytes: allowed iff, per bit, the function restricted to the
    non-constant inputs is affine over GF(2)"""
    X, Y, Z = bv.aff_of(8, x).bits, bv.aff_of(8, y).bits, bv.aff_of(8, zz).bits
    bits = []
    for i in range(8):
        ins = [X[i], Y[i], Z[i]]
        sym = [k for k in range(3) if ins[k] not in (0, 1)]

        def f(vals):
            idx = (vals[0] << 2) | (vals[1] << 1) | vals[2]
            return (imm >> idx) & 1
        base = [v if v in (0, 1) else 0 for v in ins]
        c0 = f(base)
        coef = []
        for k in sym:
            v = list(base)
            v[k] = 1
            coef.append(f(v) ^ c0)
        # verify affinity on all assignments of the symbolic inputs
        for m in range(1 << len(sym)):
            v = list(base)
            e = c0
            for j, k in enumerate(sym):
                bit = (m >> j) & 1
                v[k] = bit
                e ^= coef[j] & bit
            if f(v) != e:
                raise bv.NonLinear("vpternlog imm %#x is not affine in its symbolic inputs" % imm)
        r = c0
        for j, k in enumerate(sym):
            if coef[j]:
                r ^= ins[k]
        bits.append(r)
    return bv.norm_aff(bv.Aff(bits))


# ---------------------------------------------------------------- lane arithmetic

def lanes(bs, k):
    return [bs[i:i + k] for i in range(0, len(bs), k)]


def _lane_arith(elem, fn):
    def h(ex, st, insn, ops):
        n = vw(ops)
        a, b = src12(ex, st, insn, ops, n)
        out = []
        for la, lb in zip(lanes(a, elem), lanes(b, elem)):
            r = fn(elem * 8, bv.join_bytes(la), bv.join_bytes(lb))
            out.extend(bv.split_bytes(elem * 8, r))
        vdst(ex, st, ops[0], insn, out, elem)
    return h


for _m, _e, _f in (("paddb", 1, bv.add), ("paddw", 2, bv.add), ("paddd", 4, bv.add), ("paddq", 8, bv.add),
                   ("psubb", 1, bv.sub), ("psubw", 2, bv.sub), ("psubd", 4, bv.sub), ("psubq", 8, bv.sub),
                   ("pmulld", 4, bv.mul)):
    HANDLERS[_m] = _lane_arith(_e, _f)
    HANDLERS["v" + _m] = _lane_arith(_e, _f)


@handler("phaddd", "vphaddd")
def h_phaddd(ex, st, insn, ops):
    n = vw(ops)
    a, b = src12(ex, st, insn, ops, n)
    out = []
    for off in range(0, n, 16):
        for src in (a, b):
            d = [bv.join_bytes(src[off + 4 * i:off + 4 * i + 4]) for i in range(4)]
            out.extend(bv.split_bytes(32, bv.add(32, d[0], d[1])))
            out.extend(bv.split_bytes(32, bv.add(32, d[2], d[3])))
    vdst(ex, st, ops[0], insn, out, 4)


def shr_bytes(src, nbits, fill):
    """logical/arithmetic right shift of a little-endian byte lane by constant nbits; `fill` = byte shifted in"""
    L = len(src)
    q, r = divmod(nbits, 8)
    ext = list(src) + [fill] * (q + 2)
    out = []
    for i in range(L):
        lo, hi = ext[i + q], ext[i + q + 1]
        if r == 0:
            out.append(lo)
        else:
            out.append(bv.or_(8, bv.lshr(8, lo, r), bv.shl(8, hi, 8 - r)))
    return out


def shl_bytes(src, nbits):
    L = len(src)
    q, r = divmod(nbits, 8)
    out = []
    for i in range(L):
        hi = src[i - q] if i - q >= 0 else 0
        lo = src[i - q - 1] if i - q - 1 >= 0 else 0
        if r == 0:
            out.append(hi)
        else:
            out.append(bv.or_(8, bv.shl(8, hi, r), bv.lshr(8, lo, 8 - r)))
    return out


def _shift_imm(elem, kind):
    def h(ex, st, insn, ops):
        n = vw(ops)
        if len(ops) == 2:
            src, cnt = st.v[ops[0].vidx][:n], ops[1]
        else:
            src, cnt = vsrc(ex, st, ops[1], insn, n), ops[2]
        if cnt.kind != "i":
            c = bv.join_bytes(vsrc(ex, st, cnt, insn, 8)[:8]) if cnt.kind == "v" else None
            if c is None or not bv.is_c(c):
                raise Unsupported("vector shift with non-constant count")
            c = c
        else:
            c = cnt.imm & 0xFF
        out = []
        for ln in lanes(src, elem):
            if any(isinstance(b, (bv.Lin, bv.LinPart)) for b in ln):
                v = bv.join_bytes(ln)
                if kind == "a":
                    raise bv.NonLinear("arithmetic shift of Z-linear value")
                r = bv.shl(elem * 8, v, c) if kind == "l" else bv.lshr(elem * 8, v, c)
                out.extend(bv.split_bytes(elem * 8, r))
                continue
            if kind == "l":
                out.extend([0] * elem if c >= elem * 8 else shl_bytes(ln, c))
            elif kind == "r":
                out.extend([0] * elem if c >= elem * 8 else shr_bytes(ln, c, 0))
            else:
                sign = bv.ashr(8, ln[-1], 7)
                cc = min(c, elem * 8 - 1) if c < elem * 8 else elem * 8
                if c >= elem * 8:
                    out.extend([sign] * elem)
                else:
                    out.extend(shr_bytes(ln, cc, sign))
        vdst(ex, st, ops[0], insn, out, elem)
    return h


for _m, _e, _k in (("psllw", 2, "l"), ("pslld", 4, "l"), ("psllq", 8, "l"), ("psrlw", 2, "r"), ("psrld", 4, "r"), ("psrlq", 8, "r"),
                   ("psraw", 2, "a"), ("psrad", 4, "a"), ("pslldq", 16, "lb"), ("psrldq", 16, "rb")):
    if _k in ("lb", "rb"):
        continue
    HANDLERS[_m] = _shift_imm(_e, _k)
    HANDLERS["v" + _m] = _shift_imm(_e, _k)


@handler("pslldq", "psrldq", "vpslldq", "vpsrldq")
def h_byteshift(ex, st, insn, ops):
    n = vw(ops)
    if len(ops) == 2:
        src, c = st.v[ops[0].vidx][:n], ops[1].imm
    else:
        src, c = vsrc(ex, st, ops[1], insn, n), ops[2].imm
    c = min(c & 0xFF, 16)
    out = []
    for ln in lanes(src, 16):
        if "sll" in insn.mnem:
            out.extend([0] * c + ln[:16 - c])
        else:
            out.extend(ln[c:] + [0] * c)
    vdst(ex, st, ops[0], insn, out)


def _sgt8(a, b):
    if bv.is_c(a) and bv.is_c(b):
        sa = a - 256 if a & 0x80 else a
        sb = b - 256 if b & 0x80 else b
        return sa > sb
    return bv.z(8, a) > bv.z(8, b)


@handler("pcmpgtb", "vpcmpgtb", "pcmpeqb", "vpcmpeqb")
def h_pcmpb(ex, st, insn, ops):
    n = vw(ops)
    if ops[0].kind == "k":
        a = vsrc(ex, st, ops[1], insn, vw(ops[1:]))
        b = vsrc(ex, st, ops[2], insn, len(a))
        bits = [(_sgt8(x, y) if "gt" in insn.mnem else bv.eq(8, x, y)) for x, y in zip(a, b)]
        return set_k_from_bools(st, ops[0], bits)
    a, b = src12(ex, st, insn, ops, n)
    out = []
    for x, y in zip(a, b):
        c = _sgt8(x, y) if "gt" in insn.mnem else bv.eq(8, x, y)
        out.append((0xFF if c else 0) if bv.b_is_c(c) else z3.If(c, z3.BitVecVal(0xFF, 8), z3.BitVecVal(0, 8)))
    vdst(ex, st, ops[0], insn, out)


def set_k_from_bools(st, kop, bits):
    if kop.kmask:
        act = kbits(st, kop.kmask, len(bits))
        bits = [bv.b_and(a, b) for a, b in zip(act, bits)]
    if all(bv.b_is_c(b) for b in bits):
        st.k[kop.vidx] = sum(int(b) << i for i, b in enumerate(bits))
    else:
        parts = [(1, bv.bool_to_bv(b, 1) if not bv.b_is_c(b) else int(b)) for b in reversed(bits)]
        if len(bits) < 64:
            parts = [(64 - len(bits), 0)] + parts
        st.k[kop.vidx] = bv.concat(parts)


@handler("vpcmpltb", "vpcmpleb", "vpcmpneqb", "vpcmpnltb", "vpcmpnleb", "vpcmpb", "vpcmpub", "vpcmpltub", "vpcmpequb")
def h_vpcmpb_k(ex, st, insn, ops):
    n = vw(ops[1:])
    a = vsrc(ex, st, ops[1], insn, n)
    b = vsrc(ex, st, ops[2], insn, n)
    m = insn.mnem
    if m in ("vpcmpb", "vpcmpub"):
        pred = ops[3].imm & 7
        uns = m == "vpcmpub"
    else:
        pred = {"eq": 0, "lt": 1, "le": 2, "neq": 4, "nlt": 5, "nle": 6}[m[5:-1].rstrip("u") if not m.endswith("ub") else m[5:-2]]
        uns = m.endswith("ub")
    bits = []
    for x, y in zip(a, b):
        if uns:
            lt = bv.ult(8, x, y)
        else:
            lt = _sgt8(y, x)
        e = bv.eq(8, x, y)
        bits.append({0: e, 1: lt, 2: bv.b_or(lt, e), 4: bv.b_not(e), 5: bv.b_not(lt), 6: bv.b_not(bv.b_or(lt, e))}[pred])
    set_k_from_bools(st, ops[0], bits)


@handler("vptestmb", "vptestnmb")
def h_vptestmb(ex, st, insn, ops):
    n = vw(ops[1:])
    a = vsrc(ex, st, ops[1], insn, n)
    b = vsrc(ex, st, ops[2], insn, n)
    bits = []
    for x, y in zip(a, b):
        nz = bv.b_not(bv.eq(8, bv.and_(8, x, y), 0))
        bits.append(nz if insn.mnem == "vptestmb" else bv.b_not(nz))
    set_k_from_bools(st, ops[0], bits)


# ---------------------------------------------------------------- shuffles / permutes / inserts

@handler("pshufb", "vpshufb")
def h_pshufb(ex, st, insn, ops):
    n = vw(ops)
    a, b = src12(ex, st, insn, ops, n)
    out = []
    for off in range(0, n, 16):
        tbl = a[off:off + 16]
        for i in range(16):
            out.append(bv.mux16(tbl, b[off + i], ex.mux_cache))
    vdst(ex, st, ops[0], insn, out, 1)


@handler("pshufd", "vpshufd")
def h_pshufd(ex, st, insn, ops):
    n = vw(ops)
    src = vsrc(ex, st, ops[1], insn, n)
    imm = ops[2].imm
    out = []
    for off in range(0, n, 16):
        for i in range(4):
            s = (imm >> (2 * i)) & 3
            out.extend(src[off + 4 * s:off + 4 * s + 4])
    vdst(ex, st, ops[0], insn, out, 4)


@handler("palignr", "vpalignr")
def h_palignr(ex, st, insn, ops):
    n = vw(ops)
    a, b = src12(ex, st, insn, ops, n)
    imm = ops[-1].imm & 0xFF
    out = []
    for off in range(0, n, 16):
        cat = b[off:off + 16] + a[off:off + 16] + [0] * 32
        out.extend(cat[imm:imm + 16] if imm < 32 else [0] * 16)
    vdst(ex, st, ops[0], insn, out)


@handler("vperm2i128", "vperm2f128")
def h_vperm2(ex, st, insn, ops):
    a = vsrc(ex, st, ops[1], insn, 32)
    b = vsrc(ex, st, ops[2], insn, 32)
    imm = ops[3].imm

    def sel(c):
        if c & 8:
            return [0] * 16
        return [a[:16], a[16:32], b[:16], b[16:32]][c & 3]
    vdst(ex, st, ops[0], insn, sel(imm & 0xF) + sel((imm >> 4) & 0xF))


@handler("vshufi64x2", "vshuff64x2", "vshufi32x4", "vshuff32x4")
def h_vshuf64x2(ex, st, insn, ops):
    n = vw(ops)
    a = vsrc(ex, st, ops[1], insn, n)
    b = vsrc(ex, st, ops[2], insn, n)
    imm = ops[3].imm
    if n == 64:
        out = []
        for i in range(4):
            src = a if i < 2 else b
            s = (imm >> (2 * i)) & 3
            out.extend(src[16 * s:16 * s + 16])
    elif n == 32:
        out = a[16 * (imm & 1):16 * (imm & 1) + 16] + b[16 * ((imm >> 1) & 1):16 * ((imm >> 1) & 1) + 16]
    else:
        raise Unsupported("vshuf width")
    vdst(ex, st, ops[0], insn, out, 8 if "64x2" in insn.mnem else 4)


@handler("vinserti128", "vinsertf128", "vinserti32x4", "vinserti64x2", "vinserti32x8", "vinserti64x4", "vinsertf32x4", "vinsertf64x4")
def h_vinsert(ex, st, insn, ops):
    n = vw(ops)
    a = vsrc(ex, st, ops[1], insn, n)
    chunk = 32 if ("x8" in insn.mnem or "x4" in insn.mnem and "64" in insn.mnem) else 16
    b = vsrc(ex, st, ops[2], insn, chunk)
    imm = ops[3].imm & (n // chunk - 1)
    out = list(a)
    out[chunk * imm:chunk * imm + chunk] = b
    vdst(ex, st, ops[0], insn, out, 4)


@handler("vextracti128", "vextractf128", "vextracti32x4", "vextracti64x2", "vextracti32x8", "vextracti64x4", "vextractf64x4", "vextractf32x4")
def h_vextract(ex, st, insn, ops):
    chunk = 32 if ("x8" in insn.mnem or "x4" in insn.mnem and "64" in insn.mnem) else 16
    src = st.v[ops[1].vidx]
    n = ops[1].width // 8
    imm = ops[2].imm & (n // chunk - 1)
    res = src[chunk * imm:chunk * imm + chunk]
    if ops[0].kind == "v":
        vdst(ex, st, ops[0], insn, res, 4, legacy=False)
    else:
        st.mem.store(st.ea(ops[0], insn), res, insn)


@handler("vbroadcastf128", "vbroadcasti128", "vbroadcasti32x4", "vbroadcastf32x4", "vbroadcasti64x2", "vbroadcastf64x2")
def h_vbcast128(ex, st, insn, ops):
    n = vw(ops)
    src = vsrc(ex, st, ops[1], insn, 16) if ops[1].kind == "v" else st.mem.load(st.ea(ops[1], insn), 16, insn)
    vdst(ex, st, ops[0], insn, src * (n // 16), 4)


@handler("vbroadcastsd", "vbroadcastf32x2", "vbroadcasti32x2", "vpbroadcastq")
def h_vbcast64(ex, st, insn, ops):
    n = vw(ops)
    s = ops[1]
    if s.kind == "v":
        src = st.v[s.vidx][:8]
    elif s.kind == "r":
        src = bv.split_bytes(64, st.r[s.reg])
    else:
        src = st.mem.load(st.ea(s, insn), 8, insn)
    vdst(ex, st, ops[0], insn, src * (n // 8), 8 if insn.mnem in ("vbroadcastsd", "vpbroadcastq") else 4)


@handler("vbroadcastss", "vpbroadcastd")
def h_vbcast32(ex, st, insn, ops):
    n = vw(ops)
    s = ops[1]
    if s.kind == "v":
        src = st.v[s.vidx][:4]
    elif s.kind == "r":
        src = bv.split_bytes(32, bv.extract(st.r[s.reg], 31, 0))
    else:
        src = st.mem.load(st.ea(s, insn), 4, insn)
    vdst(ex, st, ops[0], insn, src * (n // 4), 4)


@handler("vpbroadcastb", "vpbroadcastw")
def h_vpbcastb(ex, st, insn, ops):
    n = vw(ops)
    e = 1 if insn.mnem.endswith("b") else 2
    s = ops[1]
    if s.kind == "v":
        src = st.v[s.vidx][:e]
    elif s.kind == "r":
        src = bv.split_bytes(8 * e, bv.extract(st.r[s.reg], 8 * e - 1, 0))
    else:
        src = st.mem.load(st.ea(s, insn), e, insn)
    vdst(ex, st, ops[0], insn, src * (n // e), e)


@handler("pinsrb", "pinsrw", "pinsrd", "pinsrq", "vpinsrb", "vpinsrw", "vpinsrd", "vpinsrq")
def h_pinsr(ex, st, insn, ops):
    e = {"b": 1, "w": 2, "d": 4, "q": 8}[insn.mnem[-1]]
    if len(ops) == 3:
        base, s, imm = st.v[ops[0].vidx][:16], ops[1], ops[2].imm
    else:
        base, s, imm = st.v[ops[1].vidx][:16], ops[2], ops[3].imm
    if s.kind == "r":
        val = bv.split_bytes(8 * e, bv.extract(st.r[s.reg], 8 * e - 1, 0))
    else:
        val = st.mem.load(st.ea(s, insn), e, insn)
    idx = imm & (16 // e - 1)
    out = list(base)
    out[idx * e:idx * e + e] = val
    vdst(ex, st, ops[0], insn, out)


@handler("pextrb", "pextrw", "pextrd", "pextrq", "vpextrb", "vpextrw", "vpextrd", "vpextrq")
def h_pextr(ex, st, insn, ops):
    e = {"b": 1, "w": 2, "d": 4, "q": 8}[insn.mnem[-1]]
    idx = ops[2].imm & (16 // e - 1)
    val = st.v[ops[1].vidx][idx * e:idx * e + e]
    if ops[0].kind == "r":
        st.r[ops[0].reg] = bv.zext(8 * e, 64, bv.join_bytes(val))
    else:
        st.mem.store(st.ea(ops[0], insn), val, insn)


@handler("pmovzxbd", "vpmovzxbd", "pmovzxbw", "vpmovzxbw", "pmovzxwd", "vpmovzxwd", "pmovzxbq", "vpmovzxbq", "pmovzxdq", "vpmovzxdq")
def h_pmovzx(ex, st, insn, ops):
    n = vw(ops)
    sz = {"b": 1, "w": 2, "d": 4, "q": 8}
    se, de = sz[insn.mnem[-2]], sz[insn.mnem[-1]]
    cnt = n // de
    s = ops[1]
    src = st.v[s.vidx][:cnt * se] if s.kind == "v" else st.mem.load(st.ea(s, insn), cnt * se, insn)
    out = []
    for i in range(cnt):
        out.extend(src[i * se:i * se + se] + [0] * (de - se))
    vdst(ex, st, ops[0], insn, out, de)


@handler("pblendvb", "vpblendvb")
def h_pblendvb(ex, st, insn, ops):
    n = vw(ops)
    if insn.mnem == "pblendvb":
        a = st.v[ops[0].vidx][:16]
        b = vsrc(ex, st, ops[1], insn, 16)
        m = st.v[0][:16]  # implicit xmm0
    else:
        a = vsrc(ex, st, ops[1], insn, n)
        b = vsrc(ex, st, ops[2], insn, n)
        m = st.v[ops[3].vidx][:n]
    out = []
    for x, y, mm in zip(a, b, m):
        out.append(bv.ite(bv.bit(mm, 7), 8, y, x))
    vdst(ex, st, ops[0], insn, out)


@handler("vpblendmb", "vpblendmw", "vpblendmd", "vpblendmq")
def h_vpblendm(ex, st, insn, ops):
    n = vw(ops)
    e = {"b": 1, "w": 2, "d": 4, "q": 8}[insn.mnem[-1]]
    a = vsrc(ex, st, ops[1], insn, n)
    b = vsrc(ex, st, ops[2], insn, n)
    d = ops[0]
    if not d.kmask:
        res = b
    else:
        act = kbits(st, d.kmask, n // e)
        res = []
        for i in range(n):
            res.append(bv.ite(act[i // e], 8, b[i], 0 if d.zeroing else a[i]))
    st.v[d.vidx] = list(res) + [0] * (64 - n)


# ---------------------------------------------------------------- masks, tests

@handler("kmovq", "kmovd", "kmovw", "kmovb")
def h_kmov(ex, st, insn, ops):
    w = {"q": 64, "d": 32, "w": 16, "b": 8}[insn.mnem[-1]]
    d, s = ops
    if s.kind == "k":
        v = bv.extract(st.k[s.vidx], w - 1, 0)
    elif s.kind == "r":
        v = bv.extract(st.r[s.reg], w - 1, 0)
    else:
        v = bv.join_bytes(st.mem.load(st.ea(s, insn), w // 8, insn))
    v = bv.zext(w, 64, v)
    if d.kind == "k":
        st.k[d.vidx] = v
    elif d.kind == "r":
        st.r[d.reg] = v
    else:
        st.mem.store(st.ea(d, insn), bv.split_bytes(w, bv.extract(v, w - 1, 0)), insn)


@handler("ktestq", "ktestd", "ktestw", "ktestb", "kortestq", "kortestd", "kortestw", "kortestb")
def h_ktest(ex, st, insn, ops):
    w = {"q": 64, "d": 32, "w": 16, "b": 8}[insn.mnem[-1]]
    a = bv.extract(st.k[ops[0].vidx], w - 1, 0)
    b = bv.extract(st.k[ops[1].vidx], w - 1, 0)
    if insn.mnem.startswith("ktest"):
        st.fl.zf = bv.eq(w, bv.and_(w, a, b), 0)
        st.fl.cf = bv.eq(w, bv.andn(w, a, b), 0)
    else:
        o = bv.or_(w, a, b)
        st.fl.zf = bv.eq(w, o, 0)
        st.fl.cf = bv.eq(w, o, bv.mask(w))
    st.fl.sf = st.fl.of = st.fl.pf = False


@handler("knotq", "knotd", "knotw", "knotb")
def h_knot(ex, st, insn, ops):
    w = {"q": 64, "d": 32, "w": 16, "b": 8}[insn.mnem[-1]]
    st.k[ops[0].vidx] = bv.zext(w, 64, bv.not_(w, bv.extract(st.k[ops[1].vidx], w - 1, 0)))


@handler("kshiftrq", "kshiftlq", "kshiftrd", "kshiftld", "kshiftrw", "kshiftlw")
def h_kshift(ex, st, insn, ops):
    w = {"q": 64, "d": 32, "w": 16, "b": 8}[insn.mnem[-1]]
    v = bv.extract(st.k[ops[1].vidx], w - 1, 0)
    n = ops[2].imm & 0xFF
    r = bv.lshr(w, v, n) if "shiftr" in insn.mnem else bv.shl(w, v, n)
    st.k[ops[0].vidx] = bv.zext(w, 64, r)


@handler("pmovmskb", "vpmovmskb")
def h_pmovmskb(ex, st, insn, ops):
    n = ops[1].width // 8
    src = st.v[ops[1].vidx][:n]
    bits = [bv.bit(b, 7) for b in src]
    if all(bv.b_is_c(b) for b in bits):
        v = sum(int(b) << i for i, b in enumerate(bits))
    else:
        parts = [(1, bv.bool_to_bv(b, 1) if not bv.b_is_c(b) else int(b)) for b in reversed(bits)]
        v = bv.concat([(64 - n, 0)] + parts)
    st.r[ops[0].reg] = v


def _all_zero(bs):
    """bool: all bytes zero"""
    cs = [b for b in bs if bv.is_c(b)]
    if any(c != 0 for c in cs):
        return False
    sy = [b for b in bs if not bv.is_c(b)]
    if not sy:
        return True
    return z3.And(*[b == 0 for b in sy]) if len(sy) > 1 else sy[0] == 0


@handler("ptest", "vptest")
def h_ptest(ex, st, insn, ops):
    n = vw(ops)
    a = st.v[ops[0].vidx][:n]
    b = vsrc(ex, st, ops[1], insn, n)
    st.fl.zf = _all_zero([bv.and_(8, x, y) for x, y in zip(a, b)])
    st.fl.cf = _all_zero([bv.andn(8, x, y) for x, y in zip(a, b)])
    st.fl.sf = st.fl.of = st.fl.pf = False


# ---------------------------------------------------------------- carry-less multiply, GFNI

def _clmul(ex, st, insn, ops, sel_a, sel_b):
    n = vw(ops)
    a, b = src12(ex, st, insn, ops, n)
    out = []
    for off in range(0, n, 16):
        x = bv.join_bytes(a[off + 8 * sel_a:off + 8 * sel_a + 8])
        y = bv.join_bytes(b[off + 8 * sel_b:off + 8 * sel_b + 8])
        out.extend(bv.split_bytes(128, bv.clmul64(x, y)))
    vdst(ex, st, ops[0], insn, out)


for _name, (_sa, _sb) in {"lqlq": (0, 0), "hqlq": (1, 0), "lqhq": (0, 1), "hqhq": (1, 1)}.items():
    def _mk(sa, sb):
        return lambda ex, st, insn, ops: _clmul(ex, st, insn, ops, sa, sb)
    HANDLERS["pclmul%sdq" % _name] = _mk(_sa, _sb)
    HANDLERS["vpclmul%sdq" % _name] = _mk(_sa, _sb)


@handler("pclmulqdq", "vpclmulqdq")
def h_pclmulqdq(ex, st, insn, ops):
    imm = ops[-1].imm
    _clmul(ex, st, insn, ops[:-1], imm & 1, (imm >> 4) & 1)


def affine_byte(matrix_bytes, x, imm):
    """GF2P8AFFINEQB for one byte: matrix_bytes = 8 little-endian bytes of the qword; bit i =
    parity(matrix.byte[7-i] AND x) XOR imm.bit[i]"""
    if all(bv.is_c(m) for m in matrix_bytes) and bv.is_c(x):
        r = 0
        for i in range(8):
            r |= (bin(matrix_bytes[7 - i] & x).count("1") & 1) << i
        return r ^ imm
    bits = []
    for i in range(8):
        t = bv.and_(8, matrix_bytes[7 - i], x)
        if bv.is_c(t):
            bits.append((1, bin(t).count("1") & 1))
            continue
        p = None
        for j in range(8):
            bj = bv.extract(t, j, j)
            p = bj if p is None else bv.xor(1, p, bj)
        bits.append((1, p))
    r = bv.concat(list(reversed(bits)))
    return bv.xor(8, r, imm)


@handler("gf2p8affineqb", "vgf2p8affineqb")
def h_gfaffine(ex, st, insn, ops):
    n = vw(ops)
    imm = ops[-1].imm & 0xFF
    if len(ops) == 3:
        x, A = st.v[ops[0].vidx][:n], vsrc(ex, st, ops[1], insn, n)
    else:
        x, A = vsrc(ex, st, ops[1], insn, n), vsrc(ex, st, ops[2], insn, n)
    out = []
    for q in range(n // 8):
        mb = A[8 * q:8 * q + 8]
        for j in range(8):
            out.append(affine_byte(mb, x[8 * q + j], imm))
    vdst(ex, st, ops[0], insn, out, 1)


# ---------------------------------------------------------------- igzip encode kernels: variable shifts, gathers, blends

def _var_shift(elem, left):
    def h(ex, st, insn, ops):
        n = vw(ops)
        a = vsrc(ex, st, ops[1], insn, n)
        c = vsrc(ex, st, ops[2], insn, n)
        out = []
        for la, lc in zip(lanes(a, elem), lanes(c, elem)):
            cnt = bv.join_bytes(lc)
            if bv.is_c(cnt):
                if cnt >= elem * 8:
                    out.extend([0] * elem)
                else:
                    out.extend(shl_bytes(la, cnt) if left else shr_bytes(la, cnt, 0))
            else:
                v = bv.z(elem * 8, bv.join_bytes(la))
                cz = bv.z(elem * 8, cnt)
                r = z3.If(z3.UGE(cz, elem * 8), z3.BitVecVal(0, elem * 8), (v << cz) if left else z3.LShR(v, cz))
                out.extend(bv.split_bytes(elem * 8, r))
        vdst(ex, st, ops[0], insn, out, elem)
    return h


HANDLERS["vpsllvq"] = _var_shift(8, True)
HANDLERS["vpsrlvq"] = _var_shift(8, False)
HANDLERS["vpsllvd"] = _var_shift(4, True)
HANDLERS["vpsrlvd"] = _var_shift(4, False)


@handler("vpgatherdd")
def h_vpgatherdd(ex, st, insn, ops):
    """VEX form: vpgatherdd dst, [base + idx*scale + disp], mask ; EVEX form: dst{k}, [..]"""
    import re as _re
    d = ops[0]
    n = d.width // 8
    text = insn.ops[1]
    m = _re.search(r"\[(.*)\]", text)
    base, idxreg, scale, disp = 0, None, 1, 0
    for t in m.group(1).replace("-", "+-").split("+"):
        t = t.strip()
        if not t:
            continue
        if "*" in t:
            r, sc = t.split("*")
            idxreg, scale = r.strip(), int(sc, 0)
        elif _re.match(r"^[xyz]mm\d+$", t):
            idxreg = t
        elif t in ("rax", "rcx", "rdx", "rbx", "rsp", "rbp", "rsi", "rdi") or _re.match(r"^r\d+$", t):
            b = st.r[t]
            if not bv.is_c(b):
                raise Unsupported("symbolic gather base")
            base += b
        else:
            disp += int(t.replace(" ", ""), 0)
    idx = st.v[int(idxreg[3:])]
    old = st.v[d.vidx][:n]
    out = []
    if d.kmask:
        act = kbits(st, d.kmask, n // 4)
    else:
        mreg = st.v[ops[2].vidx][:n]
        act = [bv.bit(mreg[4 * i + 3], 7) for i in range(n // 4)]
    for i in range(n // 4):
        a = act[i]
        if not bv.b_is_c(a):
            raise Unsupported("gather with symbolic mask")
        if not a:
            out.extend(old[4 * i:4 * i + 4])
            continue
        iv = bv.join_bytes(idx[4 * i:4 * i + 4])
        if not bv.is_c(iv):
            raise Unsupported("gather with symbolic index in %r" % (insn,))
        if iv & 0x80000000:
            iv -= 1 << 32
        addr = (base + disp + iv * scale) & bv.mask(64)
        out.extend(st.mem.load(addr, 4, insn))
    st.v[d.vidx] = out + [0] * (64 - n)
    if d.kmask:
        st.k[d.kmask] = 0
    else:
        st.v[ops[2].vidx] = [0] * 64


@handler("vpermq", "vpermpd")
def h_vpermq(ex, st, insn, ops):
    n = vw(ops)
    if ops[2].kind != "i":
        raise Unsupported("vpermq with vector control")
    a = vsrc(ex, st, ops[1], insn, n)
    imm = ops[2].imm
    out = []
    for blk in range(0, n, 32):
        for i in range(4):
            s_ = (imm >> (2 * i)) & 3
            out.extend(a[blk + 8 * s_:blk + 8 * s_ + 8])
    vdst(ex, st, ops[0], insn, out, 8)


def _cmp_lane(elem, kind):
    def h(ex, st, insn, ops):
        n = vw(ops)
        a, b = src12(ex, st, insn, ops, n)
        out = []
        for la, lb in zip(lanes(a, elem), lanes(b, elem)):
            x, y = bv.join_bytes(la), bv.join_bytes(lb)
            w = elem * 8
            if kind == "eq":
                c = bv.eq(w, x, y)
            else:
                if bv.is_c(x) and bv.is_c(y):
                    sx = x - (1 << w) if x >> (w - 1) else x
                    sy = y - (1 << w) if y >> (w - 1) else y
                    c = sx > sy
                else:
                    c = bv.z(w, x) > bv.z(w, y)
            if bv.b_is_c(c):
                out.extend([0xFF if c else 0] * elem)
            else:
                out.extend([z3.If(c, z3.BitVecVal(0xFF, 8), z3.BitVecVal(0, 8))] * elem)
        vdst(ex, st, ops[0], insn, out, elem)
    return h


for _m, _e, _k in (("pcmpeqq", 8, "eq"), ("pcmpeqd", 4, "eq"), ("pcmpeqw", 2, "eq"), ("pcmpgtd", 4, "gt"), ("pcmpgtq", 8, "gt"), ("pcmpgtw", 2, "gt")):
    HANDLERS[_m] = _cmp_lane(_e, _k)
    HANDLERS["v" + _m] = _cmp_lane(_e, _k)


@handler("vpblendd", "pblendw", "vpblendw")
def h_blend_imm(ex, st, insn, ops):
    n = vw(ops)
    a, b = src12(ex, st, insn, ops[:-1], n)
    imm = ops[-1].imm
    e = 4 if insn.mnem == "vpblendd" else 2
    out = []
    for i in range(n // e):
        bit = (imm >> (i % 8)) & 1 if e == 2 else (imm >> i) & 1
        out.extend((b if bit else a)[i * e:i * e + e])
    vdst(ex, st, ops[0], insn, out, e)


def _kbin(fn):
    def h(ex, st, insn, ops):
        w = {"q": 64, "d": 32, "w": 16, "b": 8}[insn.mnem[-1]]
        a = bv.extract(st.k[ops[1].vidx], w - 1, 0)
        b = bv.extract(st.k[ops[2].vidx], w - 1, 0)
        st.k[ops[0].vidx] = bv.zext(w, 64, fn(w, a, b))
    return h


for _sfx in "qdwb":
    HANDLERS["kand" + _sfx] = _kbin(bv.and_)
    HANDLERS["kor" + _sfx] = _kbin(bv.or_)
    HANDLERS["kxor" + _sfx] = _kbin(bv.xor)
    HANDLERS["kandn" + _sfx] = _kbin(bv.andn)
    HANDLERS["kxnor" + _sfx] = _kbin(lambda w, a, b: bv.not_(w, bv.xor(w, a, b)))


def _vpcmp_k(elem):
    def h(ex, st, insn, ops):
        n = vw(ops[1:])
        a = vsrc(ex, st, ops[1], insn, n)
        b = vsrc(ex, st, ops[2], insn, n)
        m = insn.mnem
        core = m[len("vpcmp"):-1]
        uns = core.endswith("u")
        core = core.rstrip("u")
        pred = {"eq": 0, "lt": 1, "le": 2, "neq": 4, "nlt": 5, "nle": 6, "gt": 6, "": None}[core]
        if pred is None:
            pred = ops[3].imm & 7
        w = elem * 8
        bits = []
        for la, lb in zip(lanes(a, elem), lanes(b, elem)):
            x, y = bv.join_bytes(la), bv.join_bytes(lb)
            if bv.is_c(x) and bv.is_c(y):
                if not uns:
                    x = x - (1 << w) if x >> (w - 1) else x
                    y = y - (1 << w) if y >> (w - 1) else y
                lt, e = x < y, x == y
            else:
                lt = z3.ULT(bv.z(w, x), bv.z(w, y)) if uns else (bv.z(w, x) < bv.z(w, y))
                e = bv.z(w, x) == bv.z(w, y)
            bits.append({0: e, 1: lt, 2: bv.b_or(lt, e), 4: bv.b_not(e), 5: bv.b_not(lt), 6: bv.b_not(bv.b_or(lt, e))}[pred])
        set_k_from_bools(st, ops[0], bits)
    return h


_old_cmp = {}
for _m in ("vpcmpgtd", "vpcmpgtq", "vpcmpeqd", "vpcmpeqq", "vpcmpgtw", "vpcmpeqw"):
    _old_cmp[_m] = HANDLERS[_m]          # VEX forms writing a vector register

for _e, _s in ((8, "q"), (4, "d"), (2, "w")):
    for _p in ("eq", "lt", "le", "neq", "nlt", "nle", "gt", ""):
        for _u in ("", "u"):
            _n = "vpcmp%s%s%s" % (_p, _u, _s)
            if _n in _old_cmp:
                continue
            HANDLERS[_n] = _vpcmp_k(_e)

for _m in list(_old_cmp):
    def _mk(m=_m):
        def h(ex, st, insn, ops):
            if ops[0].kind == "k":
                return _vpcmp_k({"d": 4, "q": 8, "w": 2}[m[-1]])(ex, st, insn, ops)
            return _old_cmp[m](ex, st, insn, ops)
        return h
    HANDLERS[_m] = _mk()


_vpermq_imm = HANDLERS["vpermq"]


@handler("vpermq", "vpermpd")
def h_vpermq2(ex, st, insn, ops):
    if ops[2].kind == "i":
        return _vpermq_imm(ex, st, insn, ops)
    n = vw(ops)
    ctl = vsrc(ex, st, ops[1], insn, n)
    src = vsrc(ex, st, ops[2], insn, n)
    out = []
    for i in range(n // 8):
        c = ctl[8 * i]
        if not bv.is_c(c):
            raise Unsupported("vpermq with symbolic control")
        s_ = c & (n // 8 - 1)
        out.extend(src[8 * s_:8 * s_ + 8])
    vdst(ex, st, ops[0], insn, out, 8)


@handler("vpscatterqq")
def h_vpscatterqq(ex, st, insn, ops):
    import re as _re
    text = insn.ops[0]
    m = _re.search(r"\[(.*)\]", text)
    base, idxreg, scale, disp = 0, None, 1, 0
    for t in m.group(1).replace("-", "+-").split("+"):
        t = t.strip()
        if not t:
            continue
        if "*" in t:
            r, sc = t.split("*")
            idxreg, scale = r.strip(), int(sc, 0)
        elif _re.match(r"^[xyz]mm\d+$", t):
            idxreg = t
        elif t in st.r:
            if not bv.is_c(st.r[t]):
                raise Unsupported("symbolic scatter base")
            base += st.r[t]
        else:
            disp += int(t.replace(" ", ""), 0)
    kreg = ops[0].kmask
    src = st.v[ops[1].vidx]
    n = ops[1].width // 8
    idx = st.v[int(idxreg[3:])]
    act = kbits(st, kreg, n // 8)
    for i in range(n // 8):
        a = act[i]
        if not bv.b_is_c(a):
            raise Unsupported("scatter with symbolic mask")
        if not a:
            continue
        iv = bv.join_bytes(idx[8 * i:8 * i + 8])
        if not bv.is_c(iv):
            raise Unsupported("scatter with symbolic index")
        addr = (base + disp + iv * scale) & bv.mask(64)
        st.mem.store(addr, src[8 * i:8 * i + 8], insn)
    st.k[kreg] = 0
