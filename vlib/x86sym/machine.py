"""Machine state, memory with access checking, operand parsing for the x86-64 symbolic interpreter."""
import re
from . import bv

GPR64 = ["rax", "rcx", "rdx", "rbx", "rsp", "rbp", "rsi", "rdi", "r8", "r9", "r10", "r11", "r12", "r13", "r14", "r15"]
REGMAP = {}
for i, r in enumerate(GPR64):
    REGMAP[r] = (r, 64, 0)
for r, e, w, l in (("rax", "eax", "ax", "al"), ("rcx", "ecx", "cx", "cl"), ("rdx", "edx", "dx", "dl"), ("rbx", "ebx", "bx", "bl"),
                   ("rsp", "esp", "sp", "spl"), ("rbp", "ebp", "bp", "bpl"), ("rsi", "esi", "si", "sil"), ("rdi", "edi", "di", "dil")):
    REGMAP[e] = (r, 32, 0)
    REGMAP[w] = (r, 16, 0)
    REGMAP[l] = (r, 8, 0)
for r, h in (("rax", "ah"), ("rcx", "ch"), ("rdx", "dh"), ("rbx", "bh")):
    REGMAP[h] = (r, 8, 8)
for i in range(8, 16):
    REGMAP["r%dd" % i] = ("r%d" % i, 32, 0)
    REGMAP["r%dw" % i] = ("r%d" % i, 16, 0)
    REGMAP["r%db" % i] = ("r%d" % i, 8, 0)

SIZEKW = {"BYTE": 1, "WORD": 2, "DWORD": 4, "QWORD": 8, "XMMWORD": 16, "YMMWORD": 32, "ZMMWORD": 64, "TBYTE": 10, "OWORD": 16, "FWORD": 6}


class Violation(Exception):
    """A property-relevant failure found while executing (out-of-range access, misalignment...)."""

    def __init__(self, kind, detail, insn=None):
        Exception.__init__(self, "%s: %s" % (kind, detail))
        self.kind, self.detail, self.insn = kind, detail, insn


class Unsupported(Exception):
    """Outside the encodable class (unknown mnemonic, symbolic address...) -> query undecided/error."""


class SymIndex(Unsupported):
    """memory operand whose index register is symbolic: (constant part of the address, index value, scale)"""

    def __init__(self, const, idx, scale, insn, reg=None, regw=64):
        Unsupported.__init__(self, "symbolic index address in %r" % (insn,))
        self.const, self.idx, self.scale, self.reg, self.regw = const, idx, scale, reg, regw


class Op:
    __slots__ = ("kind", "reg", "width", "shift", "vidx", "size", "base", "index", "scale", "disp", "imm", "kmask", "zeroing", "bcst")

    def __init__(self, kind):
        self.kind = kind
        self.kmask = None
        self.zeroing = False
        self.bcst = None


_mem_re = re.compile(r"^(?:(\w+) (?:PTR|BCST) )?(?:\w\w:)?\[(.*)\]$")


def parse_operand(s):
    s = s.strip()
    kmask, zeroing = None, False
    m = re.search(r"\{(k[0-7])\}", s)
    if m:
        kmask = int(m.group(1)[1])
        s = s.replace(m.group(0), "")
    if "{z}" in s:
        zeroing = True
        s = s.replace("{z}", "")
    bc = None
    m = re.search(r"\{1to(\d+)\}", s)
    if m:
        bc = int(m.group(1))
        s = s.replace(m.group(0), "")
    s = s.strip()
    if s in REGMAP:
        o = Op("r")
        o.reg, o.width, o.shift = REGMAP[s]
    elif re.match(r"^[xyz]mm\d+$", s):
        o = Op("v")
        o.vidx = int(s[3:])
        o.width = {"x": 128, "y": 256, "z": 512}[s[0]]
    elif re.match(r"^k[0-7]$", s):
        o = Op("k")
        o.vidx = int(s[1])
        o.width = 64
    elif re.match(r"^-?(0x[0-9a-f]+|\d+)$", s):
        o = Op("i")
        o.imm = int(s, 0)
    else:
        m = _mem_re.match(s)
        if not m:
            raise Unsupported("operand %r" % s)
        o = Op("m")
        o.size = SIZEKW.get(m.group(1)) if m.group(1) else None
        if " BCST " in s:
            bc = bc or -1
        o.base = o.index = None
        o.scale, o.disp = 1, 0
        expr = m.group(2).replace("-", "+-")
        for t in expr.split("+"):
            t = t.strip()
            if not t:
                continue
            if "*" in t:
                r, sc = t.split("*")
                o.index, o.scale = r.strip(), int(sc, 0)
                continue
            elif re.match(r"^[xyz]mm\d+$", t):
                o.index = t     # VSIB (gathers): decoded by the gather handler itself
            elif t in REGMAP or t == "rip":
                if o.base is None:
                    o.base = t
                else:
                    o.index = t
            else:
                o.disp += int(t.replace(" ", ""), 0)
    o.kmask, o.zeroing, o.bcst = kmask, zeroing, bc
    return o


class Region:
    def __init__(self, name, base, size, r=True, w=False, kind="data"):
        self.name, self.base, self.size, self.r, self.w, self.kind = name, base, size, r, w, kind
        self.loads = self.stores = 0
        self.lazy = None   # optional callable(addr) -> byte value for regions too large to materialise

    def __repr__(self):
        return "<%s %x+%d %s%s>" % (self.name, self.base, self.size, "r" if self.r else "-", "w" if self.w else "-")


class Memory:
    def __init__(self, img):
        self.b = {}          # addr -> byte value
        self.regions = []
        self.img = img
        self.written = set()  # addresses written by the kernel (outside stack)
        self.log = None
        # optional tolerance for over-reads that stay inside ONE naturally aligned <=8-byte word which overlaps a
        # readable region (can never fault): recorded in self.soft, outside bytes come from outside_fn(addr)
        self.soft = None
        self.outside_fn = None

    def copy(self):
        m = Memory(self.img)
        m.b = dict(self.b)
        m.regions = self.regions
        m.written = set(self.written)
        m.soft = list(self.soft) if self.soft is not None else None
        m.log = list(self.log) if self.log is not None else None
        m.outside_fn = self.outside_fn
        return m

    def add_region(self, reg, init):
        """init: list of byte values (len == size) or None (unmapped contents: reading is a violation 'uninit')"""
        self.regions.append(reg)
        if init is not None:
            for i, v in enumerate(init):
                self.b[reg.base + i] = v
        return reg

    def find(self, addr, n):
        for r in self.regions:
            if r.base <= addr and addr + n <= r.base + r.size:
                return r
        return None

    def load(self, addr, n, insn=None, active=None):
        """returns list of n byte values. active: optional list of bools (masked lanes)"""
        if active is not None:
            idx = [i for i, a in enumerate(active) if a]
            if not idx:
                return [0] * n
            lo, hi = idx[0], idx[-1] + 1
        else:
            lo, hi = 0, n
        reg = self.find(addr + lo, hi - lo)
        if reg is None:
            # constant pool of the image?
            if all((addr + i) in self.img.data for i in range(lo, hi)):
                return [self.img.data[addr + i] if lo <= i < hi else 0 for i in range(n)]
            if self.soft is not None and active is None and n <= 8 and addr % n == 0:
                for r in self.regions:
                    if r.r and r.kind == "data" and addr < r.base + r.size and r.base < addr + n:
                        self.soft.append((addr, n, r.name, repr(insn)))
                        return [self.b[addr + i] if r.base <= addr + i < r.base + r.size else self.outside_fn(addr + i) for i in range(n)]
            raise Violation("oob-read", "read of %d bytes at 0x%x outside every declared region" % (hi - lo, addr + lo), insn)
        if not reg.r:
            raise Violation("oob-read", "read of %d bytes at 0x%x in non-readable region %s" % (hi - lo, addr + lo, reg.name), insn)
        reg.loads += 1
        out = []
        for i in range(n):
            if i < lo or i >= hi or (active is not None and not active[i]):
                out.append(0)
                continue
            v = self.b.get(addr + i)
            if v is None and reg.lazy is not None:
                v = reg.lazy(addr + i)
                self.b[addr + i] = v
            if v is None:
                raise Violation("uninit-read", "read of never-written byte at 0x%x (%s)" % (addr + i, reg.name), insn)
            out.append(v)
        return out

    def store(self, addr, vals, insn=None, active=None):
        n = len(vals)
        if active is not None:
            idx = [i for i, a in enumerate(active) if a]
            if not idx:
                return
            lo, hi = idx[0], idx[-1] + 1
        else:
            lo, hi = 0, n
        reg = self.find(addr + lo, hi - lo)
        if reg is None or not reg.w:
            raise Violation("oob-write", "write of %d bytes at 0x%x %s" % (hi - lo, addr + lo, "outside every declared region" if reg is None else "to read-only region " + reg.name), insn)
        reg.stores += 1
        if self.log is not None:
            self.log.append(("store", addr + lo, hi - lo, repr(insn)))
        for i in range(lo, hi):
            if active is not None and not active[i]:
                continue
            self.b[addr + i] = vals[i]
            if reg.kind != "stack":
                self.written.add(addr + i)


class Flags:
    __slots__ = ("zf", "sf", "cf", "of", "pf")

    def __init__(self):
        self.zf = self.sf = self.cf = self.of = self.pf = None

    def copy(self):
        f = Flags()
        f.zf, f.sf, f.cf, f.of, f.pf = self.zf, self.sf, self.cf, self.of, self.pf
        return f


class State:
    def __init__(self, img):
        self.img = img
        self.r = {n: 0 for n in GPR64}
        self.v = [[0] * 64 for _ in range(32)]
        self.k = [0] * 8
        self.fl = Flags()
        self.mem = Memory(img)
        self.pc = 0
        self.path = []        # z3 Bool path condition conjuncts
        self.steps = 0
        self.trace = None
        self.cpuid_log = []
        self.uninit_regs = set()

    def fork(self):
        s = State.__new__(State)
        s.img = self.img
        s.r = dict(self.r)
        s.v = list(self.v)
        s.k = list(self.k)
        s.fl = self.fl.copy()
        s.mem = self.mem.copy()
        s.pc = self.pc
        s.path = list(self.path)
        s.steps = self.steps
        s.trace = self.trace
        s.cpuid_log = list(self.cpuid_log)
        s.uninit_regs = set(self.uninit_regs)
        return s

    # ---- GPR access
    def get_reg(self, o):
        v = self.r[o.reg]
        if o.width == 64:
            return v
        return bv.extract(v, o.shift + o.width - 1, o.shift)

    def set_reg(self, o, val):
        if o.width == 64:
            self.r[o.reg] = val
        elif o.width == 32:
            self.r[o.reg] = bv.zext(32, 64, val)
        else:
            old = self.r[o.reg]
            parts = []
            hi0 = o.shift + o.width
            if hi0 < 64:
                parts.append((64 - hi0, bv.extract(old, 63, hi0)))
            parts.append((o.width, val))
            if o.shift:
                parts.append((o.shift, bv.extract(old, o.shift - 1, 0)))
            self.r[o.reg] = bv.concat(parts)

    def ea(self, o, insn):
        a = o.disp
        if o.base == "rip":
            a += insn.addr + insn.size
        elif o.base:
            b = self.r[REGMAP[o.base][0]]
            if REGMAP[o.base][1] == 32:
                b = bv.extract(b, 31, 0)
            if not bv.is_c(b):
                raise Unsupported("symbolic base address in %r" % (insn,))
            a += b
        if o.index:
            x = self.r[REGMAP[o.index][0]]
            if REGMAP[o.index][1] == 32:
                x = bv.extract(x, 31, 0)
            if not bv.is_c(x):
                raise SymIndex(a & bv.mask(64), x, o.scale, insn, REGMAP[o.index][0], REGMAP[o.index][1])
            a += x * o.scale
        return a & bv.mask(64)
